"""py2lean_v — Python-AST -> Lean 4 translator for the traversal generators of `ASTNode` (src/pyoak/node.py): `dfs`, `bfs`,
`gather`.  Sibling of py2lean_t.py (which translates `class Tree`, a set of pure / raising queries over immutable tables);
the traversals are IMPERATIVE code over local mutable lists / deques, so this translator is STORE-PASSING: every local
variable is a Lean variable, a mutation re-binds it (`let x := ..`, shadowing).

Regenerated on every run of `./check C05` from the tree under examination into lean/PyOak/Gen/KernelsTraverse.lean;
Props/GenBridgeTraverse.lean proves the hand-written model (Model/Traverse.lean: dfsImpl, bfsImpl, gatherImpl) equal to the
generated definitions -- an OPTIONAL obligation of C05 (harness/kernels_tie.py: `optional_traverse`).

A generator method has the result type `Gen T` (its finite trace: the values yielded and the exception, if any, that ended
it).  A `while` loop, together with everything after it, becomes an auxiliary recursive definition `<method>_loop[_k]`
over the variables the loop mutates; it recurses on `fuel : Nat` (one unit per test of the loop condition, `OutOfFuel` at
0 -- an error no Python run produces); every loop starts with the fuel `fuel0` given to the method.

Accepted subset (anything else: `Unsupported` naming the method and the construct -- never silently skipped):

  stmt ::= docstring | pass | `x [: T] = e` | `x: T` | `x += e` (lists) | `x = q.pop()` | `x = q.popleft()`
         | `q.append(e)` | `q.appendleft(e)` | `q.extend(e)` | `q.reverse()` | `g(e)` (g a bound-method alias, below)
         | `g = q.append` / `g = q.appendleft`  (bound-method alias of a local deque)
         | `yield e` | `yield q.popleft()` | `continue` | `break` | bare `return`
         | `if c: .. [else ..]`: when no branch yields / exits, the variables mutated in a branch are MERGED
           (`let (a, b) := if c then .. else ..`); otherwise each branch continues with a copy of the statements after the
           `if` (which then must not contain a loop); `if [not] isinstance(x, tuple)` narrows a `type | tuple[type, ...]`
         | `for TARGET in e: ..` (no yield / exit in the body): a `foldl` over the variables the body mutates
         | `for v in self.m(..): yield e`   (m a translated generator method)
         | `while c: ..` (see above) | nested `def f(x: T) -> bool: return e` (a closure: `let f := fun x => e`)
  e    ::= name | True | False | None | e.attr (record field) | `not e` | `e and e` | `e or e` (`x is None or P` /
           `x is not None and P` narrow x in P) | `e is [not] None` | a list / deque in a test (`!e.isEmpty`)
         | `f(e)` (f a Callable parameter / a closure) | `Record(e, ..)` | `[]` | `deque()` | `deque(e)` | `list(e)`
         | `reversed(e)` | `e + e` (lists) | `(E for TARGET in e)` / `[E for TARGET in e]` | `x.get_child_nodes_with_field()`
         | `isinstance(e, classes)` | `type(e) in classes` | `cast(T, e)` | `(e,)` | `self.m(args)`

Restrictions that keep value semantics sound: a list variable is never aliased (`a = b` on lists is refused; the only alias
is the bound-method alias, which is tracked in the static type); a `for` does not iterate over a variable its body mutates;
a `for` target does not shadow a live variable.

THE PRIMITIVE TABLE (Python idiom -> model primitive) is `PRIMITIVES` below together with the fixed prelude `HEADER`; both
are part of the trusted base of the tie and are printed into the generated file.
"""
from __future__ import annotations

import ast
from pathlib import Path

from py2lean_k import K, Unsupported

# ------------------------------------------------------------------------------------------------ trusted base
PRIMITIVES = [
    ("x.get_child_nodes_with_field()   (x a node, no arguments)", "py.child_items x : List (N × FieldR × Option Int)   -- the stream, fully consumed (tied in C12)"),
    ("list(e) / deque(e)   (e a list / stream)", "e   (lists are values: a copy is the list itself)"),
    ("[] / deque()", "[]"),
    ("reversed(e)", "e.reverse"),
    ("q.reverse()", "let q := q.reverse"),
    ("q.append(e)", "let q := q ++ [e]"),
    ("q.appendleft(e)   (deque)", "let q := e :: q"),
    ("q.extend(e) / q += e", "let q := q ++ e"),
    ("e + e   (lists)", "e ++ e"),
    ("x = q.pop()", "match q.getLast? with | none => raise IndexError | some x => let q := q.dropLast; .."),
    ("x = q.popleft()   (deque)", "match q.head? with | none => raise IndexError | some x => let q := q.tail; .."),
    ("g = q.append / q.appendleft; g(e)   (q a local deque)", "let g := DequeOp.append / .appendleft; let q := DequeOp.apply g q e"),
    ("q   (a list / deque as a condition)", "!q.isEmpty"),
    ("(E for T in e) / [E for T in e]", "e.map (fun T => E)"),
    ("for T in e: BODY   (BODY mutates vs)", "let vs := e.foldl (fun vs T => BODY; vs) vs"),
    ("if c: A else: B   (no yield / exit; A, B mutate vs)", "let vs := if c then (A; vs) else (B; vs)"),
    ("x is None or P / x is not None and P", "match x with | none => true / false | some x' => P[x']"),
    ("x is None / x is not None", "x.isNone / x.isSome"),
    ("f(e)   (f: Callable[[NodeTraversalInfo], bool], a parameter or a closure)", "f e   -- callbacks are pure total functions"),
    ("def f(x: T) -> bool: return e   (nested)", "let f := fun (x : T) => e"),
    ("isinstance(x, c) / isinstance(x, (c1, ..))", "py.isinstance x c / cs.any (py.isinstance x)"),
    ("type(x) in cs", "cs.contains (py.type_of x)   -- == on classes is identity"),
    ("isinstance(v, tuple)   (v : type | tuple[type, ...])", "match v with | .inl c | .inr cs"),
    ("(c,)   (a tuple of classes)", "[c]"),
    ("cast(T, e)", "e"),
    ("Callable | None given a closure", "some f"),
    ("generator method (yield)", "Gen T = List T × Option Err: the yielded values and the exception that ended it"),
    ("for v in self.m(..): yield e", "Gen.forYield (m ..) (fun v => e) rest"),
    ("while c: ..", "recursion on fuel : Nat, `Gen.raise .OutOfFuel` at 0; each loop starts with the method's fuel0"),
]

HEADER = """/- GENERATED by harness/py2lean_v.py from `ASTNode.dfs`, `ASTNode.bfs`, `ASTNode.gather` and `NodeTraversalInfo`
   (src/pyoak/node.py) on every run of `./check C05`.  Do not edit: Props/GenBridgeTraverse.lean proves the hand-written
   model (Model/Traverse.lean) equal to exactly these definitions (an OPTIONAL obligation, see harness/kernels_tie.py).

   Python idiom -> primitive (the trusted base of this translation):
%PRIMS%
-/
import PyOak.Sexp
namespace PyOak.GenV
open PyOak

/-- `IndexError` (pop from an empty list / deque), plus the marker of an exhausted fuel (no Python run produces it) -/
inductive Err where
  | IndexError
  | OutOfFuel
  deriving DecidableEq, Repr

/-- the finite trace of a generator: the values it yields and the exception (if any) that ends it -/
abbrev Gen (α : Type) := List α × Option Err

/-- `yield x` followed by `g` -/
def Gen.yield_ {α : Type} (x : α) (g : Gen α) : Gen α := (x :: g.1, g.2)
/-- the generator returns -/
def Gen.done {α : Type} : Gen α := ([], none)
/-- the generator raises -/
def Gen.raise {α : Type} (e : Err) : Gen α := ([], some e)
/-- `for v in g: yield f v` followed by `rest` -/
def Gen.forYield {α β : Type} (g : Gen α) (f : α → β) (rest : Gen β) : Gen β :=
  match g.2 with
  | some e => (g.1.map f, some e)
  | none => (g.1.map f ++ rest.1, rest.2)

/-- a bound method `q.append` / `q.appendleft` of a deque, as a value -/
inductive DequeOp where
  | append
  | appendleft
  deriving DecidableEq, Repr

/-- calling the bound method: the new contents of the deque it is bound to -/
def DequeOp.apply {α : Type} : DequeOp → List α → α → List α
  | .append, q, x => q ++ [x]
  | .appendleft, q, x => x :: q

/-- `dataclasses.Field` as far as the traversals look at it (they only pass it on) -/
structure FieldR where
  name : Str
  deriving DecidableEq, Repr
"""

PY_STRUCT = """/-- what the translation assumes about node objects and classes -/
structure Py (N C : Type) where
  /-- `list(x.get_child_nodes_with_field())` -/
  child_items : N → List (N × FieldR × Option Int)
  /-- `isinstance(x, c)` -/
  isinstance : N → C → Bool
  /-- `type(x)` -/
  type_of : N → C
"""

RESERVED = {"at", "end", "from", "fun", "in", "do", "then", "else", "if", "let", "have", "show", "with", "match", "where",
            "open", "by", "calc", "def", "theorem", "instance", "structure", "class", "namespace", "section", "variable",
            "return", "for", "mut", "py", "fuel", "fuel0", "fuel_1", "Type", "Prop", "Sort", "some", "none", "true", "false"}

SIG = "{N C : Type} [BEq C] (py : Py N C)"
LIST_METHODS = {"append", "extend", "reverse", "pop"}
DEQUE_METHODS = {"append", "appendleft", "extend", "popleft", "pop"}
ALL_MUT = {"append", "appendleft", "extend", "extendleft", "reverse", "pop", "popleft", "clear", "insert", "remove", "sort", "rotate"}


# ------------------------------------------------------------------------------------------------ types
# "N" | "C" | "Bool" | "Int" | "FieldR" | ("opt", t) | ("list", t) | ("prod", [t..]) | ("rec", name) | ("fn", a, r)
# | ("sum", a, b) | ("gen", t) | ("mut", python name of the deque) | ("opt", "?") for a bare None | ("list", "?") for []

def lean_ty(t) -> str:
    if isinstance(t, tuple):
        k = t[0]
        if k == "opt":
            return f"(Option {lean_ty(t[1])})"
        if k == "list":
            return f"(List {lean_ty(t[1])})"
        if k == "prod":
            return "(" + " × ".join(lean_ty(x) for x in t[1]) + ")"
        if k == "rec":
            return f"({t[1]} N)"
        if k == "fn":
            return f"({lean_ty(t[1])} → {lean_ty(t[2])})"
        if k == "sum":
            return f"({lean_ty(t[1])} ⊕ {lean_ty(t[2])})"
        if k == "gen":
            return f"(Gen {lean_ty(t[1])})"
        if k == "mut":
            return "DequeOp"
        raise Unsupported("type", str(t))
    if t == "?":
        raise Unsupported("type", "an empty list / None whose element type is not known")
    return t


def is_opt(t) -> bool:
    return isinstance(t, tuple) and t[0] == "opt"


def is_list(t) -> bool:
    return isinstance(t, tuple) and t[0] == "list"


def walk(node):
    """ast.walk that does not descend into nested function bodies"""
    todo = [node]
    while todo:
        n = todo.pop()
        yield n
        if isinstance(n, (ast.FunctionDef, ast.Lambda)) and n is not node:
            continue
        todo.extend(ast.iter_child_nodes(n))


class Types:
    def __init__(self, node_tvars: set[str], records: dict):
        self.node_tvars, self.records = node_tvars, records

    def ann(self, a: ast.expr, where: str):
        """-> (type, kind) with kind in (None, "list", "deque")"""
        t = self.ann0(a, where)
        kind = None
        if isinstance(a, ast.Subscript) and isinstance(a.value, ast.Name):
            kind = {"list": "list", "List": "list", "Deque": "deque", "deque": "deque", "tuple": "tuple", "Tuple": "tuple"}.get(a.value.id)
        return t, kind

    def ann0(self, a: ast.expr, where: str):
        if isinstance(a, ast.Constant) and a.value is None:
            return "None"
        if isinstance(a, ast.Constant) and isinstance(a.value, str):
            return self.ann0(ast.parse(a.value, mode="eval").body, where)
        if isinstance(a, ast.Name):
            m = {"ASTNode": "N", "Field": "FieldR", "int": "Int", "bool": "Bool"}
            if a.id in m:
                return m[a.id]
            if a.id in self.node_tvars:
                return "N"
            if a.id in self.records:
                return ("rec", a.id)
        if isinstance(a, ast.BinOp) and isinstance(a.op, ast.BitOr):
            l, r = self.ann0(a.left, where), self.ann0(a.right, where)
            if r == "None":
                return ("opt", l)
            if l == "None":
                return ("opt", r)
            if r == ("list", l):
                return ("sum", l, r)
        if isinstance(a, ast.Subscript) and isinstance(a.value, ast.Name):
            h, s = a.value.id, a.slice
            if h in ("type", "Type") and self.ann0(s, where) == "N":
                return "C"
            if h == "Optional":
                return ("opt", self.ann0(s, where))
            if h == "Generator" and isinstance(s, ast.Tuple) and len(s.elts) == 3 \
                    and all(isinstance(x, ast.Constant) and x.value is None for x in s.elts[1:]):
                return ("gen", self.ann0(s.elts[0], where))
            if h in ("Iterator", "Iterable") and not isinstance(s, ast.Tuple):
                return ("gen", self.ann0(s, where))
            if h in ("list", "List", "Deque", "deque") and not isinstance(s, ast.Tuple):
                return ("list", self.ann0(s, where))
            if h in ("tuple", "Tuple") and isinstance(s, ast.Tuple):
                if len(s.elts) == 2 and isinstance(s.elts[1], ast.Constant) and s.elts[1].value is Ellipsis:
                    return ("list", self.ann0(s.elts[0], where))
                return ("prod", [self.ann0(x, where) for x in s.elts])
            if h == "Callable" and isinstance(s, ast.Tuple) and len(s.elts) == 2 and isinstance(s.elts[0], ast.List) \
                    and len(s.elts[0].elts) == 1:
                return ("fn", self.ann0(s.elts[0].elts[0], where), self.ann0(s.elts[1], where))
        raise Unsupported(where, f"annotation {ast.unparse(a)}")


class Meth:
    def __init__(self, fn: ast.FunctionDef, params, ret):
        self.fn, self.name, self.params, self.ret = fn, fn.name, params, ret      # params: (name, type, default, kwonly)
        self.calls: set[str] = set()


class Tr:
    """translation of one method body"""

    def __init__(self, owner: "TraverseTr", m: Meth):
        self.o, self.m, self.T = owner, m, owner.types
        self.env: dict[str, object] = {}
        self.lean: dict[str, str] = {}
        self.kind: dict[str, str] = {}       # list / deque
        self.declared: dict[str, tuple] = {}
        self.fresh = 0
        self.aux: list[str] = []
        self.loop_k = None                   # inside a while body: (continue thunk, break thunk)
        self.gen_ctx = True                  # the block under translation has the type Gen T (yield / exit / pop allowed)
        self.nloops = 0
        self.where = f"ASTNode.{m.name}"

    # ---------------------------------------------------------------- helpers
    def bad(self, node, why=""):
        line = getattr(node, "lineno", None)
        src = ast.unparse(node) if isinstance(node, ast.AST) else str(node)
        raise Unsupported(self.where, f"{why or 'construct'} (line {line}): {src}"[:300])

    def new(self, base):
        self.fresh += 1
        return f"{base}_{self.fresh}"

    def bind_var(self, name: str, ty, node=None, kind=None):
        if name in RESERVED or name.startswith("_") or not name.isidentifier():
            self.bad(node or name, f"variable name {name} (reserved in the translation)")
        old = self.env.get(name)
        if old is not None and old != ty and not (is_list(old) and ty == ("list", "?")):
            self.bad(node or name, f"variable {name} changes its type ({old} -> {ty})")
        if not (old is not None and ty == ("list", "?")):
            self.env[name] = ty
        self.lean[name] = name
        if kind is not None:
            if self.kind.get(name, kind) != kind:
                self.bad(node or name, f"variable {name} is a {self.kind[name]} and a {kind}")
            self.kind[name] = kind
        return name

    def snapshot(self):
        return dict(self.env), dict(self.lean), dict(self.kind)

    def restore(self, snap):
        self.env, self.lean, self.kind = dict(snap[0]), dict(snap[1]), dict(snap[2])

    def pat(self, tgt: ast.expr, ty, node) -> str:
        """bind a `for` target -> the Lean pattern"""
        if isinstance(tgt, ast.Name):
            if tgt.id in self.env:
                self.bad(node, f"loop target {tgt.id} shadows a live variable")
            return self.bind_var(tgt.id, ty, node)
        if isinstance(tgt, ast.Tuple) and isinstance(ty, tuple) and ty[0] == "prod" and len(ty[1]) == len(tgt.elts):
            return "(" + ", ".join(self.pat(t, x, node) for t, x in zip(tgt.elts, ty[1])) + ")"
        if isinstance(tgt, ast.Tuple) and isinstance(ty, tuple) and ty[0] == "rec" and len(self.T.records[ty[1]]) == len(tgt.elts):
            self.bad(node, "unpacking a NamedTuple in a loop target")
        self.bad(node, "loop target")

    def tuple_of(self, vs: list[str]) -> str:
        return self.lean[vs[0]] if len(vs) == 1 else "(" + ", ".join(self.lean[v] for v in vs) + ")"

    # ---------------------------------------------------------------- analysis
    def mutated(self, stmts) -> list[str]:
        out: list[str] = []

        def add(n):
            if n not in out:
                out.append(n)
        for st in stmts:
            for n in walk(st):
                if isinstance(n, ast.Assign):
                    for t in n.targets:
                        if not isinstance(t, ast.Name):
                            self.bad(n, "structured assignment")
                        add(t.id)
                    v = n.value
                    if isinstance(v, ast.Attribute) and isinstance(v.value, ast.Name) and v.attr in ALL_MUT:
                        add(v.value.id)       # a bound-method alias: count the deque as mutated
                elif isinstance(n, (ast.AnnAssign, ast.AugAssign)):
                    if not isinstance(n.target, ast.Name):
                        self.bad(n, "structured assignment")
                    add(n.target.id)
                elif isinstance(n, ast.FunctionDef):
                    add(n.name)
                elif isinstance(n, ast.For):
                    for t in ast.walk(n.target):
                        if isinstance(t, ast.Name):
                            add(t.id)
                elif isinstance(n, ast.NamedExpr):
                    self.bad(n, "walrus")
                elif isinstance(n, ast.Call):
                    f = n.func
                    if isinstance(f, ast.Attribute) and isinstance(f.value, ast.Name) and f.attr in ALL_MUT:
                        add(f.value.id)
                    elif isinstance(f, ast.Name):
                        t = self.env.get(f.id)
                        if isinstance(t, tuple) and t[0] == "mut":
                            add(t[1])
        return out

    def has_effect(self, stmts) -> bool:
        """a yield / an exit / a pop / a loop: the statements cannot be merged into a tuple of variables"""
        for st in stmts:
            for n in walk(st):
                if isinstance(n, (ast.Return, ast.Continue, ast.Break, ast.Raise, ast.Yield, ast.YieldFrom, ast.While)):
                    return True
                if isinstance(n, ast.Call) and isinstance(n.func, ast.Attribute) and n.func.attr in ("pop", "popleft"):
                    return True
                if isinstance(n, ast.For) and self.gen_for(n) is not None:
                    return True
        return False

    def gen_for(self, s: ast.For):
        it = s.iter
        if isinstance(it, ast.Call) and isinstance(it.func, ast.Attribute) and isinstance(it.func.value, ast.Name) \
                and it.func.value.id == "self" and it.func.attr in self.o.meths:
            return it.func.attr
        return None

    # ---------------------------------------------------------------- expressions -> (term, type)
    def coerce(self, t, ty, want, node):
        if want is None or ty == want:
            return t, ty
        if ty == ("list", "?") and is_list(want):
            return t, want
        if is_opt(want):
            if ty == ("opt", "?"):
                return "none", want
            if not is_opt(ty):
                x, _ = self.coerce(t, ty, want[1], node)
                return f"(some {x})", want
        self.bad(node, f"a value of type {ty} where {want} is expected")

    def expr(self, e: ast.expr, want=None):
        t, ty = self.expr0(e, want)
        return self.coerce(t, ty, want, e)

    def expr0(self, e: ast.expr, want=None):
        if isinstance(e, ast.Name):
            if e.id in self.env:
                return self.lean[e.id], self.env[e.id]
            self.bad(e, "unknown name")
        if isinstance(e, ast.Constant):
            if e.value is True:
                return "true", "Bool"
            if e.value is False:
                return "false", "Bool"
            if e.value is None:
                return "none", ("opt", "?")
            self.bad(e, "literal")
        if isinstance(e, ast.Attribute):
            base, bt = self.expr(e.value)
            if isinstance(bt, tuple) and bt[0] == "rec":
                fields = dict(self.T.records[bt[1]])
                if e.attr in fields:
                    return f"{base}.{e.attr}", fields[e.attr]
            self.bad(e, f"attribute of a value of type {bt}")
        if isinstance(e, (ast.BoolOp, ast.Compare)) or (isinstance(e, ast.UnaryOp) and isinstance(e.op, ast.Not)):
            return self.cond(e), "Bool"
        if isinstance(e, ast.List) and not e.elts:
            return "[]", ("list", "?")
        if isinstance(e, ast.Tuple) and len(e.elts) == 1 and want == ("list", "C"):
            a, _ = self.expr(e.elts[0], "C")
            return f"[{a}]", want
        if isinstance(e, ast.BinOp) and isinstance(e.op, ast.Add):
            a, ta = self.expr(e.left)
            b, tb = self.expr(e.right, ta if is_list(ta) and ta[1] != "?" else None)
            if is_list(ta) and is_list(tb):
                return f"({a} ++ {b})", (tb if ta[1] == "?" else ta)
            self.bad(e, "`+` on other than two lists")
        if isinstance(e, (ast.GeneratorExp, ast.ListComp)):
            return self.comprehension(e)
        if isinstance(e, ast.Call):
            return self.call(e, want)
        self.bad(e)

    def comprehension(self, e):
        if len(e.generators) != 1 or e.generators[0].ifs or e.generators[0].is_async:
            self.bad(e, "comprehension shape")
        g = e.generators[0]
        it, ity = self.expr(g.iter)
        if not is_list(ity) or ity[1] == "?":
            self.bad(g.iter, "comprehension over something that is not a list / child stream")
        snap = self.snapshot()
        p = self.pat(g.target, ity[1], e)
        b, bt = self.expr(e.elt)
        self.restore(snap)
        return f"({it}.map (fun {p} => {b}))", ("list", bt)

    def cond(self, e) -> str:
        """a condition -> Bool term; `and` / `or` short-circuit (all operands are pure, so `&&` / `||` agree)"""
        if isinstance(e, ast.BoolOp):
            is_and = isinstance(e.op, ast.And)
            vals = list(e.values)

            def go(i):
                if i == len(vals) - 1:
                    return self.cond(vals[i])
                nm = self.none_test(vals[i])
                if nm is not None and nm[1] == (not is_and):
                    name = nm[0]
                    cur = self.lean[name]
                    snap = self.snapshot()
                    self.env[name] = snap[0][name][1]
                    nv = self.lean[name] = self.new(cur)
                    r = go(i + 1)
                    self.restore(snap)
                    return f"(match {cur} with | none => {'false' if is_and else 'true'} | some {nv} => {r})"
                a = self.cond(vals[i])
                return f"({a} {'&&' if is_and else '||'} {go(i + 1)})"
            return go(0)
        if isinstance(e, ast.UnaryOp) and isinstance(e.op, ast.Not):
            return f"(!{self.cond(e.operand)})"
        if isinstance(e, ast.Compare):
            if len(e.ops) != 1:
                self.bad(e, "chained comparison")
            op, l, r = e.ops[0], e.left, e.comparators[0]
            if isinstance(op, (ast.Is, ast.IsNot)) and isinstance(r, ast.Constant) and r.value is None:
                t, ty = self.expr(l)
                if not is_opt(ty):
                    self.bad(e, "`is None` on a value that is not Optional")
                return f"{t}.isNone" if isinstance(op, ast.Is) else f"{t}.isSome"
            if isinstance(op, (ast.In, ast.NotIn)):
                b, tb = self.expr(r)
                a, ta = self.expr(l)
                if tb == ("list", "C") and ta == "C":
                    t = f"({b}.contains {a})"
                    return t if isinstance(op, ast.In) else f"(!{t})"
            self.bad(e, "comparison (`==` between nodes is ASTNode.__eq__, content equality: not a primitive here)")
        t, ty = self.expr(e)
        if ty == "Bool":
            return t
        if is_list(ty):
            return f"(!{t}.isEmpty)"
        self.bad(e, f"truthiness of a value of type {ty}")

    def none_test(self, e):
        if isinstance(e, ast.Compare) and len(e.ops) == 1 and isinstance(e.comparators[0], ast.Constant) \
                and e.comparators[0].value is None and isinstance(e.left, ast.Name) and isinstance(e.ops[0], (ast.Is, ast.IsNot)) \
                and is_opt(self.env.get(e.left.id)):
            return e.left.id, isinstance(e.ops[0], ast.Is)
        return None

    def tuple_test(self, e):
        neg = False
        if isinstance(e, ast.UnaryOp) and isinstance(e.op, ast.Not):
            neg, e = True, e.operand
        if isinstance(e, ast.Call) and isinstance(e.func, ast.Name) and e.func.id == "isinstance" and len(e.args) == 2 \
                and isinstance(e.args[0], ast.Name) and isinstance(e.args[1], ast.Name) and e.args[1].id == "tuple":
            ty = self.env.get(e.args[0].id)
            if isinstance(ty, tuple) and ty[0] == "sum":
                return e.args[0].id, not neg
            self.bad(e, "isinstance(.., tuple) on a value that is not `type | tuple[type, ...]`")
        return None

    def child_stream(self, e: ast.Call):
        f = e.func
        if isinstance(f, ast.Attribute) and f.attr == "get_child_nodes_with_field":
            if e.args or e.keywords:
                self.bad(e, "get_child_nodes_with_field with arguments (sort_keys) is not the primitive py.child_items")
            b, bt = self.expr(f.value)
            if bt != "N":
                self.bad(e, "get_child_nodes_with_field of a non-node")
            return f"(py.child_items {b})", ("list", ("prod", ["N", "FieldR", ("opt", "Int")]))
        return None

    def call(self, e: ast.Call, want=None):
        f = e.func
        cs = self.child_stream(e)
        if cs is not None:
            return cs
        if any(isinstance(a, ast.Starred) for a in e.args) or any(k.arg is None for k in e.keywords):
            self.bad(e, "* / ** arguments")
        if isinstance(f, ast.Name):
            ft = self.env.get(f.id)
            if isinstance(ft, tuple) and ft[0] == "fn":
                if len(e.args) != 1 or e.keywords:
                    self.bad(e, "callback arguments")
                a, _ = self.expr(e.args[0], ft[1])
                return f"({self.lean[f.id]} {a})", ft[2]
            if is_opt(ft) and isinstance(ft[1], tuple) and ft[1][0] == "fn":
                self.bad(e, "call of an Optional callback that is not narrowed by `is None or` / `is not None and`")
            if f.id in self.env:
                self.bad(e, "call of a local that is not a callback")
            if f.id in ("list", "deque") and not e.keywords and len(e.args) <= 1:
                if not e.args:
                    return "[]", ("list", "?")
                a, ta = self.expr(e.args[0])
                if not is_list(ta):
                    self.bad(e, f"{f.id}() of something that is not a list / child stream / comprehension")
                return a, ta
            if f.id == "reversed" and len(e.args) == 1 and not e.keywords:
                a, ta = self.expr(e.args[0])
                if not is_list(ta):
                    self.bad(e, "reversed() of a non-list")
                return f"{a}.reverse", ta
            if f.id == "isinstance" and len(e.args) == 2 and not e.keywords:
                if isinstance(e.args[1], ast.Name) and e.args[1].id == "tuple":
                    self.bad(e, "isinstance(.., tuple) outside an `if` test")
                a, ta = self.expr(e.args[0])
                b, tb = self.expr(e.args[1])
                if ta != "N":
                    self.bad(e, "isinstance of a non-node")
                if tb == "C":
                    return f"(py.isinstance {a} {b})", "Bool"
                if tb == ("list", "C"):
                    return f"({b}.any (py.isinstance {a}))", "Bool"
                self.bad(e, "isinstance against something that is not a class / tuple of classes")
            if f.id == "type" and len(e.args) == 1 and not e.keywords:
                a, ta = self.expr(e.args[0])
                if ta != "N":
                    self.bad(e, "type() of a non-node")
                return f"(py.type_of {a})", "C"
            if f.id == "cast" and len(e.args) == 2 and not e.keywords:
                try:
                    w = self.T.ann0(e.args[0], self.where)
                except Unsupported:
                    w = want
                return self.expr(e.args[1], w)
            if f.id in self.T.records:
                fields = self.T.records[f.id]
                names = [fn for fn, _ in fields]
                given = dict(zip(names, e.args))
                if len(e.args) > len(fields):
                    self.bad(e, "record constructor arguments")
                for k in e.keywords:
                    if k.arg not in names or k.arg in given:
                        self.bad(e, f"record constructor keyword {k.arg}")
                    given[k.arg] = k.value
                parts = []
                for fn, ft in fields:
                    if fn in given:
                        parts.append(f"{fn} := {self.expr(given[fn], ft)[0]}")
                    elif fn in self.o.record_defaults.get(f.id, {}):
                        snap = self.snapshot()
                        self.env, self.lean = {}, {}
                        try:
                            parts.append(f"{fn} := {self.expr(self.o.record_defaults[f.id][fn], ft)[0]}")
                        finally:
                            self.restore(snap)
                    else:
                        self.bad(e, f"record field {fn} not given")
                return "({ " + ", ".join(parts) + " } : " + f"{f.id} N)", ("rec", f.id)
        if isinstance(f, ast.Attribute) and isinstance(f.value, ast.Name) and f.value.id == "self" and f.attr in self.o.meths:
            return self.method_call(e, f.attr)
        self.bad(e, "call")

    def method_call(self, e: ast.Call, name: str):
        callee = self.o.meths[name]
        if callee is self.m:
            self.bad(e, "recursive method")
        self.m.calls.add(name)
        pos = [p for p in callee.params if not p[3]]
        if len(e.args) > len(pos):
            self.bad(e, "too many positional arguments")
        given = {p[0]: a for p, a in zip(pos, e.args)}
        for k in e.keywords:
            if k.arg in given or k.arg not in [p[0] for p in callee.params]:
                self.bad(e, f"keyword argument {k.arg}")
            given[k.arg] = k.value
        args = []
        for (pn, pt, default, _kw) in callee.params:
            if pn in given:
                args.append(self.expr(given[pn], pt)[0])
            elif default is not None:
                snap = self.snapshot()
                self.env, self.lean = {}, {}
                try:
                    args.append(self.expr(default, pt)[0])
                finally:
                    self.restore(snap)
            else:
                self.bad(e, f"missing argument {pn}")
        return f"({name} py fuel0 {self.lean['self']}" + "".join(" " + a for a in args) + ")", callee.ret

    # ---------------------------------------------------------------- statements
    def pop_of(self, v):
        """`q.pop()` / `q.popleft()` -> (python name, element type, option term, remainder term)"""
        if isinstance(v, ast.Call) and isinstance(v.func, ast.Attribute) and v.func.attr in ("pop", "popleft"):
            q = v.func.value
            if not isinstance(q, ast.Name) or not is_list(self.env.get(q.id)) or v.args or v.keywords:
                self.bad(v, "pop / popleft of something that is not a local list / deque, or with arguments")
            kind = self.kind.get(q.id)
            lq = self.lean[q.id]
            if v.func.attr == "popleft":
                if kind != "deque":
                    self.bad(v, "popleft of a non-deque")
                return q.id, self.env[q.id][1], f"{lq}.head?", f"{lq}.tail"
            if kind not in ("list", "deque"):
                self.bad(v, "pop of a variable that is not known to be a list / deque")
            return q.id, self.env[q.id][1], f"{lq}.getLast?", f"{lq}.dropLast"
        return None

    def with_pop(self, s, v, name_hint: str, body) -> str:
        q, ety, opt, remainder = self.pop_of(v)
        if not self.gen_ctx:
            self.bad(s, "pop inside a merged branch / a for body")
        if ety == "?":
            self.bad(s, "pop of a list whose element type is not known")
        x = name_hint
        return (f"(match {opt} with\n    | none => Gen.raise .IndexError\n    | some {x} =>\n    (let {self.lean[q]} := {remainder};\n    "
                f"{body(x, ety)}))")

    def mutate(self, s, name: str, term_of) -> str:
        """`let name := term_of(current lean name)`"""
        if not is_list(self.env.get(name)):
            self.bad(s, f"{name} is not a local list / deque")
        return f"(let {self.lean[name]} := {term_of(self.lean[name])};\n    "

    def block(self, stmts: list[ast.stmt], k) -> str:
        if not stmts:
            return k()
        s, rest = stmts[0], stmts[1:]
        cont = lambda: self.block(rest, k)  # noqa: E731
        if isinstance(s, ast.Pass) or (isinstance(s, ast.Expr) and isinstance(s.value, ast.Constant) and isinstance(s.value.value, str)):
            return cont()
        if isinstance(s, ast.Return):
            if s.value is not None or not self.gen_ctx:
                self.bad(s, "return with a value / inside a merged branch")
            return "Gen.done"
        if isinstance(s, ast.Continue) and self.loop_k is not None and self.gen_ctx:
            return self.loop_k[0]()
        if isinstance(s, ast.Break) and self.loop_k is not None and self.gen_ctx:
            return self.loop_k[1]()
        if isinstance(s, ast.Expr) and isinstance(s.value, ast.Yield):
            if not self.gen_ctx or s.value.value is None:
                self.bad(s, "yield inside a merged branch / bare yield")
            v = s.value.value
            if self.pop_of(v) is not None:
                return self.with_pop(s, v, self.new("y"), lambda x, ety: self.yield_term(s, x, ety, cont))
            t, ty = self.expr(v, self.m.ret[1])
            return f"Gen.yield_ {t} ({cont()})"
        if isinstance(s, ast.Expr) and isinstance(s.value, ast.Call):
            return self.call_stmt(s, s.value, cont)
        if isinstance(s, ast.AnnAssign) and s.simple and isinstance(s.target, ast.Name):
            want, kind = self.T.ann(s.annotation, self.where)
            if s.value is None:
                self.declared[s.target.id] = (want, kind)
                return cont()
            return self.assign(s, s.target.id, s.value, want, kind, cont)
        if isinstance(s, ast.Assign) and len(s.targets) == 1 and isinstance(s.targets[0], ast.Name):
            d = self.declared.get(s.targets[0].id, (None, None))
            return self.assign(s, s.targets[0].id, s.value, d[0], d[1], cont)
        if isinstance(s, ast.AugAssign) and isinstance(s.op, ast.Add) and isinstance(s.target, ast.Name):
            name = s.target.id
            if not is_list(self.env.get(name)):
                self.bad(s, "`+=` on other than a local list")
            t, _ = self.expr(s.value, self.env[name] if self.env[name][1] != "?" else None)
            return self.mutate(s, name, lambda q: f"{q} ++ {t}") + cont() + ")"
        if isinstance(s, ast.FunctionDef):
            return self.closure(s, cont)
        if isinstance(s, ast.If):
            return self.if_stmt(s, rest, k)
        if isinstance(s, ast.For):
            return self.for_stmt(s, rest, k)
        if isinstance(s, ast.While):
            return self.while_stmt(s, rest, k)
        self.bad(s, "statement")

    def yield_term(self, s, x, ety, cont):
        if ety != self.m.ret[1]:
            self.bad(s, "yield of a value of another type")
        return f"Gen.yield_ {x} ({cont()})"

    def call_stmt(self, s, c: ast.Call, cont) -> str:
        f = c.func
        if isinstance(f, ast.Name) and isinstance(self.env.get(f.id), tuple) and self.env[f.id][0] == "mut":
            tgt = self.env[f.id][1]
            if len(c.args) != 1 or c.keywords or not is_list(self.env.get(tgt)):
                self.bad(s, "call of a bound-method alias")
            a, _ = self.expr(c.args[0], self.env[tgt][1] if self.env[tgt][1] != "?" else None)
            return self.mutate(s, tgt, lambda q: f"DequeOp.apply {self.lean[f.id]} {q} {a}") + cont() + ")"
        if isinstance(f, ast.Attribute) and isinstance(f.value, ast.Name) and f.attr in ALL_MUT:
            name = f.value.id
            ty = self.env.get(name)
            if not is_list(ty):
                self.bad(s, f"{name} is not a local list / deque")
            kind = self.kind.get(name)
            allowed = LIST_METHODS if kind == "list" else DEQUE_METHODS if kind == "deque" else set()
            if f.attr not in allowed or c.keywords:
                self.bad(s, f"method {f.attr} of a {kind or 'value of unknown kind'}")
            ety = ty[1] if ty[1] != "?" else None
            if f.attr in ("append", "appendleft") and len(c.args) == 1:
                a, ta = self.expr(c.args[0], ety)
                if ety is None:
                    self.env[name] = ("list", ta)
                return self.mutate(s, name, (lambda q: f"{q} ++ [{a}]") if f.attr == "append" else (lambda q: f"{a} :: {q}")) + cont() + ")"
            if f.attr == "extend" and len(c.args) == 1:
                a, ta = self.expr(c.args[0], ty if ety is not None else None)
                if not is_list(ta):
                    self.bad(s, "extend with something that is not a list / child stream / comprehension")
                if ety is None:
                    self.env[name] = ta
                return self.mutate(s, name, lambda q: f"{q} ++ {a}") + cont() + ")"
            if f.attr == "reverse" and not c.args:
                return self.mutate(s, name, lambda q: f"{q}.reverse") + cont() + ")"
            self.bad(s, "a pop whose value is dropped / method arguments")
        self.bad(s, "expression statement")

    def assign(self, s, name: str, value: ast.expr, want, kind, cont) -> str:
        if name == "self":
            self.bad(s, "assignment to self")
        if self.pop_of(value) is not None:
            def body(x, ety):
                self.bind_var(name, ety, s)
                return cont()
            return self.with_pop(s, value, name, body)
        # bound-method alias
        if isinstance(value, ast.Attribute) and isinstance(value.value, ast.Name) and value.attr in ALL_MUT:
            q = value.value.id
            if value.attr not in ("append", "appendleft") or self.kind.get(q) != "deque" or not is_list(self.env.get(q)):
                self.bad(s, "bound-method alias other than `<local deque>.append / .appendleft`")
            lv = self.bind_var(name, ("mut", q), s)
            return f"(let {lv} := DequeOp.{value.attr};\n    {cont()})"
        if isinstance(value, ast.Name) and is_list(self.env.get(value.id)):
            # every mutation requires the kind list / deque, so a value of another kind (a tuple) may be shared
            if self.kind.get(value.id) in ("list", "deque") or kind in ("list", "deque"):
                self.bad(s, "aliasing of a mutable list (`a = b`): not translated (use list(b))")
            kind = "tuple"
        t, ty = self.expr(value, want)
        if ty == ("opt", "?"):
            self.bad(s, "assignment of a bare None (no type)")
        if is_list(ty) and kind is None:
            kind = "deque" if isinstance(value, ast.Call) and isinstance(value.func, ast.Name) and value.func.id == "deque" else "list"
        lv = self.bind_var(name, ty, s, kind if is_list(ty) else None)
        ann = f" : {lean_ty(ty)}" if not (is_list(ty) and ty[1] == "?") else ""
        return f"(let {lv}{ann} := {t};\n    {cont()})"

    def closure(self, s: ast.FunctionDef, cont) -> str:
        a = s.args
        body = [x for x in s.body if not (isinstance(x, ast.Expr) and isinstance(x.value, ast.Constant))]
        if s.decorator_list or a.vararg or a.kwarg or a.kwonlyargs or a.posonlyargs or a.defaults or len(a.args) != 1 \
                or a.args[0].annotation is None or s.returns is None or len(body) != 1 or not isinstance(body[0], ast.Return) \
                or body[0].value is None:
            self.bad(s, "nested def other than `def f(x: T) -> R: return e`")
        pt, rt = self.T.ann0(a.args[0].annotation, self.where), self.T.ann0(s.returns, self.where)
        snap = self.snapshot()
        if a.args[0].arg in self.env:
            self.bad(s, "closure parameter shadows a live variable")
        p = self.bind_var(a.args[0].arg, pt, s)
        t, _ = (self.cond(body[0].value), "Bool") if rt == "Bool" else self.expr(body[0].value, rt)
        self.restore(snap)
        lv = self.bind_var(s.name, ("fn", pt, rt), s)
        return f"(let {lv} : {lean_ty(('fn', pt, rt))} := fun {p} => {t};\n    {cont()})"

    def merged(self, s, branches, snap):
        """branches: [(stmts, narrowing or None)] without yield / exit -> (variables, [terms]); leaves env = merged env"""
        muts = []
        for stmts, _ in branches:
            for v in self.mutated(stmts):
                if v not in muts:
                    muts.append(v)
        results = []
        for stmts, narrow in branches:
            self.restore(snap)
            if narrow is not None:
                self.env[narrow[0]], self.lean[narrow[0]] = narrow[1], narrow[2]
            save, self.gen_ctx = self.gen_ctx, False
            marker = object()
            envs = {}

            def k():
                envs[marker] = self.snapshot()
                return "%TUPLE%"
            body = self.block(stmts, k)
            self.gen_ctx = save
            results.append((body, envs[marker]))
        vs = [v for v in muts if all(v in r[1][0] for r in results) and (v in snap[0] or True)]
        vs = [v for v in vs if v in snap[0] or all(v in self.mutated(b[0]) for b in branches)]
        if not vs:
            self.bad(s, "an `if` without effect on any variable")
        for v in vs:
            tys = {repr(r[1][0][v]) for r in results}
            kinds = {r[1][2].get(v) for r in results}
            if len(tys) != 1 or len(kinds) != 1:
                self.bad(s, f"variable {v} has different types in the branches")
            if any(r[1][1][v] != v for r in results):
                self.bad(s, f"variable {v} is narrowed in a branch")
        terms = []
        for body, e in results:
            tup = v if len(vs) == 1 and (v := vs[0]) else "(" + ", ".join(vs) + ")"
            terms.append(body.replace("%TUPLE%", tup))
        self.restore(snap)
        for v in vs:
            e = results[0][1]
            self.env[v], self.lean[v] = e[0][v], v
            if v in e[2]:
                self.kind[v] = e[2][v]
        return vs, terms

    def if_stmt(self, s: ast.If, rest, k) -> str:
        snap = self.snapshot()
        tt = self.tuple_test(s.test)
        effect = self.has_effect(s.body) or self.has_effect(s.orelse)
        if not effect:
            if tt is not None:
                name, first = tt
                cur, ty = self.lean[name], self.env[name]
                nv = self.new(cur)
                inl, inr = (s.orelse, s.body) if first else (s.body, s.orelse)
                vs, terms = self.merged(s, [(inl, (name, ty[1], nv)), (inr, (name, ty[2], nv))], snap)
                sel = f"(match {cur} with\n    | .inl {nv} => {terms[0]}\n    | .inr {nv} => {terms[1]})"
            else:
                c = self.cond(s.test)
                vs, terms = self.merged(s, [(s.body, None), (s.orelse, None)], snap)
                sel = f"(if {c} then {terms[0]}\n    else {terms[1]})"
            pat = vs[0] if len(vs) == 1 else "(" + ", ".join(vs) + ")"
            if len(vs) == 1:
                return f"(let {pat} := {sel};\n    {self.block(rest, k)})"
            return f"(match {sel} with\n    | {pat} =>\n    {self.block(rest, k)})"
        if not self.gen_ctx:
            self.bad(s, "an `if` with yield / exit inside a merged branch / a for body")
        if tt is not None:
            self.bad(s, "isinstance(.., tuple) test on an `if` with yield / exit")
        if any(isinstance(n, ast.While) for st in rest for n in walk(st)):
            self.bad(s, "an `if` with yield / exit before a loop (the statements after it would be duplicated)")
        c = self.cond(s.test)
        a = self.block(s.body, lambda: self.block(rest, k))
        self.restore(snap)
        b = self.block(s.orelse, lambda: self.block(rest, k))
        self.restore(snap)
        return f"(if {c} then {a}\n    else {b})"

    def for_stmt(self, s: ast.For, rest, k) -> str:
        if s.orelse:
            self.bad(s, "for .. else")
        callee = self.gen_for(s)
        if callee is not None:
            # for v in self.m(..): yield e
            body = [x for x in s.body if not isinstance(x, ast.Pass)]
            if not self.gen_ctx or len(body) != 1 or not (isinstance(body[0], ast.Expr) and isinstance(body[0].value, ast.Yield)
                                                         and body[0].value.value is not None):
                self.bad(s, "loop over a generator method whose body is not a single `yield e`")
            g, gt = self.expr(s.iter)
            snap = self.snapshot()
            p = self.pat(s.target, gt[1], s)
            t, _ = self.expr(body[0].value.value, self.m.ret[1])
            self.restore(snap)
            return f"(Gen.forYield {g} (fun {p} => {t})\n    ({self.block(rest, k)}))"
        if self.has_effect(s.body):
            self.bad(s, "for body with yield / exit / pop / loop")
        it, ity = self.expr(s.iter)
        if not is_list(ity) or ity[1] == "?":
            self.bad(s.iter, "iteration over something that is not a list / child stream")
        snap = self.snapshot()
        p = self.pat(s.target, ity[1], s)
        tnames = [n.id for n in ast.walk(s.target) if isinstance(n, ast.Name)]
        vs = [v for v in self.mutated(s.body) if v in snap[0]]
        if isinstance(s.iter, ast.Name) and s.iter.id in vs:
            self.bad(s, "a for loop that mutates the list it iterates over")
        if any(t in self.mutated(s.body) for t in tnames):
            self.bad(s, "loop target assigned in the body")
        if not vs:
            self.bad(s, "a for loop without effect on any variable")
        save, self.gen_ctx = self.gen_ctx, False
        envs = {}

        def kk():
            envs[0] = self.snapshot()
            return self.tuple_of(vs)
        body = self.block(s.body, kk)
        self.gen_ctx = save
        for v in vs:
            if repr(envs[0][0][v]) != repr(snap[0][v]) and not (snap[0][v] == ("list", "?") and is_list(envs[0][0][v])):
                self.bad(s, f"variable {v} changes its type in the loop")
        self.restore(snap)
        for v in vs:
            self.env[v] = envs[0][0][v]
        acc = self.tuple_of(vs)
        if len(vs) == 1:
            return f"(let {acc} := {it}.foldl (fun {acc} {p} => {body}) {acc};\n    {self.block(rest, k)})"
        return f"(match {it}.foldl (fun {acc} {p} => {body}) {acc} with\n    | {acc} =>\n    {self.block(rest, k)})"

    def while_stmt(self, s: ast.While, rest, k) -> str:
        if s.orelse:
            self.bad(s, "while .. else")
        if self.loop_k is not None or not self.gen_ctx or k is not self.top_k:
            self.bad(s, "a while loop that is not at the top level of the method")
        self.nloops += 1
        lname = f"{self.m.name}_loop" + ("" if self.nloops == 1 else f"_{self.nloops}")
        mut = self.mutated(s.body)
        state = [v for v in mut if v in self.env]
        for v in state:
            if is_list(self.env[v]) and self.env[v][1] == "?":
                self.bad(s, f"loop variable {v}: a list whose element type is not known before the loop")
            if not (is_list(self.env[v]) or self.env[v] in ("Bool", "Int", "N") or self.env[v][0] in ("rec", "opt")):
                self.bad(s, f"loop variable {v} of type {self.env[v]}")
        local = [v for v in mut if v not in self.env]
        used = lambda v, sts: any(isinstance(n, ast.Name) and n.id == v for st in sts for n in ast.walk(st))  # noqa: E731
        for v in local:
            if used(v, rest):
                self.bad(s, f"{v} is first assigned inside the loop and used after it")
        fixed = [v for v in self.env if v not in state and (used(v, [s] + rest) or any(
            isinstance(self.env[w], tuple) and self.env[w][0] == "mut" and self.env[w][1] == v for w in self.env))]
        fixed = [v for v in fixed if v != "self"]
        if any(self.lean[v] != v for v in list(fixed) + state):
            self.bad(s, "a loop inside a narrowed scope")
        snap = self.snapshot()
        head = f"({lname} py {self.lean['self']}" + "".join(f" {v}" for v in fixed)
        call_now = head + " fuel0 fuel0" + "".join(f" {v}" for v in state) + ")"
        rec_call = lambda: head + " fuel0 fuel_1" + "".join(f" {self.lean[v]}" for v in state) + ")"  # noqa: E731

        def after():
            self.restore(snap)
            save, self.loop_k = self.loop_k, None
            r = self.block(rest, k)
            self.loop_k = save
            return r
        self.loop_k = (rec_call, after)
        c = self.cond(s.test)
        a = self.block(s.body, rec_call)
        self.restore(snap)
        b = after()
        self.restore(snap)
        self.loop_k = None
        params = "".join(f" ({v} : {lean_ty(self.env[v])})" for v in fixed)
        sparams = "".join(f" ({v} : {lean_ty(self.env[v])})" for v in state)
        self.aux.append(
            f"/-- the `while` loop of `ASTNode.{self.m.name}` (line {s.lineno}) and what follows it; one unit of fuel per test "
            f"of the loop condition -/\n"
            f"def {lname} {SIG} (self : N){params} (fuel0 fuel : Nat){sparams} : {lean_ty(self.m.ret)} :=\n"
            f"  match fuel with\n  | 0 => Gen.raise .OutOfFuel\n  | fuel_1 + 1 =>\n    (if {c} then {a}\n    else {b})\n")
        return call_now


class TraverseTr:
    METHODS = ("dfs", "bfs", "gather")

    def __init__(self, src: Path):
        self.node_py = K(Path(src) / "pyoak" / "node.py")
        tvars = set()
        for st in self.node_py.mod.body:
            if isinstance(st, ast.Assign) and isinstance(st.value, ast.Call) and isinstance(st.value.func, ast.Name) \
                    and st.value.func.id == "TypeVar" and len(st.targets) == 1 and isinstance(st.targets[0], ast.Name):
                b = next((k.value for k in st.value.keywords if k.arg == "bound"), None)
                if isinstance(b, ast.Constant) and b.value == "ASTNode" or isinstance(b, ast.Name) and b.id == "ASTNode":
                    tvars.add(st.targets[0].id)
        self.types = Types(tvars, {})
        self.record_defaults: dict[str, dict[str, ast.expr]] = {}
        self.types.records["NodeTraversalInfo"] = self.record("NodeTraversalInfo")
        self.cls = self.node_py.classes.get("ASTNode")
        if self.cls is None:
            raise Unsupported("ASTNode", "class not found")
        self.meths: dict[str, Meth] = {}

    def record(self, name: str):
        c = self.node_py.classes.get(name)
        if c is None:
            raise Unsupported(name, "class not found")
        if not any(isinstance(b, ast.Name) and b.id == "NamedTuple" for b in c.bases):
            raise Unsupported(name, "not a NamedTuple")
        out = []
        self.record_defaults[name] = {}
        for st in c.body:
            if isinstance(st, ast.AnnAssign) and isinstance(st.target, ast.Name):
                out.append((st.target.id, self.types.ann0(st.annotation, f"{name}.{st.target.id}")))
                if st.value is not None:
                    self.record_defaults[name][st.target.id] = st.value
            elif isinstance(st, ast.Pass) or (isinstance(st, ast.Expr) and isinstance(st.value, ast.Constant)):
                continue
            else:
                raise Unsupported(name, f"class body statement {type(st).__name__}")
        return out

    def signature(self, fn: ast.FunctionDef) -> Meth:
        where = f"ASTNode.{fn.name}"
        a = fn.args
        if fn.decorator_list or a.vararg or a.kwarg or a.posonlyargs:
            raise Unsupported(where, "decorators / *args / **kwargs / positional-only parameters")
        if not a.args or a.args[0].arg != "self":
            raise Unsupported(where, "first parameter is not self")
        params = []
        pos = a.args[1:]
        defaults = [None] * (len(pos) - len(a.defaults)) + list(a.defaults)
        for p, d in list(zip(pos, defaults)) + list(zip(a.kwonlyargs, a.kw_defaults)):
            if p.annotation is None:
                raise Unsupported(where, f"parameter {p.arg} without annotation")
            params.append((p.arg, self.types.ann0(p.annotation, where), d, p in a.kwonlyargs))
        if fn.returns is None:
            raise Unsupported(where, "no return annotation")
        ret = self.types.ann0(fn.returns, where)
        is_gen = any(isinstance(n, (ast.Yield, ast.YieldFrom)) for n in walk(fn))
        if not is_gen or not (isinstance(ret, tuple) and ret[0] == "gen"):
            raise Unsupported(where, "not a generator method annotated Generator[T, None, None] / Iterator[T]")
        return Meth(fn, params, ret)

    def translate_method(self, m: Meth) -> str:
        tr = Tr(self, m)
        tr.env["self"], tr.lean["self"] = "N", "self"
        for (pn, pt, _d, _k) in m.params:
            tr.bind_var(pn, pt)
        tr.top_k = lambda: "Gen.done"
        body = tr.block(m.fn.body, tr.top_k)
        params = "".join(f" ({pn} : {lean_ty(pt)})" for (pn, pt, _d, _k) in m.params)
        doc = f"/-- `ASTNode.{m.name}` (src/pyoak/node.py line {m.fn.lineno}); `fuel0`: the fuel every `while` loop starts with -/\n"
        return "".join(a + "\n" for a in tr.aux) + doc + \
            f"def {m.name} {SIG} (fuel0 : Nat) (self : N){params} : {lean_ty(m.ret)} :=\n  {body}\n"

    def generate(self) -> str:
        fns = {s.name: s for s in self.cls.body if isinstance(s, ast.FunctionDef)}
        out = [HEADER.replace("%PRIMS%", "\n".join(f"     {a:<74} ->  {b}" for a, b in PRIMITIVES))]
        name = "NodeTraversalInfo"
        out.append(f"/-- `{name}` (NamedTuple) -/\nstructure {name} (N : Type) where\n" +
                   "".join(f"  {fn} : {lean_ty(ft)}\n" for fn, ft in self.types.records[name]))
        out.append(PY_STRUCT)
        for n in self.METHODS:
            if n not in fns:
                raise Unsupported(f"ASTNode.{n}", "method not found")
            self.meths[n] = self.signature(fns[n])
        for n in self.METHODS:       # a caller comes after its callees (gather calls dfs)
            out.append(self.translate_method(self.meths[n]))
        out.append("end PyOak.GenV\n")
        return "\n".join(out)


def generate_traverse(src: Path) -> str:
    return TraverseTr(Path(src)).generate()


if __name__ == "__main__":
    import sys
    print(generate_traverse(Path(sys.argv[1] if len(sys.argv) > 1 else "/repo/src")))
