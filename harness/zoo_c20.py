"""Legacy zoo for C20 (pyoak.legacy AwareASTNode): tuple and list child fields, optional children,
single children, a subclass chain, field names the library uses itself (`root`, `child`, `items`).

The harness describes a tree to the model from its own table `CHILD_FIELDS` (declaration order,
is-collection flag), never through pyoak's accessors.  Legacy nodes are ordinary mutable
dataclasses: `==` and `list.index` compare *content*, so every map here is keyed by `id(obj)`.
"""
from __future__ import annotations

import random
from dataclasses import dataclass, field

from pyoak.legacy.node import AwareASTNode
from pyoak.origin import NO_ORIGIN

from proto import A


@dataclass
class LExpr(AwareASTNode):
    pass


@dataclass
class LLeaf(LExpr):
    v: int = 0


@dataclass
class LLeaf2(LLeaf):
    s: str = ""


@dataclass
class LUn(LExpr):
    arg: LExpr


@dataclass
class LBin(LExpr):
    left: LExpr
    right: LExpr


@dataclass
class LOpt(LExpr):
    c: LExpr | None = None


@dataclass
class LTup(LExpr):
    items: tuple[LExpr, ...] = ()


@dataclass
class LLst(LExpr):
    elems: list[LExpr] = field(default_factory=list)


@dataclass
class LMixed(LExpr):
    """declaration order differs from name order; tuple + list + optional + single"""

    z: LExpr
    items: tuple[LExpr, ...] = ()
    a: LExpr | None = None
    elems: list[LExpr] = field(default_factory=list)
    name: str = ""


@dataclass
class LNames(LExpr):
    """field names the library uses internally"""

    child: LExpr | None = None
    root: LExpr | None = None
    items: list[LExpr] = field(default_factory=list)


# field name -> is_collection, in declaration order (the harness' own knowledge)
CHILD_FIELDS: dict[type, list[tuple[str, bool]]] = {
    LExpr: [],
    LLeaf: [],
    LLeaf2: [],
    LUn: [("arg", False)],
    LBin: [("left", False), ("right", False)],
    LOpt: [("c", False)],
    LTup: [("items", True)],
    LLst: [("elems", True)],
    LMixed: [("z", False), ("items", True), ("a", False), ("elems", True)],
    LNames: [("child", False), ("root", False), ("items", True)],
}
ALL_CLASSES = list(CHILD_FIELDS)
# which collection fields are lists (the rest are tuples)
LIST_FIELDS = {(LLst, "elems"), (LMixed, "elems"), (LNames, "items")}


def class_table() -> list:
    out = [A("classes")]
    for c in ALL_CLASSES + [AwareASTNode]:
        out.append([k.__name__ for k in c.__mro__])
    return out


class LGen:
    """Seeded generator of attached legacy trees.  Every node object is created exactly once and
    placed at exactly one position (admissible by construction); a serial number in the leaves'
    `v` keeps contents (hence ids) distinct unless `twins` asks for content-identical leaves
    (which the library registers under a collision id)."""

    def __init__(self, rng: random.Random, *, long_colls: bool = True, twins: float = 0.15):
        self.rng = rng
        self.long_colls = long_colls
        self.twins = twins
        self.serial = 0

    def leaf(self) -> AwareASTNode:
        r = self.rng
        self.serial += 1
        v = r.randint(0, 2) if r.random() < self.twins else 1000 + self.serial
        k = r.random()
        if k < 0.6:
            return LLeaf(v=v, origin=NO_ORIGIN)
        if k < 0.9:
            return LLeaf2(v=v, s=r.choice(["", "a", "/@x[0]"]), origin=NO_ORIGIN)
        return LExpr(origin=NO_ORIGIN)

    def tree(self, budget: int) -> AwareASTNode:
        r = self.rng
        if budget <= 1 or r.random() < 0.1:
            return self.leaf()
        k = r.random()
        b = budget - 1

        def sub(n):
            return self.tree(max(1, n))

        def subs(total):
            if self.long_colls and r.random() < 0.2:
                cnt = r.choice([11, 12, 13, 14])
            else:
                cnt = r.choice([0, 1, 1, 2, 2, 3, 4])
            if cnt == 0:
                return []
            each = max(1, total // cnt)
            return [sub(each) for _ in range(cnt)]

        if k < 0.1:
            return LUn(sub(b), origin=NO_ORIGIN)
        if k < 0.25:
            return LBin(sub(b // 2), sub(b - b // 2), origin=NO_ORIGIN)
        if k < 0.35:
            return LOpt(sub(b) if r.random() < 0.7 else None, origin=NO_ORIGIN)
        if k < 0.52:
            return LTup(tuple(subs(b)), origin=NO_ORIGIN)
        if k < 0.69:
            return LLst(subs(b), origin=NO_ORIGIN)
        if k < 0.87:
            return LMixed(sub(b // 4), tuple(subs(b // 4)), sub(b // 4) if r.random() < 0.6 else None,
                          subs(b // 4), name=r.choice(["", "n"]), origin=NO_ORIGIN)
        return LNames(sub(b // 3) if r.random() < 0.6 else None, sub(b // 3) if r.random() < 0.6 else None,
                      subs(b // 3), origin=NO_ORIGIN)


# ---------------------------------------------------------------- independent structure walk

def kid_lists(n) -> list[tuple[str, bool, list]]:
    out = []
    for name, coll in CHILD_FIELDS[type(n)]:
        v = n.__dict__[name]
        if coll:
            out.append((name, True, list(v)))
        else:
            out.append((name, False, [] if v is None else [v]))
    return out


def positions(n):
    """all proper-descendant positions (child, parent, field, index), pre-order"""
    for name, coll, ns in kid_lists(n):
        for i, c in enumerate(ns):
            yield (c, n, name, i if coll else None)
            yield from positions(c)


def chains(root):
    """root-first chains [(node, field, index)] of every node, pre-order"""
    out = [[(root, None, None)]]

    def walk(n, chain):
        for name, coll, ns in kid_lists(n):
            for i, c in enumerate(ns):
                ch = chain + [(c, name, i if coll else None)]
                out.append(ch)
                walk(c, ch)

    walk(root, out[0])
    return out


class Tokens:
    """object identity -> small integer (keeps the objects alive)"""

    def __init__(self):
        self.by_id: dict[int, int] = {}
        self.objs: list[object] = []

    def tok(self, o) -> int:
        k = self.by_id.get(id(o))
        if k is None:
            k = len(self.objs)
            self.by_id[id(o)] = k
            self.objs.append(o)
        return k


def enc_tree(n, toks: Tokens):
    """same node syntax as zoo.enc_tree (Decode.lean); properties are irrelevant to C20 and omitted"""
    t = toks.tok(n)
    kids = [A("k")]
    for name, coll, ns in kid_lists(n):
        kids.append([name, coll] + [enc_tree(c, toks) for c in ns])
    return [A("n"), t, type(n).__name__, 0, True, [A("p")], kids]


def show(n) -> str:
    parts = []
    if isinstance(n, LLeaf):
        parts.append(f"v={n.v}")
    for name, coll, ns in kid_lists(n):
        if coll:
            br = "[]" if (type(n), name) in LIST_FIELDS else "()"
            parts.append(f"{name}={br[0]}" + "".join(show(c) + "," for c in ns) + br[1])
        else:
            parts.append(f"{name}=" + (show(ns[0]) if ns else "None"))
    return f"{type(n).__name__}({', '.join(parts)})"


# ---- classes whose child fields the legacy library recognises only at run time (not generated by LGen, outside the
#      Lean model; used by the directed, oracle-only scenario of C20)
import typing as _typing


@dataclass
class LSeq(LExpr):
    body: _typing.Sequence[LExpr] = ()
    v: int = 0


@dataclass
class LAnyKid(LExpr):
    x: _typing.Any = None
    v: int = 0
