"""py2lean_t — Python-AST -> Lean 4 translator for `pyoak.tree.Tree` (src/pyoak/tree.py), sibling of py2lean_k.py.

Regenerated on every run of `./check C06` from the tree under examination into lean/PyOak/Gen/KernelsTree.lean:

  ParentInfo (tree.py), NodeTraversalInfo (node.py)   record types, from their own annotations
  Tree.__init__                                        -> GenT.TreeS (the state), GenT.init_step (loop body), GenT.init
  every other undecorated method of Tree               -> GenT.<python name>

Props/GenBridgeTree.lean proves the hand-written model (Model/Tree.lean) equal to the generated definitions
(`<query>_eq_gen`), an OPTIONAL obligation of C06 (harness/kernels_tie.py: `optional_tree`).

Unlike py2lean_k.Fn (Bool-valued decision trees) this translator is MONADIC: a method that can raise has the result type
`Except Err T`, a generator method has the result type `Gen T` (its finite trace: the values yielded and the exception, if
any, that ended it), a `while` loop / a self-recursive method takes a `fuel : Nat` (the Python source has none: `OutOfFuel`
is a third error constructor that no Python run produces; the bridge shows that the fuel `root.size` never runs out on the
tables of `Tree(root)`).  Whether a method is pure / raising / fuelled is inferred (a fixpoint over the call graph).

Accepted subset (anything else: `Unsupported` naming the method and the construct -- never silently skipped):

  stmt ::= docstring | `x = e` | `return e` | `raise KeyError(..)` | `raise ValueError(..)`
         | `if c: .. [elif/else ..]`   (a branch that does not exit continues with a copy of the statements after the `if`;
           `if x is [not] None:` narrows x by `match`; `if x is not None and REST: BODY` is split into two nested ifs
           exactly when BODY mentions x, so that BODY sees x narrowed; a condition that can raise becomes an
           `Except Err Bool` term evaluated left to right with Python's short-circuit)
         | `for v in e: <if c: return e>*` followed by the rest     (e a generator call or a list)
         | `while c: ..` (the loop and everything after it become an auxiliary recursive definition `<method>_loop`
           over the variables assigned in the loop; `break` / `continue` allowed)
         | in a generator: `yield e`, bare `return`
         | in `__init__` only: `self.attr [: T] = e` before the loop, one `for n in root.dfs():` whose body consists of
           `self.attr[k] = e`
  e    ::= name | self.attr | e.attr (record field) | e.__class__.__name__ | True | False | None | int / str literal
         | `not e` | `e and e` | `e or e` | `a if c else b` | `e + e` (int) | f-string | `(e, ..)` | `{}` | `{k: v}`
         | `self.attr[k]` | `k in self.attr` | `e is e` | `e is not e` | `e is [not] None` | `type(e) in e` | `e == e` on
           int / str / bool (NOT on nodes: `ASTNode.__eq__` is content + origin equality, another primitive)
         | `isinstance(e, classes)` | `isinstance(e, tuple)` (on a `type | tuple[type, ...]` parameter, in an `if` test)
         | `cast(T, e)` | `Record(e, ..)` | `self.method(args)` | `any(c for v in e)`

`return <call that can raise>` is the call itself (no re-wrapping), `x = <call that can raise>` binds x in the `.ok` branch.

THE PRIMITIVE TABLE (Python idiom -> model primitive) is `PRIMITIVES` below together with the fixed prelude `HEADER`;
both are part of the trusted base of the tie and are printed into the generated file.
"""
from __future__ import annotations

import ast
from pathlib import Path

from py2lean_k import K, Unsupported, str_lit

# ------------------------------------------------------------------------------------------------ trusted base
PRIMITIVES = [
    ("self._attr", "self.attr  (field of the structure TreeS generated from the assignments of __init__)"),
    ("d[k]            (d a dict keyed by nodes)", "Dict.getitem d (py.id k) : Except Err V   -- KeyError when absent"),
    ("k in d", "Dict.contains d (py.id k)"),
    ("d[k] = v", "Dict.setitem d (py.id k) v   -- replace in place, else append (insertion order)"),
    ("{} / {k: v}", "[] / [(py.id k, v)]"),
    ("a is b / a is not b   (nodes, either side may be Optional)", "py.id a == py.id b  (Option-lifted; None is only None)"),
    ("x is None / x is not None", "match x with | none | some x' (narrowing) / x.isNone / x.isSome"),
    ("isinstance(x, c) / isinstance(x, (c1, ..))", "py.isinstance x c / cs.any (py.isinstance x)"),
    ("type(x) / type(x) in cs", "py.type_of x / cs.contains (py.type_of x)   -- == on classes is identity"),
    ("x.__class__.__name__", "py.class_name x"),
    ("isinstance(v, tuple)   (v : type | tuple[type, ...])", "match v with | .inl c | .inr cs"),
    ("cast(T, e)", "e"),
    ("NamedTuple value returned as a tuple", "(r.f1, r.f2, ..) in field order"),
    ("root.dfs()   (in __init__)", "py.dfs root : List (NodeTraversalInfo N)   -- the stream, fully consumed"),
    ("f\"..{s}..{i}..\"", "++ of the literal pieces, s (a str) itself, py_str_int i"),
    ("f\"{i or 'lit'}\"   (i : int | None)", "match i with | some v => if v == 0 then lit else py_str_int v | none => lit"),
    ("generator method (yield)", "Gen T = List T × Option Err: the yielded values and the exception that ended it"),
    ("for v in gen: if c: return e", "Gen.forReturn gen (fun v => if c then some e else none) rest  (lazy: a hit hides a later error)"),
    ("while c: .. / self-recursion", "recursion on fuel : Nat, `.error .OutOfFuel` / `Gen.raise .OutOfFuel` at 0"),
    ("raise KeyError / ValueError", ".error .KeyError / .error .ValueError"),
]

HEADER = """/- GENERATED by harness/py2lean_t.py from `class Tree` (src/pyoak/tree.py) and `NodeTraversalInfo` (src/pyoak/node.py)
   on every run of `./check C06`.  Do not edit: Props/GenBridgeTree.lean proves the hand-written model (Model/Tree.lean)
   equal to exactly these definitions (an OPTIONAL obligation, see harness/kernels_tie.py).

   Python idiom -> primitive (the trusted base of this translation):
%PRIMS%
-/
import PyOak.Sexp
namespace PyOak.GenT
open PyOak

/-- the two exceptions of `Tree`, plus the marker of an exhausted fuel (no Python run produces it) -/
inductive Err where
  | KeyError
  | ValueError
  | OutOfFuel
  deriving DecidableEq, Repr

/-- a `dict` keyed by node objects: association list keyed by `id(node)`, in insertion order -/
abbrev Dict (β : Type) := List (Nat × β)

/-- `d[k]` -/
def Dict.getitem {β : Type} (d : Dict β) (k : Nat) : Except Err β :=
  match d.find? (·.1 == k) with
  | some kv => .ok kv.2
  | none => .error .KeyError

/-- `k in d` -/
def Dict.contains {β : Type} (d : Dict β) (k : Nat) : Bool := d.any (·.1 == k)

/-- `d[k] = v` -/
def Dict.setitem {β : Type} (d : Dict β) (k : Nat) (v : β) : Dict β :=
  if d.any (·.1 == k) then d.map (fun kv => if kv.1 == k then (k, v) else kv) else d ++ [(k, v)]

/-- the finite trace of a generator: the values it yields and the exception (if any) that ends it -/
abbrev Gen (α : Type) := List α × Option Err

/-- `yield x` followed by `g` -/
def Gen.yield_ {α : Type} (x : α) (g : Gen α) : Gen α := (x :: g.1, g.2)
/-- the generator returns -/
def Gen.done {α : Type} : Gen α := ([], none)
/-- the generator raises -/
def Gen.raise {α : Type} (e : Err) : Gen α := ([], some e)

/-- `for v in g: <body: return r on a hit>` followed by `rest`: the first hit wins (the generator is not advanced
further, so an exception after the hit is never seen); without a hit the exception of the generator, else `rest` -/
def Gen.forReturn {α β : Type} (g : Gen α) (body : α → Option β) (rest : Except Err β) : Except Err β :=
  match g.1.findSome? body with
  | some r => .ok r
  | none =>
    match g.2 with
    | some e => .error e
    | none => rest

/-- `dataclasses.Field` as far as `Tree` looks at it -/
structure FieldR where
  name : Str
  deriving DecidableEq, Repr

/-- `str(i)` for an int -/
def py_str_int (i : Int) : Str := (toString i).toList
"""

PY_STRUCT = """/-- what the translation assumes about node objects and classes -/
structure Py (N C : Type) where
  /-- `id(x)`: object identity (`a is b` iff `id a == id b`) -/
  id : N → Nat
  /-- `isinstance(x, c)` -/
  isinstance : N → C → Bool
  /-- `type(x)` -/
  type_of : N → C
  /-- `x.__class__.__name__` -/
  class_name : N → Str
  /-- `list(x.dfs())` -/
  dfs : N → List (NodeTraversalInfo N)
"""

LEAN_KEYWORDS = {"at", "end", "from", "fun", "in", "do", "then", "else", "if", "let", "have", "show", "with", "match",
                 "where", "open", "by", "calc", "def", "theorem", "instance", "structure", "class", "namespace", "section",
                 "variable", "return", "for", "mut", "py", "self_", "fuel", "e", "Type", "Prop", "Sort"}

SIG = "{N C : Type} [BEq C] (py : Py N C)"


# ------------------------------------------------------------------------------------------------ types
# "N" | "C" | "Str" | "Bool" | "Int" | "FieldR" | ("opt", t) | ("list", t) | ("prod", [t..]) | ("rec", name)
# | ("dict", t) | ("sum", a, b) | ("gen", t) | ("tuplit", [(term, t)..]) | ("opt", "?") for a bare None

def lean_ty(t) -> str:
    if isinstance(t, tuple):
        k = t[0]
        if k == "opt":
            return f"(Option {lean_ty(t[1])})"
        if k == "list":
            return f"(List {lean_ty(t[1])})"
        if k == "prod":
            return "(" + " × ".join(lean_ty(x) for x in t[1]) + ")"
        if k == "rec":
            return f"({t[1]} N)"
        if k == "dict":
            return f"(Dict {lean_ty(t[1])})"
        if k == "sum":
            return f"({lean_ty(t[1])} ⊕ {lean_ty(t[2])})"
        if k == "gen":
            return f"(Gen {lean_ty(t[1])})"
        raise Unsupported("type", str(t))
    return t


def is_opt(t) -> bool:
    return isinstance(t, tuple) and t[0] == "opt"


class Types:
    def __init__(self, node_tvars: set[str], records: dict):
        self.node_tvars = node_tvars
        self.records = records     # name -> [(field, type)]

    def ann(self, a: ast.expr, where: str):
        if isinstance(a, ast.Constant) and a.value is None:
            return "None"
        if isinstance(a, ast.Constant) and isinstance(a.value, str):
            return self.ann(ast.parse(a.value, mode="eval").body, where)
        if isinstance(a, ast.Name):
            m = {"ASTNode": "N", "Field": "FieldR", "int": "Int", "str": "Str", "bool": "Bool"}
            if a.id in m:
                return m[a.id]
            if a.id in self.node_tvars:
                return "N"
            if a.id in self.records:
                return ("rec", a.id)
        if isinstance(a, ast.BinOp) and isinstance(a.op, ast.BitOr):
            l, r = self.ann(a.left, where), self.ann(a.right, where)
            if r == "None":
                return ("opt", l)
            if l == "None":
                return ("opt", r)
            if r == ("list", l):
                return ("sum", l, r)
        if isinstance(a, ast.Subscript) and isinstance(a.value, ast.Name):
            h, s = a.value.id, a.slice
            if h in ("type", "Type") and self.ann(s, where) == "N":
                return "C"
            if h == "Optional":
                return ("opt", self.ann(s, where))
            if h in ("Iterator", "Iterable", "Generator"):
                return ("gen", self.ann(s, where))
            if h in ("list", "List"):
                return ("list", self.ann(s, where))
            if h in ("tuple", "Tuple"):
                if isinstance(s, ast.Tuple) and len(s.elts) == 2 and isinstance(s.elts[1], ast.Constant) and s.elts[1].value is Ellipsis:
                    return ("list", self.ann(s.elts[0], where))
                if isinstance(s, ast.Tuple):
                    return ("prod", [self.ann(x, where) for x in s.elts])
            if h in ("dict", "Dict") and isinstance(s, ast.Tuple) and len(s.elts) == 2 and self.ann(s.elts[0], where) == "N":
                return ("dict", self.ann(s.elts[1], where))
        raise Unsupported(where, f"annotation {ast.unparse(a)}")


class NeedEff(Exception):
    """a method assumed pure turned out to raise / to need fuel: its flags were updated, translate again"""


class Meth:
    def __init__(self, fn: ast.FunctionDef, params, ret, is_gen: bool):
        self.fn, self.name, self.params, self.ret, self.is_gen = fn, fn.name, params, ret, is_gen
        self.eff = False          # result type Except Err T
        self.fueled = False
        self.recursive = False
        self.calls: set[str] = set()

    def result_ty(self) -> str:
        if self.is_gen:
            return lean_ty(self.ret)
        return f"Except Err {lean_ty(self.ret)}" if self.eff else lean_ty(self.ret)


class Tr:
    """translation of one method body"""

    def __init__(self, owner: "TreeTr", m: Meth, mode: str):
        self.o, self.m, self.mode = owner, m, mode        # mode: "pure" | "exc" | "gen" | "init"
        self.T = owner.types
        self.env: dict[str, object] = {}
        self.lean: dict[str, str] = {}
        self.pending: list[tuple[str, str]] = []
        self.fresh = 0
        self.aux: list[str] = []         # auxiliary definitions (loops), emitted before the method
        self.fuel_var = "fuel"
        self.loop_k = None               # inside a while body: (continue thunk, break thunk)
        self.where = f"Tree.{m.name}"

    # ---------------------------------------------------------------- helpers
    def bad(self, node, why=""):
        line = getattr(node, "lineno", None)
        src = ast.unparse(node) if isinstance(node, ast.AST) else str(node)
        raise Unsupported(self.where, f"{why or 'construct'} (line {line}): {src}"[:300])

    def new(self, base="v"):
        self.fresh += 1
        return f"{base}_{self.fresh}"

    def bind_var(self, name: str, ty):
        if name in LEAN_KEYWORDS or name.startswith("_"):
            lname = name.strip("_") + "_v"
        else:
            lname = name
        self.env[name], self.lean[name] = ty, lname
        return lname

    def need_eff(self, node):
        """an effect (exception) arises here"""
        if self.mode in ("exc", "gen", "init"):
            return
        if not self.m.eff:
            self.m.eff = True
        raise NeedEff()

    def raise_term(self, e: str) -> str:
        return f"Gen.raise {e}" if self.mode == "gen" else f".error {e}"

    def ret_term(self, t: str) -> str:
        return f".ok {t}" if self.mode in ("exc", "init") else t

    def bind(self, eff: str, var: str, body: str) -> str:
        return f"(match {eff} with\n    | .error e => {self.raise_term('e')}\n    | .ok {var} => {body})"

    def wrap(self, binds, body: str) -> str:
        for var, eff in reversed(binds):
            body = self.bind(eff, var, body)
        return body

    def snapshot(self):
        return dict(self.env), dict(self.lean)

    def restore(self, snap):
        self.env, self.lean = dict(snap[0]), dict(snap[1])

    def collect(self, fn):
        """run fn() collecting the effect bindings it pushes -> (result, binds)"""
        save, self.pending = self.pending, []
        try:
            r = fn()
            binds = self.pending
        finally:
            self.pending = save
        if binds:
            self.need_eff(None)
        return r, binds

    # ---------------------------------------------------------------- coercions
    def coerce(self, t, ty, want, node):
        if want is None or ty == want:
            if isinstance(ty, tuple) and ty[0] == "tuplit":
                tys = [x[1] for x in ty[1]]
                if len(set(map(repr, tys))) == 1 and not is_opt(tys[0]):
                    return "[" + ", ".join(x[0] for x in ty[1]) + "]", ("list", tys[0])
                return "(" + ", ".join(x[0] for x in ty[1]) + ")", ("prod", tys)
            return t, ty
        if isinstance(ty, tuple) and ty[0] == "tuplit":
            if isinstance(want, tuple) and want[0] == "list":
                return "[" + ", ".join(self.coerce(a, b, want[1], node)[0] for a, b in ty[1]) + "]", want
            if isinstance(want, tuple) and want[0] == "prod" and len(want[1]) == len(ty[1]):
                return "(" + ", ".join(self.coerce(a, b, w, node)[0] for (a, b), w in zip(ty[1], want[1])) + ")", want
            if is_opt(want):
                x, _ = self.coerce(t, ty, want[1], node)
                return f"(some {x})", want
            self.bad(node, f"a tuple where {lean_ty(want)} is expected")
        if is_opt(want):
            if ty == ("opt", "?"):
                return "none", want
            if is_opt(ty):
                self.bad(node, f"{lean_ty(ty)} where {lean_ty(want)} is expected")
            x, _ = self.coerce(t, ty, want[1], node)
            return f"(some {x})", want
        if isinstance(ty, tuple) and ty[0] == "rec" and isinstance(want, tuple) and want[0] == "prod":
            fields = self.T.records[ty[1]]
            if len(fields) != len(want[1]):
                self.bad(node, "NamedTuple returned as a tuple of another length")
            self.fresh += 1
            r = f"r_{self.fresh}"
            parts = [self.coerce(f"{r}.{fn}", ft, w, node)[0] for (fn, ft), w in zip(fields, want[1])]
            return f"(let {r} := {t}; (" + ", ".join(parts) + "))", want
        self.bad(node, f"type {lean_ty(ty) if ty != ('opt', '?') else 'None'} where {lean_ty(want)} is expected")

    # ---------------------------------------------------------------- expressions -> (term, type); effects go to self.pending
    def expr(self, e: ast.expr, want=None):
        t, ty = self.expr0(e, want)
        return self.coerce(t, ty, want, e)

    def expr0(self, e: ast.expr, want=None):
        if isinstance(e, ast.Name):
            if e.id in self.env:
                return self.lean[e.id], self.env[e.id]
            self.bad(e, "unknown name")
        if isinstance(e, ast.Constant):
            if e.value is True:
                return "true", "Bool"
            if e.value is False:
                return "false", "Bool"
            if e.value is None:
                return "none", ("opt", "?")
            if isinstance(e.value, int):
                return f"({e.value} : Int)", "Int"
            if isinstance(e.value, str):
                return f"({str_lit(e.value)} : Str)", "Str"
            self.bad(e, "literal")
        if isinstance(e, ast.Attribute):
            return self.attribute(e)
        if isinstance(e, ast.Subscript):
            base, bt = self.expr(e.value)
            if isinstance(bt, tuple) and bt[0] == "dict":
                k, kt = self.expr(e.slice)
                if kt != "N":
                    self.bad(e, "dict key that is not a node")
                v = self.new()
                self.pending.append((v, f"Dict.getitem {base} (py.id {k})"))
                return v, bt[1]
            self.bad(e, "subscript of a non-dict")
        if isinstance(e, ast.UnaryOp) and isinstance(e.op, ast.Not):
            t, _ = self.boolean(e.operand)
            return f"(!{t})", "Bool"
        if isinstance(e, ast.BoolOp):
            (t, eff) = self.cond(e)
            if eff:
                v = self.new("b")
                self.pending.append((v, t))
                return v, "Bool"
            return t, "Bool"
        if isinstance(e, ast.Compare) and len(e.ops) == 1:
            return self.compare(e, e.left, e.ops[0], e.comparators[0])
        if isinstance(e, ast.Call):
            return self.call(e, want)
        if isinstance(e, ast.IfExp):
            (c, binds) = self.collect(lambda: self.boolean(e.test)[0])
            (a, ta), ba = self.collect(lambda: self.expr(e.body, want))
            (b, tb), bb = self.collect(lambda: self.expr(e.orelse, want))
            if binds or ba or bb:
                self.bad(e, "conditional expression with an operand that can raise")
            if ta != tb:
                self.bad(e, "conditional expression with branches of different types")
            return f"(if {c} then {a} else {b})", ta
        if isinstance(e, ast.BinOp) and isinstance(e.op, ast.Add):
            a, ta = self.expr(e.left)
            b, tb = self.expr(e.right)
            if ta == tb == "Int":
                return f"({a} + {b})", "Int"
            if ta == tb == "Str":
                return f"({a} ++ {b})", "Str"
            self.bad(e, "`+` on other than two ints / two strs")
        if isinstance(e, ast.Tuple):
            parts = [self.expr(x) for x in e.elts]
            return None, ("tuplit", parts)
        if isinstance(e, ast.Dict):
            if not e.keys:
                if not (isinstance(want, tuple) and want[0] == "dict"):
                    self.bad(e, "`{}` without a dict annotation")
                return "[]", want
            items = []
            vt = want[1] if isinstance(want, tuple) and want[0] == "dict" else None
            for k, v in zip(e.keys, e.values):
                if k is None:
                    self.bad(e, "dict unpacking")
                kt_, kty = self.expr(k)
                if kty != "N":
                    self.bad(e, "dict key that is not a node")
                vt_, vty = self.expr(v, vt)
                vt = vty
                items.append(f"(py.id {kt_}, {vt_})")
            return "[" + ", ".join(items) + "]", ("dict", vt)
        if isinstance(e, ast.JoinedStr):
            return self.fstring(e)
        self.bad(e)

    def attribute(self, e: ast.Attribute):
        # x.__class__.__name__
        if e.attr == "__name__" and isinstance(e.value, ast.Attribute) and e.value.attr == "__class__":
            b, bt = self.expr(e.value.value)
            if bt != "N":
                self.bad(e, "__class__.__name__ of a non-node")
            return f"(py.class_name {b})", "Str"
        if isinstance(e.value, ast.Name) and e.value.id == "self" and "self" not in self.env:
            self.bad(e, "self")
        if isinstance(e.value, ast.Name) and e.value.id == "self":
            f = self.o.state_fields.get(e.attr)
            if f is None:
                self.bad(e, "attribute of self that __init__ does not assign (properties are not translated)")
            return f"{self.lean['self']}.{f[0]}", f[1]
        base, bt = self.expr(e.value)
        if is_opt(bt):
            self.bad(e, "attribute of an Optional value that is not narrowed")
        fields = None
        if isinstance(bt, tuple) and bt[0] == "rec":
            fields = dict(self.T.records[bt[1]])
        elif bt == "FieldR":
            fields = {"name": "Str"}
        if fields is None or e.attr not in fields:
            self.bad(e, f"attribute of a value of type {lean_ty(bt)}")
        return f"{base}.{e.attr}", fields[e.attr]

    def fstring(self, e: ast.JoinedStr):
        parts = []
        for v in e.values:
            if isinstance(v, ast.Constant) and isinstance(v.value, str):
                parts.append(str_lit(v.value))
                continue
            if not isinstance(v, ast.FormattedValue) or v.conversion != -1 or v.format_spec is not None:
                self.bad(e, "f-string piece with a conversion / format spec")
            x = v.value
            if isinstance(x, ast.BoolOp) and isinstance(x.op, ast.Or) and len(x.values) == 2 \
                    and isinstance(x.values[1], ast.Constant) and isinstance(x.values[1].value, str):
                a, ta = self.expr(x.values[0])
                lit = str_lit(x.values[1].value)
                if ta == ("opt", "Int"):
                    parts.append(f"(match {a} with | some i => if i == 0 then {lit} else py_str_int i | none => {lit})")
                    continue
                if ta == "Int":
                    parts.append(f"(if {a} == 0 then {lit} else py_str_int {a})")
                    continue
                self.bad(x, "`x or 'lit'` in an f-string with x not an int / int | None")
            a, ta = self.expr(x)
            if ta == "Str":
                parts.append(a)
            elif ta == "Int":
                parts.append(f"py_str_int {a}")
            else:
                self.bad(x, f"f-string piece of type {lean_ty(ta)}")
        if not parts:
            return "([] : Str)", "Str"
        return "(" + " ++ ".join(parts) + ")", "Str"

    def boolean(self, e):
        t, ty = self.expr(e)
        if ty != "Bool":
            self.bad(e, f"truthiness of a non-bool ({lean_ty(ty) if ty != ('opt', '?') else 'None'}) is not translated")
        return t, ty

    def none_test(self, e):
        """-> (name, is_none) for `NAME is None` / `NAME is not None` on an Optional local"""
        if isinstance(e, ast.Compare) and len(e.ops) == 1 and isinstance(e.comparators[0], ast.Constant) \
                and e.comparators[0].value is None and isinstance(e.left, ast.Name) and isinstance(e.ops[0], (ast.Is, ast.IsNot)) \
                and is_opt(self.env.get(e.left.id)):
            return e.left.id, isinstance(e.ops[0], ast.Is)
        return None

    def tuple_test(self, e):
        """-> (name, is_tuple) for `isinstance(NAME, tuple)` / `not isinstance(NAME, tuple)` on a sum-typed local"""
        neg = False
        if isinstance(e, ast.UnaryOp) and isinstance(e.op, ast.Not):
            neg, e = True, e.operand
        if isinstance(e, ast.Call) and isinstance(e.func, ast.Name) and e.func.id == "isinstance" and len(e.args) == 2 \
                and isinstance(e.args[0], ast.Name) and isinstance(e.args[1], ast.Name) and e.args[1].id == "tuple":
            ty = self.env.get(e.args[0].id)
            if isinstance(ty, tuple) and ty[0] == "sum":
                return e.args[0].id, not neg
            self.bad(e, "isinstance(.., tuple) on a value that is not `type | tuple[type, ...]`")
        return None

    def cond(self, e) -> tuple[str, bool]:
        """a condition -> (term, eff): term : Bool, or term : Except Err Bool when eff.
        `and` / `or` evaluate left to right and short-circuit; `x is not None and P` narrows x in P."""
        if isinstance(e, ast.BoolOp):
            is_and = isinstance(e.op, ast.And)
            vals = list(e.values)
            short = "false" if is_and else "true"

            def go(i):
                if i == len(vals) - 1:
                    return self.cond(vals[i])
                v = vals[i]
                nm = self.none_test(v)
                if nm is not None and nm[1] == (not is_and):
                    name = nm[0]
                    cur = self.lean[name]
                    snap = self.snapshot()
                    self.env[name] = snap[0][name][1]
                    nv = self.lean[name] = self.new(self.lean[name])
                    r, er = go(i + 1)
                    self.restore(snap)
                    s = f".ok {short}" if er else short
                    return f"(match {cur} with | none => {s} | some {nv} => {r})", er
                a, ea = self.cond(v)
                r, er = go(i + 1)
                if not ea and not er:
                    return f"({a} {'&&' if is_and else '||'} {r})", False
                rl = r if er else f".ok {r}"
                if not ea:
                    return (f"(if {a} then {rl} else .ok false)" if is_and else f"(if {a} then .ok true else {rl})"), True
                if is_and:
                    return f"(match ({a} : Except Err Bool) with | .error e => .error e | .ok true => {rl} | .ok false => .ok false)", True
                return f"(match ({a} : Except Err Bool) with | .error e => .error e | .ok true => .ok true | .ok false => {rl})", True
            return go(0)
        if isinstance(e, ast.UnaryOp) and isinstance(e.op, ast.Not):
            a, ea = self.cond(e.operand)
            if not ea:
                return f"(!{a})", False
            return f"(match ({a} : Except Err Bool) with | .error e => .error e | .ok b => .ok (!b))", True
        (t, binds) = self.collect(lambda: self.boolean(e)[0])
        if not binds:
            return t, False
        if binds[-1][0] == t:
            body, binds = binds[-1][1], binds[:-1]       # the condition is the call itself (m >>= pure = m)
        else:
            body = f".ok {t}"
        for var, eff in reversed(binds):
            body = f"(match {eff} with | .error e => .error e | .ok {var} => {body})"
        return body, True

    def compare(self, e, l, op, r):
        if isinstance(op, (ast.Is, ast.IsNot)):
            pos = isinstance(op, ast.Is)
            if isinstance(r, ast.Constant) and r.value is None:
                t, ty = self.expr(l)
                if is_opt(ty):
                    return (f"{t}.isNone" if pos else f"{t}.isSome"), "Bool"
                return ("false" if pos else "true"), "Bool"       # a narrowed value is not None
            a, ta = self.expr(l)
            b, tb = self.expr(r)
            base = lambda t: t[1] if is_opt(t) else t  # noqa: E731
            if base(ta) != "N" or base(tb) != "N":
                self.bad(e, "`is` between values that are not nodes")
            if not is_opt(ta) and not is_opt(tb):
                t = f"(py.id {a} == py.id {b})"
            else:
                ia = f"({a}.map py.id)" if is_opt(ta) else f"(some (py.id {a}))"
                ib = f"({b}.map py.id)" if is_opt(tb) else f"(some (py.id {b}))"
                t = f"({ia} == {ib})"
            return (t if pos else f"(!{t})"), "Bool"
        if isinstance(op, (ast.Eq, ast.NotEq)):
            a, ta = self.expr(l)
            b, tb = self.expr(r)
            base = lambda t: t[1] if is_opt(t) else t  # noqa: E731
            if base(ta) == "N" or base(tb) == "N":
                self.bad(e, "`==` between nodes is ASTNode.__eq__ (content + origin equality), not identity: not a primitive "
                            "of the Tree translation")
            if base(ta) != base(tb) or base(ta) not in ("Int", "Str", "Bool", "C"):
                self.bad(e, "`==` between values of these types")
            if is_opt(ta) and not is_opt(tb):
                b = f"(some {b})"
            elif is_opt(tb) and not is_opt(ta):
                a = f"(some {a})"
            t = f"({a} == {b})"
            return (t if isinstance(op, ast.Eq) else f"(!{t})"), "Bool"
        if isinstance(op, (ast.In, ast.NotIn)):
            pos = isinstance(op, ast.In)
            b, tb = self.expr(r)
            a, ta = self.expr(l)
            if isinstance(tb, tuple) and tb[0] == "dict" and ta == "N":
                t = f"(Dict.contains {b} (py.id {a}))"
            elif tb == ("list", "C") and ta == "C":
                t = f"({b}.contains {a})"
            else:
                self.bad(e, "`in` other than node-in-dict / class-in-classes")
            return (t if pos else f"(!{t})"), "Bool"
        self.bad(e, f"comparison {type(op).__name__}")

    def call(self, e: ast.Call, want=None):
        f = e.func
        if isinstance(f, ast.Name):
            if f.id == "isinstance" and len(e.args) == 2 and not e.keywords:
                if isinstance(e.args[1], ast.Name) and e.args[1].id == "tuple":
                    self.bad(e, "isinstance(.., tuple) outside an `if` test")
                a, ta = self.expr(e.args[0])
                b, tb = self.expr(e.args[1])
                if ta != "N":
                    self.bad(e, "isinstance of a non-node")
                if tb == "C":
                    return f"(py.isinstance {a} {b})", "Bool"
                if tb == ("list", "C"):
                    return f"({b}.any (py.isinstance {a}))", "Bool"
                self.bad(e, "isinstance against something that is not a class / tuple of classes")
            if f.id == "type" and len(e.args) == 1 and not e.keywords:
                a, ta = self.expr(e.args[0])
                if ta != "N":
                    self.bad(e, "type() of a non-node")
                return f"(py.type_of {a})", "C"
            if f.id == "cast" and len(e.args) == 2 and not e.keywords:
                try:
                    w = self.T.ann(e.args[0], self.where)
                except Unsupported:
                    w = want
                return self.expr(e.args[1], w)
            if f.id == "any" and len(e.args) == 1 and isinstance(e.args[0], ast.GeneratorExp) and not e.keywords:
                g = e.args[0]
                if len(g.generators) != 1 or g.generators[0].ifs or not isinstance(g.generators[0].target, ast.Name) \
                        or g.generators[0].is_async:
                    self.bad(e, "generator expression shape")
                return self.any_over(e, g.generators[0].target.id, g.generators[0].iter, g.elt)
            if f.id in self.T.records:
                fields = self.T.records[f.id]
                if e.keywords or len(e.args) != len(fields):
                    self.bad(e, "record constructor arguments")
                parts = [f"{fn} := {self.expr(a, ft)[0]}" for (fn, ft), a in zip(fields, e.args)]
                return "{ " + ", ".join(parts) + " }", ("rec", f.id)
        if isinstance(f, ast.Attribute) and isinstance(f.value, ast.Name) and f.value.id == "self" and "self" in self.env:
            return self.method_call(e, f.attr)
        self.bad(e, "call")

    def method_call(self, e: ast.Call, name: str):
        callee = self.o.meths.get(name)
        if callee is None:
            self.bad(e, "call of a method that is not translated")
        self.m.calls.add(name)
        if any(isinstance(a, ast.Starred) for a in e.args) or any(k.arg is None for k in e.keywords):
            self.bad(e, "* / ** arguments")
        pos = [p for p in callee.params if not p[3]]
        if len(e.args) > len(pos):
            self.bad(e, "too many positional arguments")
        given: dict[str, ast.expr] = {p[0]: a for p, a in zip(pos, e.args)}
        for k in e.keywords:
            if k.arg in given or k.arg not in [p[0] for p in callee.params]:
                self.bad(e, f"keyword argument {k.arg}")
            given[k.arg] = k.value
        args = []
        for (pn, pt, default, _kw) in callee.params:
            if pn in given:
                args.append(self.expr(given[pn], pt)[0])
            elif default is not None:
                snap, self.env, self.lean = self.snapshot(), {}, {}      # a default is evaluated in the empty scope
                try:
                    args.append(self.expr(default, pt)[0])
                finally:
                    self.restore(snap)
            else:
                self.bad(e, f"missing argument {pn}")
        fuel = ""
        if callee.fueled:
            if not self.m.fueled:
                self.m.fueled = True
                self.m.eff = self.m.eff or not self.m.is_gen
                raise NeedEff()
            fuel = f" {self.rec_fuel if callee is self.m else self.fuel_var}"
        if callee is self.m and not self.m.recursive:
            self.m.recursive = self.m.fueled = True
            self.m.eff = self.m.eff or not self.m.is_gen
            raise NeedEff()
        term = f"({callee.name} py {self.lean['self']}{fuel}{''.join(' ' + a for a in args)})"
        if callee.is_gen:
            return term, callee.ret
        if callee.eff:
            v = self.new()
            self.pending.append((v, term))
            return v, callee.ret
        return term, callee.ret

    def any_over(self, e, var: str, it: ast.expr, elt: ast.expr):
        g, gt = self.expr(it)
        if not (isinstance(gt, tuple) and gt[0] in ("gen", "list")):
            self.bad(it, "iteration over something that is neither a generator method nor a list")
        snap = self.snapshot()
        lv = self.bind_var(var, gt[1])
        (c, binds) = self.collect(lambda: self.boolean(elt)[0])
        self.restore(snap)
        if binds:
            self.bad(elt, "a loop condition that can raise")
        if gt[0] == "list":
            return f"({g}.any (fun {lv} => {c}))", "Bool"
        v = self.new("b")
        self.pending.append((v, f"Gen.forReturn {g} (fun {lv} => if {c} then some true else none) (.ok false)"))
        return v, "Bool"

    # ---------------------------------------------------------------- statements
    def exits(self, stmts) -> bool:
        if not stmts:
            return False
        s = stmts[-1]
        if isinstance(s, (ast.Return, ast.Raise, ast.Continue, ast.Break)):
            return True
        if isinstance(s, ast.If) and s.orelse:
            return self.exits(s.body) and self.exits(s.orelse)
        return False

    def block(self, stmts: list[ast.stmt], k) -> str:
        """k: thunk giving the term for falling off the end of `stmts` (None: falling off ends the function)"""
        if not stmts:
            if k is not None:
                return k()
            if self.mode == "gen":
                return "Gen.done"
            if self.mode == "init":
                return f".ok {self.lean['self']}"
            raise Unsupported(self.where, "a path falls off the end of the method (implicit `return None`)")
        s, rest = stmts[0], stmts[1:]
        cont = lambda: self.block(rest, k)  # noqa: E731
        if isinstance(s, ast.Expr) and isinstance(s.value, ast.Constant) and isinstance(s.value.value, str):
            return cont()
        if isinstance(s, ast.Pass):
            return cont()
        if isinstance(s, ast.Return):
            if self.mode == "gen":
                if s.value is not None:
                    self.bad(s, "return with a value in a generator")
                return "Gen.done"
            if self.mode == "init" or s.value is None:
                self.bad(s, "bare return / return in __init__")
            return self.ret_stmt(s.value)
        if isinstance(s, ast.Raise):
            x = s.exc
            name = x.func.id if isinstance(x, ast.Call) and isinstance(x.func, ast.Name) else x.id if isinstance(x, ast.Name) else None
            if name not in ("KeyError", "ValueError") or s.cause is not None:
                self.bad(s, "raise of something other than KeyError / ValueError")
            self.need_eff(s)
            return self.raise_term(f".{name}")
        if isinstance(s, ast.Continue) and self.loop_k is not None:
            return self.loop_k[0]()
        if isinstance(s, ast.Break) and self.loop_k is not None:
            return self.loop_k[1]()
        if isinstance(s, ast.Expr) and isinstance(s.value, ast.Yield) and self.mode == "gen":
            if s.value.value is None:
                self.bad(s, "bare yield")
            (t, binds) = self.collect(lambda: self.expr(s.value.value, self.m.ret[1])[0])
            return self.wrap(binds, f"Gen.yield_ {t} ({cont()})")
        if isinstance(s, ast.If):
            return self.if_stmt(s, rest, k)
        if isinstance(s, ast.For):
            return self.for_stmt(s, rest, k)
        if isinstance(s, ast.While):
            return self.while_stmt(s, rest, k)
        if isinstance(s, ast.AnnAssign) and s.value is not None and s.simple and isinstance(s.target, ast.Name):
            want = self.T.ann(s.annotation, self.where)
            return self.assign(s, s.target.id, s.value, want, cont)
        if isinstance(s, ast.Assign) and len(s.targets) == 1:
            tg = s.targets[0]
            if isinstance(tg, ast.Name):
                return self.assign(s, tg.id, s.value, None, cont)
            if self.mode == "init" and isinstance(tg, ast.Subscript) and isinstance(tg.value, ast.Attribute) \
                    and isinstance(tg.value.value, ast.Name) and tg.value.value.id == "self":
                f = self.o.state_fields.get(tg.value.attr)
                if f is None or not (isinstance(f[1], tuple) and f[1][0] == "dict"):
                    self.bad(s, "item assignment to something that is not a dict attribute of self")

                def both():
                    kk, kt = self.expr(tg.slice)
                    if kt != "N":
                        self.bad(s, "dict key that is not a node")
                    vv, _ = self.expr(s.value, f[1][1])
                    return kk, vv
                ((kk, vv), binds) = self.collect(both)
                cur = self.lean["self"]
                body = (f"(let {cur} := {{ {cur} with {f[0]} := Dict.setitem {cur}.{f[0]} (py.id {kk}) {vv} }};\n    {cont()})")
                return self.wrap(binds, body)
        self.bad(s, "statement")

    def ret_stmt(self, v: ast.expr) -> str:
        want = self.m.ret
        if want == "Bool" and isinstance(v, (ast.BoolOp, ast.UnaryOp)):
            t, eff = self.cond(v)
            if eff:
                self.need_eff(v)
                return t
            return self.ret_term(t)
        (t, binds) = self.collect(lambda: self.expr(v, want)[0])
        if binds and binds[-1][0] == t and self.mode == "exc":
            # `return <call that can raise>`: the call itself (m >>= pure = m)
            return self.wrap(binds[:-1], binds[-1][1])
        return self.wrap(binds, self.ret_term(t))

    def assign(self, s, name: str, value: ast.expr, want, cont) -> str:
        if name in ("self", "py"):
            self.bad(s, "assignment to self")
        ((t, ty), binds) = self.collect(lambda: self.expr(value, want))
        if ty == ("opt", "?"):
            self.bad(s, "assignment of a bare None (no type)")
        lv = self.bind_var(name, ty)
        if binds and binds[-1][0] == t:      # `x = <call that can raise>`: bind the result to x directly
            binds = binds[:-1] + [(lv, binds[-1][1])]
            return self.wrap(binds, cont())
        return self.wrap(binds, f"(let {lv} := {t};\n    {cont()})")

    def branch(self, body, rest, k, snap) -> str:
        """one branch of an `if`: its statements, then (unless it always exits) the statements after the `if`"""
        self.restore(snap)
        return self.block(body, lambda: self.block(rest, k))

    def if_stmt(self, s: ast.If, rest, k) -> str:
        snap = self.snapshot()
        nm = self.none_test(s.test)
        tt = None if nm is not None else self.tuple_test(s.test)
        if nm is not None or tt is not None:
            name, first = nm if nm is not None else tt
            cur = self.lean[name]
            ty = snap[0][name]
            nv = self.new(cur)

            def narrowed(stmts, nty):
                self.restore(snap)
                if nty is not None:
                    self.env[name], self.lean[name] = nty, nv
                snap2 = self.snapshot()
                r = self.branch(stmts, rest, k, snap2)
                return r
            if nm is not None:
                none_b = narrowed(s.body if first else s.orelse, None)
                some_b = narrowed(s.orelse if first else s.body, ty[1])
                self.restore(snap)
                return f"(match {cur} with\n    | none => {none_b}\n    | some {nv} => {some_b})"
            inl = narrowed(s.orelse if first else s.body, ty[1])
            inr = narrowed(s.body if first else s.orelse, ty[2])
            self.restore(snap)
            return f"(match {cur} with\n    | .inl {nv} => {inl}\n    | .inr {nv} => {inr})"
        if isinstance(s.test, ast.BoolOp) and isinstance(s.test.op, ast.And):
            # `if x is not None and REST: BODY` where BODY mentions x: BODY needs x narrowed, so the test is split
            # (`if x is not None: if REST: BODY else: ELSE else: ELSE`); otherwise the condition stays one Bool term
            nm0 = self.none_test(s.test.values[0])
            if nm0 is not None and not nm0[1] and uses(s.body, nm0[0]):
                vals = s.test.values[1:]
                inner_test = vals[0] if len(vals) == 1 else ast.BoolOp(op=ast.And(), values=vals)
                inner = ast.copy_location(ast.If(test=inner_test, body=s.body, orelse=s.orelse), s)
                outer = ast.copy_location(ast.If(test=s.test.values[0], body=[inner], orelse=s.orelse), s)
                return self.if_stmt(ast.fix_missing_locations(outer), rest, k)
        c, eff = self.cond(s.test)
        a = self.branch(s.body, rest, k, snap)
        b = self.branch(s.orelse, rest, k, snap)
        self.restore(snap)
        if eff:
            self.need_eff(s)
            return f"(match ({c} : Except Err Bool) with\n    | .error e => {self.raise_term('e')}\n    | .ok true => {a}\n    | .ok false => {b})"
        return f"(if {c} then {a}\n    else {b})"

    def oblock(self, stmts, k) -> str:
        """body of a `for` loop with early returns -> an `Option <result>` term: `some r` = `return r`, `none` = next item"""
        if not stmts:
            return k() if k is not None else "none"
        s, rest = stmts[0], stmts[1:]
        cont = lambda: self.oblock(rest, k)  # noqa: E731
        if isinstance(s, ast.Pass) or (isinstance(s, ast.Expr) and isinstance(s.value, ast.Constant)):
            return cont()
        if isinstance(s, ast.Continue):
            return "none"
        if isinstance(s, ast.Return) and s.value is not None:
            (t, binds) = self.collect(lambda: self.expr(s.value, self.m.ret)[0])
            if binds:
                self.bad(s, "a returned value that can raise, inside a for loop")
            return f"some {t}"
        if isinstance(s, ast.If):
            snap = self.snapshot()
            (c, binds) = self.collect(lambda: self.cond(s.test))
            if binds or c[1]:
                self.bad(s.test, "a loop condition that can raise")
            a = self.oblock(s.body, None if self.exits(s.body) else cont)
            self.restore(snap)
            b = self.oblock(s.orelse, None if (s.orelse and self.exits(s.orelse)) else cont)
            self.restore(snap)
            return f"(if {c[0]} then {a} else {b})"
        if isinstance(s, ast.Assign) and len(s.targets) == 1 and isinstance(s.targets[0], ast.Name):
            ((t, ty), binds) = self.collect(lambda: self.expr(s.value))
            if binds:
                self.bad(s, "an assignment that can raise, inside a for loop")
            lv = self.bind_var(s.targets[0].id, ty)
            return f"(let {lv} := {t}; {cont()})"
        self.bad(s, "statement inside a for loop (expected `if c: return e`)")

    def for_stmt(self, s: ast.For, rest, k) -> str:
        if s.orelse or not isinstance(s.target, ast.Name):
            self.bad(s, "for loop with else / a structured target")
        if self.mode == "gen":
            self.bad(s, "for loop inside a generator")
        ((g, gt), binds) = self.collect(lambda: self.expr(s.iter))
        if not (isinstance(gt, tuple) and gt[0] in ("gen", "list")):
            self.bad(s.iter, "iteration over something that is neither a generator method nor a list")
        snap = self.snapshot()
        lv = self.bind_var(s.target.id, gt[1])
        body = self.oblock(s.body, None)
        self.restore(snap)
        after = self.block(rest, k)
        if gt[0] == "gen":
            self.need_eff(s)
            lifted = after if self.mode in ("exc", "init") else self.bad(s, "generator loop in a pure method")
            return self.wrap(binds, f"(Gen.forReturn {g} (fun {lv} => {body})\n    ({lifted}))")
        return self.wrap(binds, f"(match {g}.findSome? (fun {lv} => {body}) with\n    | some r => {self.ret_term('r')}\n    | none => {after})")

    def assigned(self, stmts) -> list[str]:
        out = []
        for st in stmts:
            for n in ast.walk(st):
                if isinstance(n, ast.Assign):
                    for t in n.targets:
                        if isinstance(t, ast.Name) and t.id not in out:
                            out.append(t.id)
                        elif not isinstance(t, ast.Name):
                            self.bad(n, "structured assignment inside a while loop")
                elif isinstance(n, (ast.AugAssign, ast.AnnAssign, ast.For, ast.While, ast.With, ast.Try)):
                    self.bad(n, "statement inside a while loop")
        return out

    def while_stmt(self, s: ast.While, rest, k) -> str:
        if s.orelse:
            self.bad(s, "while .. else")
        if self.loop_k is not None or k is not None:
            self.bad(s, "a while loop that is not at the top level of the method")
        if not self.m.fueled:
            self.m.fueled = True
            self.m.eff = self.m.eff or not self.m.is_gen
            raise NeedEff()
        state = self.assigned(s.body)
        for v in state:
            if v not in self.env:
                self.bad(s, f"loop variable {v} is not assigned before the loop")
        used_after = lambda v: any(isinstance(n, ast.Name) and n.id == v for st in [s] + rest for n in ast.walk(st))  # noqa: E731
        all_params = [p[0] for p in self.m.params]
        fixed = [p for p in all_params if used_after(p)]       # parameters the loop / the rest does not mention are dropped
        for v in self.env:
            if v not in state and v not in all_params and v != "self":
                if used_after(v):
                    self.bad(s, f"local {v} is used in / after the loop but is not a loop variable")
        if len(self.aux) > 0:
            self.bad(s, "a second while loop")
        lname = f"{self.m.name}_loop"
        snap = self.snapshot()
        call_now = f"({lname} py {self.lean['self']}" + "".join(f" {self.lean[p]}" for p in fixed) + f" {self.fuel_var}" + \
                   "".join(f" {self.lean[v]}" for v in state) + ")"
        # ---- the auxiliary definition
        svars = [(v, self.env[v]) for v in state]
        rec_call = lambda: (f"({lname} py {self.lean['self']}" + "".join(f" {self.lean[p]}" for p in fixed) + " fuel_1" +  # noqa: E731
                            "".join(f" {self.lean[v]}" for v in state) + ")")
        after = lambda: self.block(rest, None)  # noqa: E731
        self.loop_k = (rec_call, after)
        save_fuel, self.fuel_var = self.fuel_var, "fuel"
        nm = self.none_test(s.test)
        if nm is not None and not nm[1]:
            name = nm[0]
            cur = self.lean[name]
            nv = self.new(cur)
            none_b = after()
            self.restore(snap)
            self.env[name], self.lean[name] = snap[0][name][1], nv
            # an assignment to the loop variable inside the body re-binds the python name to its Optional type
            some_b = self.block(s.body, rec_call)
            self.restore(snap)
            body = f"(match {cur} with\n    | none => {none_b}\n    | some {nv} => {some_b})"
        else:
            c, eff = self.cond(s.test)
            a = self.block(s.body, rec_call)
            self.restore(snap)
            b = after()
            self.restore(snap)
            if eff:
                body = f"(match ({c} : Except Err Bool) with\n    | .error e => {self.raise_term('e')}\n    | .ok true => {a}\n    | .ok false => {b})"
            else:
                body = f"(if {c} then {a}\n    else {b})"
        self.loop_k = None
        self.fuel_var = save_fuel
        params = "".join(f" ({self.lean[p]} : {lean_ty(self.env[p])})" for p in fixed)
        sparams = "".join(f" ({self.lean[v]} : {lean_ty(t)})" for v, t in svars)
        res = self.m.result_ty()
        self.aux.append(
            f"/-- the `while` loop of `Tree.{self.m.name}` (line {s.lineno}) and what follows it; one unit of fuel per test of the "
            f"loop condition -/\n"
            f"def {lname} {SIG} (self : TreeS N){params} (fuel : Nat){sparams} : {res} :=\n"
            f"  match fuel with\n  | 0 => {self.raise_term('.OutOfFuel')}\n  | fuel_1 + 1 =>\n    {body}\n")
        return call_now


class TreeTr:
    def __init__(self, src: Path):
        self.tree_py = K(src / "pyoak" / "tree.py")
        self.node_py = K(src / "pyoak" / "node.py")
        tvars = set()
        for st in self.tree_py.mod.body:
            if isinstance(st, ast.Assign) and isinstance(st.value, ast.Call) and isinstance(st.value.func, ast.Name) \
                    and st.value.func.id == "TypeVar" and len(st.targets) == 1 and isinstance(st.targets[0], ast.Name):
                b = next((k.value for k in st.value.keywords if k.arg == "bound"), None)
                if isinstance(b, ast.Constant) and b.value == "ASTNode" or isinstance(b, ast.Name) and b.id == "ASTNode":
                    tvars.add(st.targets[0].id)
        self.types = Types(tvars, {})
        self.types.records["ParentInfo"] = self.record(self.tree_py, "ParentInfo")
        self.types.records["NodeTraversalInfo"] = self.record(self.node_py, "NodeTraversalInfo")
        self.cls = self.tree_py.classes.get("Tree")
        if self.cls is None:
            raise Unsupported("Tree", "class not found")
        self.state_fields: dict[str, tuple[str, object]] = {}     # python attribute -> (lean field, type)
        self.meths: dict[str, Meth] = {}

    def record(self, k: K, name: str):
        c = k.classes.get(name)
        if c is None:
            raise Unsupported(name, "class not found")
        if not any(isinstance(b, ast.Name) and b.id == "NamedTuple" for b in c.bases):
            raise Unsupported(name, "not a NamedTuple")
        out = []
        for st in c.body:
            if isinstance(st, ast.AnnAssign) and isinstance(st.target, ast.Name):
                out.append((st.target.id, self.types.ann(st.annotation, f"{name}.{st.target.id}")))
            elif isinstance(st, (ast.Pass,)) or (isinstance(st, ast.Expr) and isinstance(st.value, ast.Constant)):
                continue
            else:
                raise Unsupported(name, f"class body statement {type(st).__name__}")
        return out

    # ---------------------------------------------------------------- signatures
    def signature(self, fn: ast.FunctionDef) -> Meth:
        where = f"Tree.{fn.name}"
        a = fn.args
        if a.vararg or a.kwarg or a.posonlyargs:
            raise Unsupported(where, "*args / **kwargs / positional-only parameters")
        if not a.args or a.args[0].arg != "self":
            raise Unsupported(where, "first parameter is not self")
        params = []
        pos = a.args[1:]
        defaults = [None] * (len(pos) - len(a.defaults)) + list(a.defaults)
        for p, d in list(zip(pos, defaults)) + list(zip(a.kwonlyargs, a.kw_defaults)):
            if p.annotation is None:
                raise Unsupported(where, f"parameter {p.arg} without annotation")
            params.append([p.arg, self.types.ann(p.annotation, where), d, p in a.kwonlyargs])
        if fn.returns is None:
            raise Unsupported(where, "no return annotation")
        ret = self.types.ann(fn.returns, where)
        is_gen = any(isinstance(n, (ast.Yield, ast.YieldFrom)) for n in ast.walk(fn))
        if is_gen and not (isinstance(ret, tuple) and ret[0] == "gen"):
            raise Unsupported(where, "a generator whose return annotation is not Iterator[..]")
        if not is_gen and isinstance(ret, tuple) and ret[0] == "gen":
            raise Unsupported(where, "Iterator[..] returned by a method that is not a generator")
        return Meth(fn, [tuple(p) for p in params], ret, is_gen)

    # ---------------------------------------------------------------- __init__
    def translate_init(self, fn: ast.FunctionDef) -> str:
        where = "Tree.__init__"
        a = fn.args
        if len(a.args) != 2 or a.vararg or a.kwarg or a.kwonlyargs or a.args[1].annotation is None:
            raise Unsupported(where, "expects (self, root: ASTNode)")
        root = a.args[1].arg
        if self.types.ann(a.args[1].annotation, where) != "N":
            raise Unsupported(where, "expects (self, root: ASTNode)")
        m = Meth(fn, [(root, "N", None, False)], "Unit", False)
        m.eff = True
        tr = Tr(self, m, "init")
        tr.bind_var(root, "N")
        inits = []      # (lean field, type, term)
        loop = None
        body = [s for s in fn.body if not (isinstance(s, ast.Expr) and isinstance(s.value, ast.Constant))]
        for i, s in enumerate(body):
            if isinstance(s, ast.For):
                loop = s
                if body[i + 1:]:
                    raise Unsupported(where, "statements after the loop")
                break
            tgt, val, want = None, None, None
            if isinstance(s, ast.Assign) and len(s.targets) == 1:
                tgt, val = s.targets[0], s.value
            elif isinstance(s, ast.AnnAssign) and s.value is not None:
                tgt, val, want = s.target, s.value, self.types.ann(s.annotation, where)
            if not (isinstance(tgt, ast.Attribute) and isinstance(tgt.value, ast.Name) and tgt.value.id == "self"):
                tr.bad(s, "statement before the loop (expected `self.attr [: T] = e`)")
            ((t, ty), binds) = tr.collect(lambda: tr.expr(val, want))
            if binds:
                tr.bad(s, "an initial value that can raise")
            lf = tgt.attr.lstrip("_") or tgt.attr
            if tgt.attr in self.state_fields or lf in [f[0] for f in self.state_fields.values()]:
                tr.bad(s, "attribute assigned twice / name clash")
            self.state_fields[tgt.attr] = (lf, ty)
            inits.append((lf, ty, t))
        if loop is None:
            raise Unsupported(where, "no `for n in root.dfs():` loop")
        it = loop.iter
        if not (isinstance(it, ast.Call) and isinstance(it.func, ast.Attribute) and it.func.attr == "dfs" and not it.args and not it.keywords
                and isinstance(it.func.value, ast.Name) and it.func.value.id == root and isinstance(loop.target, ast.Name) and not loop.orelse):
            tr.bad(loop, f"loop header (expected `for n in {root}.dfs():`)")
        out = [f"/-- the attributes `Tree.__init__` assigns -/\nstructure TreeS (N : Type) where\n" +
               "".join(f"  {lf} : {lean_ty(ty)}\n" for lf, ty, _ in inits)]
        out.append(PY_STRUCT)
        # loop body
        tr2 = Tr(self, m, "init")
        tr2.env["self"], tr2.lean["self"] = "Tree", "self"
        n = tr2.bind_var(loop.target.id, ("rec", "NodeTraversalInfo"))
        if uses(loop.body, root):
            tr2.bad(loop, f"`{root}` used inside the loop body")
        step = tr2.block(loop.body, None)
        out.append(f"/-- body of the loop of `Tree.__init__` (line {loop.lineno}): the table updates for one item of `root.dfs()` -/\n"
                   f"def init_step {SIG} (self : TreeS N) ({n} : NodeTraversalInfo N) : Except Err (TreeS N) :=\n  {step}\n")
        init_state = "{ " + ", ".join(f"{lf} := {t}" for lf, _ty, t in inits) + " }"
        out.append(f"/-- `Tree.__init__`: the initial attributes, then the loop over `{root}.dfs()` -/\n"
                   f"def init {SIG} ({tr.lean[root]} : N) : Except Err (TreeS N) :=\n"
                   f"  (py.dfs {tr.lean[root]}).foldlM (init_step py) {init_state}\n")
        return "\n".join(out)

    # ---------------------------------------------------------------- methods
    def translate_method(self, m: Meth) -> str:
        mode = "gen" if m.is_gen else "exc" if m.eff else "pure"
        tr = Tr(self, m, mode)
        tr.env["self"], tr.lean["self"] = "Tree", "self"
        for (pn, pt, _d, _k) in m.params:
            if pn in ("py", "fuel", "self"):
                raise Unsupported(tr.where, f"parameter name {pn}")
            tr.bind_var(pn, pt)
        tr.rec_fuel = "fuel_1"
        body = tr.block(m.fn.body, None)
        params = "".join(f" ({tr.lean[pn]} : {lean_ty(pt)})" for (pn, pt, _d, _k) in m.params)
        fuel = " (fuel : Nat)" if m.fueled else ""
        doc = f"/-- `Tree.{m.name}` (src/pyoak/tree.py line {m.fn.lineno})"
        if m.recursive:
            doc += "; recursive: one unit of fuel per call"
            body = f"match fuel with\n  | 0 => {tr.raise_term('.OutOfFuel')}\n  | fuel_1 + 1 =>\n    {body}"
        doc += " -/\n"
        return "".join(a + "\n" for a in tr.aux) + doc + \
            f"def {m.name} {SIG} (self : TreeS N){fuel}{params} : {m.result_ty()} :=\n  {body}\n"

    def generate(self) -> str:
        fns = [s for s in self.cls.body if isinstance(s, ast.FunctionDef)]
        others = [s for s in self.cls.body if not isinstance(s, ast.FunctionDef)
                  and not (isinstance(s, ast.Expr) and isinstance(s.value, ast.Constant))]
        if others:
            raise Unsupported("Tree", f"class body statement {type(others[0]).__name__} (line {others[0].lineno})")
        init = next((f for f in fns if f.name == "__init__"), None)
        if init is None:
            raise Unsupported("Tree.__init__", "not found")
        out = [HEADER.replace("%PRIMS%", "\n".join(f"     {a:<62} ->  {b}" for a, b in PRIMITIVES))]
        for name in ("ParentInfo", "NodeTraversalInfo"):
            out.append(f"/-- `{name}` (NamedTuple) -/\nstructure {name} (N : Type) where\n" +
                       "".join(f"  {fn} : {lean_ty(ft)}\n" for fn, ft in self.types.records[name]))
        out.append(self.translate_init(init))
        for f in fns:
            if f is init:
                continue
            if f.decorator_list:
                # properties / static methods are not translated; a use of one inside a translated method is refused
                continue
            if f.name.startswith("__"):
                raise Unsupported(f"Tree.{f.name}", "special method")
            self.meths[f.name] = self.signature(f)
        # flags: a fixpoint (a method is re-translated when a callee turned out to raise / to need fuel)
        texts: dict[str, str] = {}
        for _round in range(4 * len(self.meths) + 4):
            changed = False
            for m in self.meths.values():
                before = (m.eff, m.fueled, m.recursive)
                try:
                    m.calls = set()
                    texts[m.name] = self.translate_method(m)
                except NeedEff:
                    changed = True
                    continue
                if before != (m.eff, m.fueled, m.recursive):
                    changed = True
            if not changed:
                break
        else:
            raise Unsupported("Tree", "the raising / fuel flags of the methods do not stabilise")
        # a caller must come after its callees
        order, seen = [], set()

        def visit(name, stack):
            if name in seen:
                return
            if name in stack:
                raise Unsupported(f"Tree.{name}", "mutual recursion between methods")
            for c in sorted(self.meths[name].calls):
                if c != name:
                    visit(c, stack + [name])
            seen.add(name)
            order.append(name)
        for name in self.meths:
            visit(name, [])
        for name in order:
            out.append(texts[name])
        out.append("end PyOak.GenT\n")
        return "\n".join(out)


def uses(stmts, name: str) -> bool:
    return any(isinstance(n, ast.Name) and n.id == name for s in stmts for n in ast.walk(s))


def generate_tree(src: Path) -> str:
    return TreeTr(Path(src)).generate()


if __name__ == "__main__":
    import sys
    print(generate_tree(Path(sys.argv[1] if len(sys.argv) > 1 else "/repo/src")))
