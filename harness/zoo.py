"""Node-model zoo (v2 ASTNode) + seeded tree generators + tree -> protocol encoding.

The harness describes a tree to the model from *its own* knowledge of the zoo (the tables
below), never through pyoak's accessors: the description is the independent side of the
correspondence.
"""
from __future__ import annotations

import dataclasses
import enum
import random
from dataclasses import dataclass, field
from pathlib import Path
from typing import Any, Literal

from pyoak.node import ASTNode
from pyoak.origin import (
    NO_ORIGIN,
    CodeOrigin,
    GeneratedCodeOrigin,
    MemoryTextSource,
    MultiOrigin,
    get_code_range,
)

from proto import A


class Color(enum.Enum):
    RED = 1
    GREEN = 2
    BLUE = 3


@dataclass(frozen=True)
class Expr(ASTNode):
    pass


@dataclass(frozen=True)
class Leaf(Expr):
    v: int = 0
    s: str = ""
    flag: bool = False
    tag: str = field(default="", compare=False)
    cnt: int = field(default=7, init=False)


@dataclass(frozen=True)
class Leaf2(Leaf):
    extra: tuple[str, ...] = ()


@dataclass(frozen=True)
class Un(Expr):
    arg: Expr


@dataclass(frozen=True)
class UnPlus(Un):
    """a derived node class that ADDS a child field to those of its (concrete) base class"""

    extra: Expr | None = None


@dataclass(frozen=True)
class Bin(Expr):
    left: Expr
    right: Expr


@dataclass(frozen=True)
class Opt(Expr):
    c: Expr | None = None


@dataclass(frozen=True)
class UnionKid(Expr):
    c: Leaf | Bin | None = None


@dataclass(frozen=True)
class Tup(Expr):
    items: tuple[Expr, ...] = ()

    def __iter__(self):
        # a node class may be iterable (a block iterating over its statements): it is still ONE node wherever it is
        # stored, never a sequence of children of its holder
        return iter(self.items)


@dataclass(frozen=True)
class Fix2(Expr):
    pair: tuple[Leaf, Expr]


@dataclass(frozen=True)
class Mixed(Expr):
    z: Expr
    items: tuple[Expr, ...]
    a: Expr | None = None
    name: str = ""


@dataclass(frozen=True)
class MixedR(Expr):
    """same child field names and kinds as Mixed, declared in another order"""

    items: tuple[Expr, ...]
    z: Expr
    a: Expr | None = None
    name: str = ""


@dataclass(frozen=True)
class MLeft(Expr):
    lv: int = 0
    lk: Expr | None = None


@dataclass(frozen=True)
class MRight(Expr):
    rv: int = 0
    rk: Expr | None = None


@dataclass(frozen=True)
class MBoth(MLeft, MRight):
    """multiple inheritance, no fields of its own (dataclass field order: the reversed MRO: rv, rk, lv, lk)"""


@dataclass(frozen=True)
class Glue(Expr):
    """field `argExpr` = field `arg` + class name `Expr` (texts that differ only by whitespace mean different things)"""

    arg: Expr | None = None
    argExpr: Expr | None = None


@dataclass(frozen=True)
class Falsy(Expr):
    """A node that is False in a boolean context."""

    n: int = 0

    def __len__(self) -> int:
        return 0


@dataclass(frozen=True)
class FalsyKid(Expr):
    """A falsy node that has children of its own."""

    c: Expr | None = None
    items: tuple[Expr, ...] = ()

    def __bool__(self) -> bool:
        return False


@dataclass(frozen=True)
class Names(Expr):
    """Field names the library uses internally."""

    child: Expr | None = None
    root: Expr | None = None
    items: tuple[Expr, ...] = ()


@dataclass(frozen=True)
class PropZoo(Expr):
    e: Color = Color.RED
    t: tuple[int, ...] = ()
    fs: frozenset[int] = frozenset()
    o: int | None = None
    lit: Literal["a", "b"] = "a"
    p: Path = Path(".")
    fl: float = 0.0
    fss: frozenset[str] = frozenset()
    tf: tuple[frozenset[str], ...] = ()
    anyt: tuple[Any, ...] = ()     # items that may be == but of different types (1 / True / 1.0)
    nfs: frozenset[frozenset[int]] = frozenset()
    num: int | float = 1
    hidden: int = field(default=0, compare=False)


_SERIAL = [0]


@dataclass(frozen=True)
class Serial(Expr):
    """carries a bookkeeping property that is neither an init argument nor comparable and differs between
    otherwise equal nodes"""

    v: int = 0
    serial: int = field(default=0, init=False, compare=False)

    def __post_init__(self) -> None:
        _SERIAL[0] += 1
        object.__setattr__(self, "serial", _SERIAL[0])
        super().__post_init__()


@dataclass(frozen=True, slots=True)
class Slotted(Expr):
    """a slotted node class (dataclass re-creates the class object: its name is registered twice)"""

    v: int = 0


@dataclass(frozen=True)
class Picky(Expr):
    """a node class with its own validation: construction with v == 13 raises its own error"""

    v: int = 0

    def __post_init__(self) -> None:
        if self.v == 13:
            raise RuntimeError("unlucky")
        super().__post_init__()


@dataclass(frozen=True)
class PickyLate(Expr):
    """validates AFTER the base class has assigned ids and registered the node"""

    v: int = 0
    note: str = field(default="", compare=False)

    def __post_init__(self) -> None:
        super().__post_init__()
        if self.note == "bad":
            raise RuntimeError("rejected after registration")


@dataclass(frozen=True)
class Two(Expr):
    """two adjacent string properties (target of separator-splice attacks on the digest framing)"""

    a: str = ""
    b: str = ""


# field name -> is_collection, in declaration order  (the harness' own knowledge)
CHILD_FIELDS: dict[type, list[tuple[str, bool]]] = {
    Expr: [],
    Leaf: [],
    Leaf2: [],
    Un: [("arg", False)],
    UnPlus: [("arg", False), ("extra", False)],
    Bin: [("left", False), ("right", False)],
    Opt: [("c", False)],
    UnionKid: [("c", False)],
    Tup: [("items", True)],
    Fix2: [("pair", True)],
    Mixed: [("z", False), ("items", True), ("a", False)],
    MLeft: [("lk", False)],
    MRight: [("rk", False)],
    MBoth: [(f.name, False) for f in dataclasses.fields(MBoth) if f.name in ("lk", "rk")],
    Glue: [("arg", False), ("argExpr", False)],
    MixedR: [("items", True), ("z", False), ("a", False)],
    Falsy: [],
    FalsyKid: [("c", False), ("items", True)],
    Names: [("child", False), ("root", False), ("items", True)],
    PropZoo: [],
    Two: [],
    Picky: [],
    PickyLate: [],
    Slotted: [],
    Serial: [],
}
ALL_CLASSES = list(CHILD_FIELDS)
LEAF_CLASSES = [Leaf, Leaf2, Falsy, PropZoo, Two]

_BASE_FIELDS = ("id", "content_id", "origin")


def prop_fields(cls: type) -> list[dataclasses.Field]:
    kids = {n for n, _ in CHILD_FIELDS[cls]}
    return [f for f in dataclasses.fields(cls) if f.name not in kids and f.name not in _BASE_FIELDS]


def class_table() -> list:
    out = [A("classes")]
    for c in ALL_CLASSES + [ASTNode]:
        out.append([k.__name__ for k in c.__mro__])
    return out


# ---------------------------------------------------------------- values / origins

SEP_CHARS = ":=()[]@<>',|/ "
_SRC = [MemoryTextSource("alpha beta gamma delta", source_uri=f"mem{i}") for i in range(3)]


def gen_str(rng: random.Random) -> str:
    k = rng.random()
    if k < 0.35:
        return rng.choice(["", "a", "b", "x1", "foo", "1", "True", "None"])
    if k < 0.7:
        n = rng.randint(1, 6)
        return "".join(rng.choice("ab1" + SEP_CHARS) for _ in range(n))
    # splice of something that looks like the digest pre-image of another property
    return rng.choice(
        [
            "1):s=<class 'str'>(2",
            "2):tag=<class 'str'>(3",
            "<class 'int'>(1)",
            "x:v=<class 'int'>(0)",
            "):flag=<class 'bool'>(True",
            "a[-1]=",
            "é \n\t\"q\"\\",
        ]
    )


def gen_int(rng: random.Random) -> int:
    return rng.choice([0, 1, -1, 2, 3, 7, 10, 2**63 - 1, -(2**63), rng.randint(-50, 50)])


def gen_origin(rng: random.Random):
    k = rng.random()
    if k < 0.35:
        return NO_ORIGIN
    if k < 0.75:
        a = rng.randint(0, 8)
        b = rng.randint(a, 10)
        return CodeOrigin(rng.choice(_SRC), get_code_range(a, 1, a, b, 1, b))
    if k < 0.85:
        return GeneratedCodeOrigin(rng.choice(_SRC))
    o1 = CodeOrigin(_SRC[0], get_code_range(0, 1, 0, 1, 1, 1))
    o2 = CodeOrigin(rng.choice(_SRC[1:]), get_code_range(3, 1, 3, 5, 1, 5))
    return MultiOrigin([o1, o2])


class Gen:
    """Seeded generator of zoo trees."""

    def __init__(self, rng: random.Random, *, origins: bool = True, falsy: bool = True,
                 share: float = 0.08, long_tuples: bool = True, serial: bool = False):
        self.serial = serial
        self.rng = rng
        self.origins = origins
        self.falsy = falsy
        self.share = share
        self.long_tuples = long_tuples
        self.pool: list[ASTNode] = []

    def origin(self):
        return gen_origin(self.rng) if self.origins else NO_ORIGIN

    def leaf(self) -> ASTNode:
        r = self.rng
        k = r.random()
        o = self.origin()
        if k < 0.55:
            n = Leaf(v=gen_int(r) if r.random() < 0.5 else r.randint(0, 3), s=gen_str(r),
                     flag=r.random() < 0.5, tag=r.choice(["", "t", "u"]), origin=o)
        elif k < 0.7:
            n = Leaf2(v=r.randint(0, 3), s=gen_str(r), extra=tuple(gen_str(r) for _ in range(r.randint(0, 2))),
                      origin=o)
        elif k < 0.82 and self.falsy:
            n = Falsy(n=r.randint(0, 2), origin=o)
        elif k < 0.92:
            elems = [r.randint(0, 40) for _ in range(r.randint(0, 4))]
            n = PropZoo(e=r.choice(list(Color)), t=tuple(r.randint(0, 3) for _ in range(r.randint(0, 3))),
                        anyt=tuple(r.choice([r.randint(0, 3), True, False, 1.0, 0.0, "1", None])
                                   for _ in range(r.randint(0, 3))),
                        nfs=frozenset(frozenset(r.sample([0, 8, 16, 24, 32, 1], r.randint(1, 4)))
                                      for _ in range(r.choice([0, 1, 1, 2]))),
                        num=r.choice([1, 1.0, 2, 2.5, 0]),
                        fs=frozenset(elems), o=r.choice([None, 0, 1]), lit=r.choice(["a", "b"]),
                        p=Path(r.choice([".", "a/b", "/x"])), fl=r.choice([0.0, 1.5, -2.25, 1e10]),
                        fss=frozenset(gen_str(r) for _ in range(r.randint(0, 4))),
                        tf=tuple(frozenset(r.choice("abcdefgh") for _ in range(r.randint(0, 3)))
                                 for _ in range(r.randint(0, 2))),
                        hidden=r.randint(0, 1), origin=o)
        elif k < 0.95:
            n = Two(a=gen_str(r), b=gen_str(r), origin=o)
        elif k < 0.97:
            n = Slotted(v=r.randint(0, 3), origin=o)
        elif k < 0.99 and self.serial:
            n = Serial(v=r.randint(0, 3), origin=o)
        else:
            n = Expr(origin=o)
        self.pool.append(n)
        return n

    def tree(self, budget: int) -> ASTNode:
        """A tree with at most about `budget` nodes."""
        r = self.rng
        if budget <= 1 or r.random() < 0.12:
            return self.leaf()
        if self.pool and r.random() < self.share:
            return r.choice(self.pool)  # shared object
        o = self.origin()
        k = r.random()
        b = budget - 1

        def sub(n):
            return self.tree(max(1, n))

        def subs(total, lo=0):
            if self.long_tuples and r.random() < 0.12:
                cnt = r.choice([11, 12, 13, 14])
            else:
                cnt = r.choice([0, 1, 1, 2, 2, 3, 4])
            cnt = max(lo, cnt)
            if cnt == 0:
                return ()
            each = max(1, total // cnt)
            return tuple(sub(each) for _ in range(cnt))

        if k < 0.09:
            n = Un(sub(b), origin=o)
        elif k < 0.12:
            n = UnPlus(sub(b // 2), sub(b // 2) if r.random() < 0.7 else None, origin=o)
        elif k < 0.3:
            n = Bin(sub(b // 2), sub(b - b // 2), origin=o)
        elif k < 0.38:
            n = Opt(sub(b) if r.random() < 0.7 else None, origin=o)
        elif k < 0.44:
            c = r.choice([None, "leaf", "bin"])
            if c == "leaf":
                cc = Leaf(v=r.randint(0, 3), origin=self.origin())
            elif c == "bin":
                cc = Bin(sub(b // 2), sub(b - b // 2), origin=self.origin())
            else:
                cc = None
            n = UnionKid(cc, origin=o)
        elif k < 0.64:
            n = Tup(subs(b), origin=o)
        elif k < 0.7:
            n = Fix2((Leaf(v=r.randint(0, 3), origin=self.origin()), sub(b)), origin=o)
        elif k < 0.77:
            n = Mixed(sub(b // 3), subs(b // 3), sub(b // 3) if r.random() < 0.6 else None,
                      name=gen_str(r), origin=o)
        elif k < 0.82:
            n = MixedR(subs(b // 3), sub(b // 3), sub(b // 3) if r.random() < 0.6 else None,
                       name=gen_str(r), origin=o)
        elif k < 0.9 and self.falsy:
            n = FalsyKid(sub(b // 2) if r.random() < 0.7 else None, subs(b // 2), origin=o)
        elif k < 0.93:
            n = Names(sub(b // 3) if r.random() < 0.6 else None, sub(b // 3) if r.random() < 0.6 else None,
                      subs(b // 3), origin=o)
        elif k < 0.965:
            # a class of the multiple-inheritance family: a base first, the combined class later in the process
            cls = r.choice([MLeft, MRight, MBoth, MBoth])
            kw = {}
            if cls in (MLeft, MBoth):
                kw.update(lv=r.randint(0, 2), lk=sub(b // 2) if r.random() < 0.7 else None)
            if cls in (MRight, MBoth):
                kw.update(rv=r.randint(0, 2), rk=sub(b // 2) if r.random() < 0.7 else None)
            n = cls(origin=o, **kw)
        else:
            n = Glue(sub(b // 2) if r.random() < 0.6 else None, sub(b // 2) if r.random() < 0.6 else None, origin=o)
        self.pool.append(n)
        return n


# ---------------------------------------------------------------- independent structure walk

def kid_lists(n: ASTNode) -> list[tuple[str, bool, list[ASTNode]]]:
    out = []
    for name, coll in CHILD_FIELDS[type(n)]:
        v = object.__getattribute__(n, name)
        if coll:
            out.append((name, True, list(v)))
        else:
            out.append((name, False, [] if v is None else [v]))
    return out


def positions(n: ASTNode):
    """all proper-descendant positions (child, parent, field, index), pre-order, by the harness'
    own recursion"""
    for name, coll, ns in kid_lists(n):
        for i, c in enumerate(ns):
            yield (c, n, name, i if coll else None)
            yield from positions(c)


def size(n: ASTNode) -> int:
    return 1 + sum(1 for _ in positions(n))


# ---------------------------------------------------------------- encoding

class Tokens:
    """object identity -> small integer"""

    def __init__(self):
        self.by_id: dict[int, int] = {}
        self.objs: list[object] = []

    def tok(self, o) -> int:
        k = self.by_id.get(id(o))
        if k is None:
            k = len(self.objs)
            self.by_id[id(o)] = k
            self.objs.append(o)
        return k


def struct_eq(a, b) -> bool:
    """equality of origins / positions / sources as the statement means it: the same class and, field by field, equal
    values (the fields a frozen dataclass compares) -- computed by the harness itself, not through the objects' `__eq__`"""
    if dataclasses.is_dataclass(a) and not isinstance(a, type):
        if type(a) is not type(b):
            return False
        return all(struct_eq(getattr(a, f.name), getattr(b, f.name)) for f in dataclasses.fields(a) if f.compare)
    if isinstance(a, (tuple, list)):
        return type(a) is type(b) and len(a) == len(b) and all(struct_eq(x, y) for x, y in zip(a, b))
    return type(a) is type(b) and a == b


class OrgTable:
    def __init__(self):
        self.orgs: list = []

    def key(self, o) -> int:
        for i, x in enumerate(self.orgs):
            if struct_eq(x, o):
                return i
        self.orgs.append(o)
        return len(self.orgs) - 1

    def sexp(self):
        return [A("orgs")] + [[i, o.fqn] for i, o in enumerate(self.orgs)]


def enc_val(v):
    if isinstance(v, bool):
        return [A("b"), v]
    if isinstance(v, int):
        return [A("i"), A(str(v))]
    if v is None:
        return A("none")
    if isinstance(v, enum.Enum):
        return [A("e"), type(v).__name__, v.name]
    if type(v) is str:
        return [A("s"), v]
    if isinstance(v, str):
        return [A("o"), str(type(v)), str(v)]      # a str subclass: what counts is its own str()
    if isinstance(v, tuple):
        return [A("t")] + [enc_val(x) for x in v]
    if isinstance(v, frozenset):
        return [A("fs")] + [enc_val(x) for x in v]
    return [A("o"), str(type(v)), str(v)]


def enc_tree(n: ASTNode, toks: Tokens, orgs: OrgTable, seen: set | None = None):
    if seen is None:
        seen = set()
    t = toks.tok(n)
    if t in seen:
        return [A("ref"), t]
    seen.add(t)
    cls = type(n)
    props = [A("p")]
    for f in prop_fields(cls):
        v = object.__getattribute__(n, f.name)
        props.append([f.name, str(type(v)), stable_text(v), enc_val(v), bool(f.compare), bool(f.init)])
    kids = [A("k")]
    for name, coll, ns in kid_lists(n):
        kids.append([name, coll] + [enc_tree(c, toks, orgs, seen) for c in ns])
    return [A("n"), t, cls.__name__, orgs.key(object.__getattribute__(n, "origin")), bool(n), props, kids]


def show(n: ASTNode, depth: int = 0) -> str:
    """human-readable constructor-like rendering for replay files"""
    cls = type(n)
    parts = []
    for f in prop_fields(cls):
        if f.init:
            parts.append(f"{f.name}={object.__getattribute__(n, f.name)!r}")
    for name, coll, ns in kid_lists(n):
        if coll:
            parts.append(f"{name}=(" + "".join(show(c, depth + 1) + "," for c in ns) + ")")
        else:
            parts.append(f"{name}=" + (show(ns[0], depth + 1) if ns else "None"))
    o = object.__getattribute__(n, "origin")
    if o is not NO_ORIGIN:
        parts.append(f"origin=<{o.fqn}>")
    return f"{cls.__name__}({', '.join(parts)})"


# ---------------------------------------------------------------- specs (pure data descriptions of trees)

def to_spec(n: ASTNode, memo: dict | None = None):
    """(cls name, {init prop: value}, {kid field: spec | None | [spec…]}, origin, key)"""
    if memo is None:
        memo = {}
    if id(n) in memo:
        return ("ref", memo[id(n)])
    key = len(memo)
    memo[id(n)] = key
    cls = type(n)
    props = {f.name: object.__getattribute__(n, f.name) for f in prop_fields(cls) if f.init}
    kids = {}
    for name, coll in CHILD_FIELDS[cls]:
        v = object.__getattribute__(n, name)
        if coll:
            kids[name] = [to_spec(c, memo) for c in v]
        else:
            kids[name] = None if v is None else to_spec(v, memo)
    return ("node", cls.__name__, props, kids, object.__getattribute__(n, "origin"), key)


_BY_NAME = {c.__name__: c for c in ALL_CLASSES}


def build(spec, memo: dict | None = None) -> ASTNode:
    if memo is None:
        memo = {}
    if spec[0] == "ref":
        return memo[spec[1]]
    _, cname, props, kids, origin, key = spec
    kw = dict(props)
    for name, v in kids.items():
        if isinstance(v, list):
            kw[name] = tuple(build(c, memo) for c in v)
        else:
            kw[name] = None if v is None else build(v, memo)
    n = _BY_NAME[cname](origin=origin, **kw)
    memo[key] = n
    return n


def spec_positions(spec, path=()):
    """all (path, spec) of node specs, pre-order; path = tuple of (field, index|None)"""
    if spec[0] != "node":
        return
    yield path, spec
    for name, v in spec[3].items():
        if isinstance(v, list):
            for i, c in enumerate(v):
                yield from spec_positions(c, path + ((name, i),))
        elif v is not None:
            yield from spec_positions(v, path + ((name, None),))


def spec_replace(spec, path, new):
    if not path:
        return new
    (name, i), rest = path[0], path[1:]
    _, cname, props, kids, origin, key = spec
    kids = dict(kids)
    if i is None:
        kids[name] = spec_replace(kids[name], rest, new)
    else:
        lst = list(kids[name])
        lst[i] = spec_replace(lst[i], rest, new)
        kids[name] = lst
    return ("node", cname, props, kids, origin, key)


def val_eq(v, w) -> bool:
    """the statement's "equal values of equal types", structurally (bool is not int)"""
    if type(v) is not type(w):
        return False
    if isinstance(v, tuple):
        return len(v) == len(w) and all(val_eq(a, b) for a, b in zip(v, w))
    if isinstance(v, frozenset):
        if len(v) != len(w):
            return False
        rest = list(w)
        for a in v:
            for j, b in enumerate(rest):
                if val_eq(a, b):
                    del rest[j]
                    break
            else:
                return False
        return True
    return v == w


def spec_content_eq(a, b, ma=None, mb=None) -> bool:
    """the C01 statement evaluated on two specs (independent of pyoak)"""
    ma = {} if ma is None else ma
    mb = {} if mb is None else mb
    def res(s, m):
        if s[0] == "ref":
            return m[s[1]]
        m[s[5]] = s
        return s
    a, b = res(a, ma), res(b, mb)
    if a[1] != b[1]:
        return False
    cls = _BY_NAME[a[1]]
    for f in prop_fields(cls):
        if f.init and f.compare and not val_eq(a[2][f.name], b[2][f.name]):
            return False
    for name, coll in CHILD_FIELDS[cls]:
        x, y = a[3][name], b[3][name]
        if coll:
            if len(x) != len(y) or not all(spec_content_eq(c, d, ma, mb) for c, d in zip(x, y)):
                return False
        else:
            if (x is None) != (y is None):
                return False
            if x is not None and not spec_content_eq(x, y, ma, mb):
                return False
    return True


def stable_text(v, top=True) -> str:
    """the harness' own rendering of the text pyoak hashes for a property value: str(v), with
    frozenset elements (also inside tuples) listed in sorted order of their renderings"""
    if isinstance(v, frozenset) and v:
        return "frozenset({" + ", ".join(sorted(stable_text(x, False) for x in v)) + "})"
    if type(v) is tuple:
        items = [stable_text(x, False) for x in v]
        return "(" + ", ".join(items) + ("," if len(items) == 1 else "") + ")"
    return str(v) if top else repr(v)


# ---------------------------------------------------------------- special node models

# the combined class must meet its first base already specialised: instantiate the bases at import
for _b in (MLeft(), MRight()):
    # ... in ALL generated accessors (the constructor itself only uses two of them)
    list(_b.iter_child_fields()); list(_b.get_child_nodes()); list(_b.get_child_nodes_with_field()); list(_b.get_properties())
    list(_b.iter_child_fields(sort_keys=True)); list(_b.get_child_nodes(sort_keys=True)); list(_b.get_properties(sort_keys=True))
del _b


def same_name_classes():
    """two DIFFERENT node classes with the same module and qualified name (a class factory called twice; pyoak allows
    re-definition inside one module); the second has an extra comparable property and an extra child field"""
    def make(extra: bool):
        if extra:
            @dataclass(frozen=True)
            class Ident(Expr):
                v: int = 0
                w: int = 0
                k: Expr | None = None
        else:
            @dataclass(frozen=True)
            class Ident(Expr):
                v: int = 0
        return Ident
    return make(False), make(True)


class config_variation:
    """runs a block under a random setting of the library's behaviour-neutral configuration flags"""

    def __init__(self, rng: random.Random, p: float = 0.25):
        self.on = rng.random() < p

    def __enter__(self):
        import pyoak.config as c
        self.c, self.old = c, c.TRACE_LOGGING
        c.TRACE_LOGGING = self.on
        return self

    def __exit__(self, *a):
        self.c.TRACE_LOGGING = self.old
