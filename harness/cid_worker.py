"""Builds pickled tree specs in a fresh interpreter (other PYTHONHASHSEED) and prints the
content_id of every root as JSON: the cross-process half of the C01 correspondence."""
import json
import pickle
import sys

import zoo

specs = pickle.load(open(sys.argv[1], "rb"))
print(json.dumps([zoo.build(s).content_id for s in specs]))
