"""Tie by translation for the decision kernels.

REQUIRED (C07: `_match_node_element`; C12: loop body of `ASTNode.get_property_fields`): `pre_build` regenerates
lean/PyOak/Gen/Kernels.lean from the tree under examination (under the build lock); Props/GenBridge.lean proves the
hand-written model functions equal to the generated ones.  A translation failure keeps the last good file and is reported
as a broken tie; a build that fails on the generated file or on the bridge is a broken proof obligation: the last good
generated file is put back and the project is rebuilt, so that the correspondence (hand-written model = last proved
source, against the code as it is now) still runs and can produce the concrete failing input.

OPTIONAL (C07: `_match_node_xpath`, a recursive function with real control flow, which a harmless rewrite can easily move
out of the translated subset): lean/PyOak/Gen/KernelsXPath.lean + Props/GenBridgeXPath.lean are built separately (they are
not part of the default `lake build` target).  When they do not re-prove, C07 says so in its evidence and rests on the
correspondence between the hand-written model and the code, as for every other function.  Same policy for C02 (`_eq_fn`),
C01 (`ASTNode.is_equal`), C08 (the matcher classes of match/pattern.py) and C06 (`class Tree`: `__init__` and every query
method, translated by py2lean_t.py into Gen/KernelsTree.lean; bridge Props/GenBridgeTree.lean)."""
from __future__ import annotations

import re
import subprocess
from pathlib import Path

import py2lean_k
import py2lean_t
import py2lean_s
import py2lean_r
import py2lean_v
import py2lean_x

GEN_FILES = ("PyOak/Gen/Kernels.lean", "PyOak/Props/GenBridge.lean")
_state = {"target": None, "prev": None}

XPATH_MODULE = "PyOak.Props.GenBridgeXPath"
XPATH_THEOREMS = ["PyOak.GenBridge.foldr_first_ok", "PyOak.GenBridge.matchUpT_eq_gen", "PyOak.GenBridge.match_gen_eq_sat"]


def pre_build(repo: Path, lean: Path) -> list[str]:
    target = Path(lean) / "PyOak" / "Gen" / "Kernels.lean"
    _state["target"] = target
    _state["prev"] = target.read_text() if target.exists() else None
    try:
        text = py2lean_k.generate(Path(repo) / "src")
    except py2lean_k.Unsupported as e:
        return [f"translator:{e.where}: {e.why}"]
    except (SyntaxError, OSError) as e:
        return [f"translator: source not readable: {e}"]
    if _state["prev"] != text:
        target.write_text(text)
    return []


def restore_generated() -> None:
    """put back the last generated file that is KNOWN to build (`.good`, refreshed after every successful build),
    else the file that was there before this run"""
    t, prev = _state["target"], _state["prev"]
    if t is None:
        return
    good = t.with_name(t.name + ".good")
    text = good.read_text() if good.exists() else prev
    if text is not None and t.read_text() != text:
        t.write_text(text)


def build_ok(lean: Path) -> None:
    """called under the build lock after a successful build: remember the generated file as good"""
    t = Path(lean) / "PyOak" / "Gen" / "Kernels.lean"
    good = t.with_name(t.name + ".good")
    if t.exists() and (not good.exists() or good.read_text() != t.read_text()):
        good.write_text(t.read_text())


def build_failure_is_tie(txt: str) -> bool:
    """the build broke on the regenerated definitions or on a bridge theorem about them (and on nothing else)"""
    files = set(re.findall(r"error: (?:\./)?(\S+?\.lean):\d+", txt))
    return bool(files) and files <= set(GEN_FILES)


def _optional(repo: Path, lean: Path, file_name: str, gen, module: str, theorems: list[str], what: str) -> dict:
    """called under the build lock after the main build succeeded.  -> {"module", "theorems", "ok", "note"}"""
    target = Path(lean) / "PyOak" / "Gen" / file_name
    res = {"module": module, "theorems": list(theorems), "ok": False, "note": ""}
    try:
        text = gen(Path(repo) / "src")
    except py2lean_k.Unsupported as e:
        res["note"] = f"{what} is outside the translated subset ({e.where}: {e.why})"
        return res
    except (SyntaxError, OSError) as e:
        res["note"] = f"source not readable: {e}"
        return res
    if not target.exists() or target.read_text() != text:
        target.write_text(text)
    p = subprocess.run(["lake", "build", module], cwd=lean, capture_output=True, text=True)
    if p.returncode != 0:
        res["note"] = f"the bridge for the regenerated {what} does not re-prove:\n" + (p.stdout + p.stderr)[-1500:]
        return res
    res["ok"] = True
    return res


FINDALL_MODULE = "PyOak.Props.GenBridgeFindall"
FINDALL_THEOREMS = ["PyOak.GenBridgeFindall." + t for t in [
    "okOf_ofX", "gen_unfold", "key_ofX", "gIns_ofX", "gUnwrap_ofX", "gUnwrap_dummy", "inner_eq_gen",
    # one round of the work list = findStep / findFirst; the whole function = findall (every tree, every element list)
    "findStep_eq_gen", "findFirst_eq_gen", "rounds_eq_gen", "findall_eq_gen", "findall_nil_eq_gen"]]
XPATH_ALL_MODULE = "PyOak.Props.GenBridgeXPathAll"


def optional_xpath_match(repo: Path, lean: Path) -> dict:
    """C07: `_match_node_xpath`"""
    return _optional(repo, lean, "KernelsXPath.lean", py2lean_k.generate_xpath, XPATH_MODULE, XPATH_THEOREMS, "_match_node_xpath")


def optional_findall(repo: Path, lean: Path) -> dict:
    """C07: `ASTXpath.findall` (translated by py2lean_x.py)"""
    return _optional(repo, lean, "KernelsFindall.lean", py2lean_x.generate_findall, FINDALL_MODULE, FINDALL_THEOREMS,
                     "ASTXpath.findall")


def optional_obligation(repo: Path, lean: Path) -> dict:
    """C07 carries ONE optional obligation: both bridges (bottom-up matcher, top-down search) are regenerated and rebuilt;
    it is re-proved when both are (the aggregate module lets one axiom audit see the theorems of both)"""
    a = optional_xpath_match(repo, lean)
    b = optional_findall(repo, lean)
    res = {"module": XPATH_ALL_MODULE, "theorems": a["theorems"] + b["theorems"], "ok": a["ok"] and b["ok"],
           "note": "\n".join(r["note"] for r in (a, b) if not r["ok"])}
    if res["ok"]:
        p = subprocess.run(["lake", "build", XPATH_ALL_MODULE], cwd=lean, capture_output=True, text=True)
        if p.returncode != 0:
            res["ok"], res["note"] = False, "the aggregate of the two bridges does not build:\n" + (p.stdout + p.stderr)[-800:]
    return res


EQ_MODULE = "PyOak.Props.GenBridgeEq"
EQ_THEOREMS = ["PyOak.GenBridge.zipOrigins_eq_gen", "PyOak.GenBridge.eqImpl_eq_gen"]


def optional_eq(repo: Path, lean: Path) -> dict:
    """C02: `_eq_fn`"""
    return _optional(repo, lean, "KernelsEq.lean", py2lean_k.generate_eq, EQ_MODULE, EQ_THEOREMS, "_eq_fn")


ISEQ_MODULE = "PyOak.Props.GenBridgeIsEq"
ISEQ_THEOREMS = ["PyOak.GenBridge.isEqual_eq_gen"]


def optional_is_equal(repo: Path, lean: Path) -> dict:
    """C01: `ASTNode.is_equal` (needs KernelsEq.lean for nothing but the namespace prelude; regenerated alongside)"""
    r = _optional(repo, lean, "KernelsEq.lean", py2lean_k.generate_eq, EQ_MODULE, [], "_eq_fn")
    res = _optional(repo, lean, "KernelsIsEq.lean", py2lean_k.generate_is_equal, ISEQ_MODULE, ISEQ_THEOREMS, "ASTNode.is_equal")
    if res["ok"] is False and not res["note"] and not r["ok"]:
        res["note"] = r["note"]
    return res


MATCH_MODULE = "PyOak.Props.GenBridgeMatch"
MATCH_THEOREMS = ["PyOak.GenBridge.wrap_eq_gen", "PyOak.GenBridge.core_leaf_eq_gen", "PyOak.GenBridge.core_seq_eq_gen",
                  "PyOak.GenBridge.core_node_eq_gen", "PyOak.GenBridge.runZip_eq_gen", "PyOak.GenBridge.content_eq_gen",
                  "PyOak.GenBridge.run_eq_gen", "PyOak.GenBridge.matchNode_eq_gen", "PyOak.GenBridge.gen_eq_spec",
                  "PyOak.GenBridge.gen_match_iff"]


def optional_match(repo: Path, lean: Path) -> dict:
    """C08: `BaseMatcher.match` + the `_match` methods of the six matcher classes (src/pyoak/match/pattern.py)"""
    return _optional(repo, lean, "KernelsMatch.lean", py2lean_k.generate_match, MATCH_MODULE, MATCH_THEOREMS,
                     "BaseMatcher.match / _match methods")


TREE_MODULE = "PyOak.Props.GenBridgeTree"
TREE_THEOREMS = ["PyOak.GenBridgeTree." + t for t in [
    # on every table
    "isRoot_eq_gen", "isInTree_eq_gen", "getXpath_eq_gen", "getParentInfo_eq_gen", "getParent_eq_gen", "initStep_eq_gen",
    # on every table, for every node whose upward walk ends within the fuel (`Slack`)
    "ancestorsAux_eq_gen", "getAncestors_eq_gen", "isAncestor_eq_gen", "firstAncestorOfType_eq_gen", "depthAux_eq_gen",
    "getDepth_eq_gen",
    # on the tables of Tree(root), NoRepeat root: every node has slack
    "slack_build", "getAncestors_build_eq_gen", "isAncestor_build_eq_gen", "firstAncestorOfType_build_eq_gen",
    "getDepth_build_eq_gen", "build_no_outOfFuel", "init_eq_gen",
    # the hypothesis is needed (decide-checked witnesses on tables no Tree(root) produces)
    "Demo.getAncestors_eq_gen_needs_slack_fails", "Demo.isAncestor_eq_gen_needs_slack_fails"]]


def optional_tree(repo: Path, lean: Path) -> dict:
    """C06: `class Tree` (src/pyoak/tree.py) -- `__init__` and every undecorated method"""
    return _optional(repo, lean, "KernelsTree.lean", py2lean_t.generate_tree, TREE_MODULE, TREE_THEOREMS, "class Tree (pyoak/tree.py)")


TRAVERSE_MODULE = "PyOak.Props.GenBridgeTraverse"
TRAVERSE_THEOREMS = ["PyOak.GenBridgeTraverse." + t for t in [
    "ofInfo_toInfo", "dfs_loop_2_drain", "dfs_loop_eq", "bfs_loop_eq",
    # generated = model, for Optional callbacks on NodeTraversalInfo (None included), fuel n.size on both sides
    "dfs_gen_eq", "bfs_gen_eq", "gather_gen_eq",
    # the same read from the model's side: arbitrary predicates on Item
    "dfsImpl_eq_gen", "bfsImpl_eq_gen", "gatherImpl_eq_gen", "dfs_defaults_eq_gen"]]


def optional_traverse(repo: Path, lean: Path) -> dict:
    """C05: `ASTNode.dfs`, `ASTNode.bfs`, `ASTNode.gather` (src/pyoak/node.py)"""
    return _optional(repo, lean, "KernelsTraverse.lean", py2lean_v.generate_traverse, TRAVERSE_MODULE, TRAVERSE_THEOREMS,
                     "ASTNode.dfs / bfs / gather (pyoak/node.py)")


REGISTRY_MODULE = "PyOak.Props.GenBridgeRegistry"
REGISTRY_THEOREMS = ["PyOak.GenBridgeRegistry." + t for t in [
    # the dict primitives of the model are the primitives of the prelude
    "regGet_eq_gen", "regDel_eq_gen", "regSet_eq_gen", "suffixed_eq_gen",
    # `_get_next_unique_id`: the loop, the fuel `reg.length + 2` (and every larger one), no OutOfFuel
    "nextUniqueFrom_eq_gen", "loop_fuel_mono", "freshId_eq_gen", "freshId_eq_gen_of_le", "nextUnique_no_outOfFuel",
    # lookups
    "getAny_eq_gen", "getAny_eq_gen_none", "get_eq_gen", "get_eq_gen_none",
    # detach_self / detach, on every state, and read off `RState.step`
    "detachSelf_eq_gen", "detach_eq_gen", "step_detach_eq_gen", "step_detachSelf_eq_gen"]]


def optional_registry(repo: Path, lean: Path) -> dict:
    """C03: `_get_next_unique_id`, `ASTNode.get_any`, `ASTNode.get`, `ASTNode.detach_self`, `ASTNode.detach` (src/pyoak/node.py)"""
    return _optional(repo, lean, "KernelsRegistry.lean", py2lean_r.generate_registry, REGISTRY_MODULE, REGISTRY_THEOREMS,
                     "registry functions of node.py (_get_next_unique_id / get_any / get / detach_self / detach)")


LEGACY_XPATH_MODULE = "PyOak.Props.GenBridgeLegacyXPath"
LEGACY_XPATH_THEOREMS = ["PyOak.GenBridgeLX." + t for t in [
    "elem_test", "anyAnc_any", "lmatchH_eq_gen", "lxmatchH_eq_gen", "lmatchElemH_eq_gen", "legacy_gen_eq_sat",
    "legacy_gen_eq_sat_detached", "legacy_gen_run", "lmatch_eq_gen_chain"]]


def optional_legacy_xpath(repo: Path, lean: Path) -> dict:
    """C20: `_match_node_xpath` of src/pyoak/legacy/match/xpath.py (idiom table: py2lean_k.LEGACY_IDIOMS)"""
    return _optional(repo, lean, "KernelsLegacyXPath.lean", py2lean_k.generate_legacy_xpath, LEGACY_XPATH_MODULE,
                     LEGACY_XPATH_THEOREMS, "legacy _match_node_xpath")


SEROPTS_MODULE = "PyOak.Props.GenBridgeSerOpts"
SEROPTS_THEOREMS = ["PyOak.GenBridgeSerOpts." + t for t in [
    # about the generated functions alone: every dict primitive, body, state, arguments
    "reset_after_gen_dict", "reset_after_gen_obj", "outcome_gen_dict", "outcome_gen_obj",
    # model (`enter; tryFin body resetM`, `callF`) = generated, for every body / hook, state, options, dialect
    "enter_eq_entered", "as_dict_eq_gen_body", "as_obj_eq_gen_body", "as_dict_eq_gen", "as_obj_eq_gen",
    # `reset_afterF` derived from the generated code
    "reset_after_gen"]]


def optional_seropts(repo: Path, lean: Path) -> dict:
    """C16: `DataClassSerializeMixin.as_dict` / `as_obj` (src/pyoak/serialize.py): the slot writes and the try/finally"""
    return _optional(repo, lean, "KernelsSerOpts.lean", py2lean_s.generate_seropts, SEROPTS_MODULE, SEROPTS_THEOREMS,
                     "DataClassSerializeMixin.as_dict / as_obj (pyoak/serialize.py)")
