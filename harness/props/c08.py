"""C08 — pattern matching: NodeMatcher.from_pattern(text)[0].match(node) and
MultiPatternMatcher(defs).match(node, rules) of the real code vs. the Lean model (which
Props/C08.lean proves equal to the documented semantics), each case observed under three
histories (cold cache, after other patterns were compiled, warm cache; shuffled order)."""
from __future__ import annotations

import dataclasses
import random
from pathlib import Path

import pyoak.match.pattern as pm
from pyoak.match.error import ASTPatternDefinitionError
from pyoak.match.pattern import MultiPatternMatcher, NodeMatcher
from pyoak.node import ASTNode
from pyoak.origin import NO_ORIGIN, CodeOrigin, get_code_range

from proto import A, dumps
from run import Case
import zoo
import zoo_c08
from kernels_tie import optional_match as optional_obligation  # noqa: F401  (`BaseMatcher.match` + every `_match` regenerated from pattern.py: optional bridge)

PROPERTY = "C08"
LEAN_MODULE = "PyOak.Props.C08All"
THEOREMS = ["PyOak.C08." + t for t in [
    "run_eq_spec", "match_eq_spec", "match_iff", "fail_empty", "no_unbound", "caps_nodup", "captures_exact",
    "multi_eq_spec", "multi_first", "setName_keeps_tail", "tail_length_exact",
    "pat_ok", "fields_ok", "fspec_ok", "items_ok", "val_ok", "setName_spec", "pat_total", "pat_seen", "pat_keys", "pat_perm",
]]
# Props/C08Rel.lean, Props/C08Captures.lean (after AUDIT.md): the inductive relation `Matches` (Spec/PatternRel.lean)
# = the functional spec = the matcher graph; general capture exactness; MultiPatternMatcher.__init__ as a model
# definition (Model/PatternMulti.lean, called by the handler) with the table hypothesis of multi_eq_spec derived;
# content equality for `$x` on nodes through C01.isEqual_iff
THEOREMS += ["PyOak.C08." + t for t in [
    "matches_iff", "matches_unique", "no_match_iff", "match_iff_matches", "nomatch_iff_matches",
    "cap_field", "cap_item", "cap_tail", "caps_inner_field", "caps_inner_item", "lookup_of_mem", "capture_lookup",
    "caps_are_parts",
    "hasDup_false_iff", "multiInit_some_iff", "multiInit_none_iff", "multiInit_htbl", "multi_text_eq_spec",
    "multiRun_first", "var_node_contentEq",
]]
RULE = ("patterns derived from the target node (class alternatives incl. super/other classes and '*', 0-4 field "
        "specs over property / single / optional / tuple child fields, nested patterns to depth 3, bracketed "
        "sequences with 0..len+1 items with and without '*' tail, captures on fields / items / tails / nested "
        "patterns, $variables referring to earlier captures incl. content-equal twins with different origins, "
        "regexes from a sub-language spelled from str(value): prefix, full+$, literal occurring only after the start, "
        ".*, x*) with random white space, ~12% deliberate deviations (wrong class, wrong length, unknown field, "
        "duplicate capture, unbound variable); every case is observed cold / after unrelated compilations / "
        "cached, in shuffled order; plus white-space histories: string subjects and regexes with white-space runs "
        "(one vs two blanks, tabs, form feeds), patterns that differ ONLY by a white-space run inside a quoted regex "
        "(must behave differently) mixed with re-spacings BETWEEN tokens of the same token sequence (must behave "
        "identically), compiled back to back in both orders from a cold cache and again warm, each single observation "
        "compared with the model, also through MultiPatternMatcher; the empty bracketed sequence `[]` (plain, captured, before a later "
        "MultiPatternMatcher rule) against "", b"", (), None, non-empty str / bytes / tuples, absent children; a share of "
        "all batches runs with the library loggers at DEBUG and / or pyoak.config.TRACE_LOGGING (outcomes must not "
        "change); non-trivial = the pattern is accepted and has "
        ">= 1 field spec; distinct by (text, tree, node)")
TRUSTED = ["lark LALR engine + contextual lexer re-modelled by a scanner-less recursive-descent parser",
           "re: modelled as a parameter; in the correspondence instantiated by a matcher for the generated sub-language "
           "(literals, '.', '\\d', escaped punctuation, 'x*', '$')",
           "content equality of nodes = content_id equality (digest model of C01); == on property values re-implemented "
           "for int/bool/str/None/enum/tuple/frozenset, other kinds compared by (type, str) text"]
ASSUMPTIONS = ["don't-care points excluded from generation: NON-EMPTY bracketed sequence against str values, regex against "
               "node- or tuple-valued fields, float compared with non-float by $var, unknown names in `rules`, "
               "attribute names that are not dataclass fields of the node"]
BUDGET = {"quick": 240, "thorough": 2400}

CLASSES = [c.__name__ for c in zoo.ALL_CLASSES] + ["ASTNode"]
NONNODE = ["CodeOrigin", "Source", "MemoryTextSource", "NoOrigin"]
CAP_NAMES = ["a", "b", "c", "x", "y", "z", "ab", "a_b", "_a", "v", "w", "it", "rest", "tail", "k_", "q", "r", "s"]
CAP_NAMES = [c for c in CAP_NAMES if c[-1].isalpha()]
RX_SPECIAL = set(".^$*+?{}[]\\|()")


def ws(rng):
    return rng.choice(["", "", "", "", " ", "  ", "\t", "\n", " \r\n", "\f"])


# ------------------------------------------------------------------ regexes from the sub-language

def rx_lit(s: str) -> str | None:
    """regex text (as written between the quotes of the pattern) matching `s` literally; None when `s`
    holds a character that cannot be written inside an ESCAPED_STRING of the sub-language"""
    out = []
    for ch in s:
        if ch == "\n":
            return None
        if ch in RX_SPECIAL:
            out.append("\\" + ch)
        elif ch == '"':
            out.append('\\"')
        else:
            out.append(ch)
    return "".join(out)


def gen_regex(rng, subject: str) -> str:
    s = subject.split("\n")[0]          # literals never cross a newline
    k = rng.random()
    if k < 0.22:                        # a prefix
        r = rx_lit(s[: rng.randint(0, len(s))])
    elif k < 0.37:                      # whole text, anchored
        r = rx_lit(s) + "$"
    elif k < 0.47 and len(s) >= 2:      # proper prefix, anchored (fails: match is not fullmatch)
        r = rx_lit(s[: rng.randint(0, len(s) - 1)]) + "$"
    elif k < 0.65 and len(s) >= 2:      # a literal that occurs only after the start (match vs search)
        i = rng.randint(1, len(s) - 1)
        j = rng.randint(i + 1, len(s))
        r = rx_lit(s[i:j])
    elif k < 0.75 and len(s) >= 2:      # .* then a later literal
        i = rng.randint(1, len(s) - 1)
        r = ".*" + rx_lit(s[i:])
        if rng.random() < 0.5:
            r += "$"
    elif k < 0.85 and len(s) >= 1:      # x* and . forms
        parts = []
        for ch in s[: rng.randint(1, min(len(s), 5))]:
            q = rng.random()
            if q < 0.3:
                parts.append(".")
            elif q < 0.5:
                parts.append(rx_lit(ch) + "*")
            elif q < 0.6 and ch.isdigit():
                parts.append("\\d" + rng.choice(["", "*"]))
            else:
                parts.append(rx_lit(ch))
        r = "".join(parts) + rng.choice(["", ".*", ".*$"])
    elif k < 0.92:
        r = rng.choice(["zz", "x", "1", "None", "T", "a*b", ".", ".*", "$", "\\d", "\\d*$", "-\\d"])
    else:
        r = rx_lit(s) + rng.choice(["x", ".", "a*", ".*x"])
    return r


# ------------------------------------------------------------------ helpers on real values

def fields_of(n: ASTNode) -> list[str]:
    cls = type(n)
    return [f.name for f in zoo.prop_fields(cls)] + [name for name, _ in zoo.CHILD_FIELDS[cls]]


def fval(n: ASTNode, name: str):
    return object.__getattribute__(n, name)


def has_float(v) -> bool:
    if isinstance(v, float):
        return True
    if isinstance(v, (tuple, frozenset)):
        return any(has_float(x) for x in v)
    return False


def var_dont_care(a, b) -> bool:
    """float against non-float (0.0 == 0) is outside the value model"""
    if has_float(a) or has_float(b):
        return not (isinstance(a, float) and isinstance(b, float))
    return False


def looks_equal(a, b) -> bool:
    if isinstance(a, ASTNode) and isinstance(b, ASTNode):
        return zoo.spec_content_eq(zoo.to_spec(a), zoo.to_spec(b))
    if isinstance(a, ASTNode) or isinstance(b, ASTNode):
        return False
    try:
        return type(a) is type(b) and repr(a) == repr(b)
    except Exception:  # noqa
        return False


def regex_ok_subject(v) -> bool:
    """regex only against values whose str() the tree encoding carries: not nodes, not tuples"""
    if isinstance(v, (ASTNode, tuple)):
        return False
    return str(v) == zoo.stable_text(v)


# ------------------------------------------------------------------ pattern generation (AST + rendering)

class PGen:
    """derives a pattern AST from a node; keeps the captures made so far (text order)"""

    def __init__(self, rng: random.Random, deviate: float = 0.12):
        self.rng = rng
        self.caps: list[tuple[str, object]] = []
        self.kinds: dict[str, str] = {}
        self.deviate = deviate
        self.skip = False           # set when a don't-care comparison was generated

    def dev(self) -> bool:
        return self.rng.random() < self.deviate

    def new_cap(self, value, kind: str, p: float) -> str | None:
        r = self.rng
        if r.random() >= p:
            return None
        used = {c for c, _ in self.caps}
        free = [c for c in CAP_NAMES if c not in used]
        if not free or (used and r.random() < 0.02):
            name = r.choice(sorted(used)) if used else "a"      # duplicate capture name (rejected)
        else:
            name = r.choice(free)
        self.caps.append((name, value))
        self.kinds.setdefault(name, kind)
        return name

    def var_for(self, value):
        """('var', name) referring to an earlier capture, preferably one that will compare equal"""
        r = self.rng
        if not self.caps:
            return None
        eq = [c for c in self.caps if looks_equal(c[1], value)]
        name, cv = r.choice(eq) if (eq and r.random() < 0.7) else r.choice(self.caps)
        if var_dont_care(cv, value):
            self.skip = True
        return ("var", name)

    def cls_spec(self, n: ASTNode):
        r = self.rng
        mro = [c.__name__ for c in type(n).__mro__ if c.__name__ in CLASSES]
        k = r.random()
        if k < 0.15:
            return None
        if k < 0.93 and not self.dev():
            names = [r.choice(mro) if r.random() < 0.7 else type(n).__name__]
            for _ in range(r.choice([0, 0, 0, 1, 1, 2])):
                names.insert(r.randrange(len(names) + 1), r.choice(CLASSES))
            return names
        others = [c for c in CLASSES if c not in mro] or CLASSES
        k = r.random()
        if k < 0.1:
            return [r.choice(["Nope", "leaf", "CodeOrigin", "Source"])]
        return [r.choice(others) for _ in range(r.choice([1, 1, 2]))]

    def pat(self, n: ASTNode, depth: int):
        r = self.rng
        cls = self.cls_spec(n)
        names = fields_of(n)
        nf = r.choice([0, 1, 1, 2, 2, 3, 4]) if names else 0
        chosen = [r.choice(names) for _ in range(nf)] if r.random() < 0.3 else r.sample(names, min(nf, len(names)))
        fields = [self.field(n, f, depth) for f in chosen]
        if r.random() < 0.04:
            fields.insert(r.randrange(len(fields) + 1), (r.choice(["nosuch", "zz", "Items"]), None, None))
        return ("pat", cls, fields)

    def value_for(self, v, depth: int, elem: bool = False):
        """a `value` (tree | var | None | string) meant for the object v (elem: v is a tuple element)"""
        r = self.rng
        if elem and isinstance(v, (frozenset, tuple)):
            return ("none",)            # str() of nested containers is not carried by the encoding
        k = r.random()
        if k < 0.14:
            vv = self.var_for(v)
            if vv is not None:
                return vv
        if self.dev():
            if isinstance(v, (ASTNode, tuple)):
                return r.choice([("none",), ("tree", ("pat", [r.choice(CLASSES)], []))])
            return r.choice([("none",), ("re", "zz"), ("tree", ("pat", [r.choice(CLASSES)], []))])
        if isinstance(v, ASTNode):
            if depth >= 3:
                return ("tree", ("pat", None if r.random() < 0.5 else [type(v).__name__], []))
            return ("tree", self.pat(v, depth + 1))
        if v is None:
            return ("none",) if r.random() < 0.75 else ("re", gen_regex(r, "None"))
        if isinstance(v, tuple):
            return ("none",)            # a value spec cannot describe a tuple (regex vs tuple: don't care)
        if regex_ok_subject(v):
            return ("re", gen_regex(r, str(v)))
        return ("none",)

    def seq_for(self, xs: tuple, depth: int):
        r = self.rng
        k = len(xs)
        q = r.random()
        if q < 0.45:
            m = k
        elif q < 0.6:
            m = k - 1
        elif q < 0.75:
            m = k + 1
        elif q < 0.85:
            m = 0
        else:
            m = r.randint(0, k + 1)
        m = max(0, m)
        if m > 5:
            m = r.randint(0, 4)
        tq = r.random()
        tail_on = tq < (0.5 if m != k else 0.35)
        items = []
        for i in range(m):
            src = xs[i] if i < k else (r.choice(xs) if xs else None)
            if i >= k and src is None:
                v = ("tree", ("pat", None, []))
            elif isinstance(src, tuple):
                v = ("none",)
            else:
                v = self.value_for(src, depth, elem=True)
            cap = self.new_cap(src if i < k else None, "item", 0.25)
            items.append((v, cap))
        tail = None
        if tail_on:
            tail = ("tail", self.new_cap(tuple(xs[m:]), "tail", 0.5))
        return ("seq", items, tail)

    def field(self, n: ASTNode, name: str, depth: int):
        r = self.rng
        v = fval(n, name)
        k = r.random()
        if k < 0.12:
            return (name, None, self.new_cap(v, "field", 0.6))
        if isinstance(v, tuple):
            if k < 0.2:
                vv = self.var_for(v)
                spec = ("val", vv) if vv is not None else ("seq", [], None)
            elif k < 0.25:
                spec = ("val", ("none",))
            else:
                spec = self.seq_for(v, depth)
        elif isinstance(v, str):
            if k < 0.2:
                spec = ("seq", [], None)    # `[]` matches only the empty tuple, not "" (nor any other str)
            else:
                spec = ("val", self.value_for(v, depth))
        else:
            if k < 0.17 and not isinstance(v, ASTNode):
                # a bracketed sequence against a non-sequence value (never matches)
                spec = ("seq", [(("none",), None)] if r.random() < 0.5 else [], ("tail", None) if r.random() < 0.5 else None)
            else:
                spec = ("val", self.value_for(v, depth))
        return (name, spec, self.new_cap(v, "field", 0.3))


def tokens_of(p) -> list[str]:
    out: list[str] = []

    def value(v):
        if v[0] == "tree":
            pat(v[1])
        elif v[0] == "var":
            out.extend(["$", v[1]])
        elif v[0] == "none":
            out.append("None")
        else:
            out.append('"' + v[1] + '"')

    def cap(c):
        if c is not None:
            out.extend(["->", c])

    def pat(p):
        _, cls, fields = p
        out.append("(")
        if cls is None:
            out.append("*")
        else:
            for i, c in enumerate(cls):
                if i:
                    out.append("|")
                out.append(c)
        for name, spec, c in fields:
            out.extend(["@", name])
            if spec is not None:
                out.append("=")
                if spec[0] == "val":
                    value(spec[1])
                else:
                    out.append("[")
                    for v, ic in spec[1]:
                        value(v)
                        cap(ic)
                    if spec[2] is not None:
                        out.append("*")
                        cap(spec[2][1])
                    out.append("]")
            cap(c)
        out.append(")")

    pat(p)
    return out


def render(rng, toks: list[str], spaced: bool = True) -> str:
    if not spaced:
        return "".join(toks)
    out = ""
    for i, t in enumerate(toks):
        out += (ws(rng) if i else "") + t
    return out + ws(rng)


# ------------------------------------------------------------------ trees with twins

_SRC2 = zoo.MemoryTextSource("other text for twins", source_uri="twin")


def retwin(rng, spec):
    """the same content under different origins"""
    if spec[0] == "ref":
        return spec
    _, cname, props, kids, origin, key = spec
    nk = {}
    for name, v in kids.items():
        if isinstance(v, list):
            nk[name] = [retwin(rng, c) for c in v]
        else:
            nk[name] = None if v is None else retwin(rng, v)
    a = rng.randint(0, 5)
    org = CodeOrigin(_SRC2, get_code_range(a, 1, a, a + 2, 1, a + 2)) if rng.random() < 0.8 else NO_ORIGIN
    return ("node", cname, props, nk, org, key)


def gen_tree(rng) -> ASTNode:
    g = zoo.Gen(rng, origins=True, share=0.05, long_tuples=rng.random() < 0.3)
    root = g.tree(rng.choice([1, 3, 6, 10, 20, 30]))
    k = rng.random()
    if k < 0.45:
        return root
    # put a content-equal twin (different origins) and an unrelated tree next to a subtree
    subs = [root] + [c for (c, p, f, i) in zoo.positions(root)]
    x = rng.choice(subs[:8])
    twin = zoo.build(retwin(rng, zoo.to_spec(x)))
    other = g.tree(3)
    k = rng.random()
    if k < 0.3:
        return zoo.Bin(x, twin, origin=g.origin())
    if k < 0.55:
        items = [x, twin, other]
        rng.shuffle(items)
        return zoo.Tup(tuple(items), origin=g.origin())
    if k < 0.8:
        return zoo.Mixed(x, (twin, other, x) if rng.random() < 0.5 else (other, twin), twin if rng.random() < 0.5 else None,
                         name=zoo.gen_str(rng), origin=g.origin())
    return zoo.Bin(zoo.Tup((x, other), origin=g.origin()), zoo.Tup((twin, other), origin=g.origin()), origin=g.origin())


# ------------------------------------------------------------------ observation of the real code

def obj(toks, v):
    if isinstance(v, ASTNode):
        return [A("n"), toks.tok(v)]
    if isinstance(v, tuple):
        return [A("t")] + [obj(toks, x) for x in v]
    if v is None:
        return A("none")
    return [A("v"), zoo.enc_val(v)]


def caps_sx(toks, caps):
    return [[k, obj(toks, caps[k])] for k in sorted(caps)]


def obs_match(text, node, toks):
    m, _ = NodeMatcher.from_pattern(text)
    if m is None:
        return dumps([A("raise"), A("ASTPatternDefinitionError")]), None
    try:
        ok, caps = m.match(node)
    except ASTPatternDefinitionError:
        return dumps([A("raise"), A("ASTPatternDefinitionError")]), None
    except Exception as e:  # noqa
        return dumps([A("raise"), A(type(e).__name__)]), None
    return dumps([A("ok"), bool(ok), caps_sx(toks, caps)]), (ok, caps)


def obs_multi(defs, order, node, toks):
    try:
        mm = MultiPatternMatcher(defs)
    except ASTPatternDefinitionError:
        return dumps([A("raise"), A("ASTPatternDefinitionError")]), None
    except Exception as e:  # noqa
        return dumps([A("raise"), A(type(e).__name__)]), None
    try:
        res = mm.match(node, order)
    except ASTPatternDefinitionError:
        return dumps([A("raise"), A("ASTPatternDefinitionError")]), None
    except Exception as e:  # noqa
        return dumps([A("raise"), A(type(e).__name__)]), None
    if res is None:
        return dumps([A("ok"), A("none")]), None
    return dumps([A("ok"), res[0], caps_sx(toks, res[1])]), (True, res[1])


def tree_objects(root):
    """ids of every field value and tuple element reachable in the tree (the harness' own walk)"""
    ids = set()
    tuples = set()
    for n in [root] + [c for (c, p, f, i) in zoo.positions(root)]:
        for name in fields_of(n):
            v = fval(n, name)
            ids.add(id(v))
            if isinstance(v, tuple):
                tuples.add(id(v))
                for x in v:
                    ids.add(id(x))
    ids.add(id(root))
    return ids, tuples


def identity_oracle(caps, kinds, ids, tuples):
    """captures are the very objects: a field capture is the field's value object, an item capture the
    element object; a tail capture is a tuple of element objects"""
    for k, v in caps.items():
        kind = kinds.get(k)
        if kind == "tail":
            if not isinstance(v, tuple) or any(id(x) not in ids for x in v):
                return f"tail capture {k} is not a tuple of the remaining element objects"
        elif isinstance(v, tuple):
            if kind == "field" and id(v) not in tuples:
                return f"capture {k} is not the field's tuple object"
        elif id(v) not in ids:
            return f"capture {k} is not an object of the matched tree"
    return None


# ------------------------------------------------------------------ cases

N_OK = 0
N_TRUE = 0


def extra_coverage():
    return {"accepted_patterns": N_OK, "successful_matches": N_TRUE}


def _unrelated(rng):
    return rng.choice(["(Leaf @v)", "(* @items=[* -> zz])", "(Bin @left -> q @right)", "(Tup @items=[(*) *])",
                       "(Un @arg -> w)", "(Leaf @s -> v @v)", "(Mixed @a @z -> it @items)"])


def regex_dont_care(p, v) -> bool:
    """does matching pattern AST `p` against object `v` put a quoted regex against a node- or tuple-valued field / element
    (a don't-care point of C08: the statement defines regexes on str(value) of property values)?  Only positions the
    matcher can reach are looked at (nested patterns are followed into the objects they are matched against)."""
    if not isinstance(v, ASTNode):
        return False
    _, _cls, fields = p
    for name, spec, _cap in fields:
        if spec is None or not hasattr(v, name):
            continue
        x = getattr(v, name)
        if spec[0] == "val":
            val = spec[1]
            if val[0] == "re" and isinstance(x, (ASTNode, tuple)):
                return True
            if val[0] == "tree" and regex_dont_care(val[1], x):
                return True
        else:
            items = spec[1]
            if isinstance(x, tuple):
                for (val, _ic), e in zip(items, x):
                    if val[0] == "re" and isinstance(e, (ASTNode, tuple)):
                        return True
                    if val[0] == "tree" and regex_dont_care(val[1], e):
                        return True
    return False


def batch(rng, tier):
    """one tree, several (pattern, node) and multi cases, observed under three histories"""
    global N_OK, N_TRUE
    root = gen_tree(rng)
    toks = zoo.Tokens()
    orgs = zoo.OrgTable()
    tree = zoo.enc_tree(root, toks, orgs)
    env = [zoo.class_table(), orgs.sexp(), [A("nonnode")] + NONNODE, [A("tree"), tree]]
    nodes = [root] + [c for (c, p, f, i) in zoo.positions(root)]
    ids, tuples = tree_objects(root)
    desc = zoo.show(root)
    todo = []
    for _ in range(10 if tier == "quick" else 12):
        g = PGen(rng)
        node = root if rng.random() < 0.6 else rng.choice(nodes)
        src = node if rng.random() < 0.93 else rng.choice(nodes)
        p = g.pat(src, 1)
        if g.skip or (src is not node and regex_dont_care(p, node)):
            continue
        text = render(rng, tokens_of(p), spaced=rng.random() < 0.8)
        line = dumps([A("pmatch")] + env + [[A("text"), text], [A("node"), toks.tok(node)]])
        todo.append(("pmatch", line, (text, node), g.kinds, bool(p[2]),
                     f"pattern={text!r} node=#{toks.tok(node)} tree={desc}"))
    for _ in range(2):
        defs = []
        kinds: dict[str, str] = {}
        skip = False
        node = root if rng.random() < 0.6 else rng.choice(nodes)
        for j in range(rng.choice([1, 2, 3, 4])):
            g = PGen(rng, deviate=0.3)
            src = node if rng.random() < 0.8 else rng.choice(nodes)
            p = g.pat(src, 2)
            skip = skip or g.skip or (src is not node and regex_dont_care(p, node))
            for k, v in g.kinds.items():
                if kinds.setdefault(k, v) != v:
                    kinds[k] = "mixed"
            defs.append((f"r{j}" if rng.random() < 0.97 else "r0", render(rng, tokens_of(p))))
        if skip:
            continue
        names = [d[0] for d in defs]
        k = rng.random()
        if k < 0.5 or len(set(names)) != len(names):
            order = None
        else:
            order = rng.sample(names, rng.randint(1, len(names)))
        req = [A("pmulti")] + env + [[A("rules")] + [[n, t] for n, t in defs]]
        if order is not None:
            req.append([A("order")] + order)
        req.append([A("node"), toks.tok(node)])
        todo.append(("pmulti", dumps(req), (defs, order, node), kinds, True,
                     f"defs={defs!r} rules={order!r} node=#{toks.tok(node)} tree={desc}"))

    def observe(item):
        kind, _, arg, _, _, _ = item
        if kind == "pmatch":
            return obs_match(arg[0], arg[1], toks)
        return obs_multi(arg[0], arg[1], arg[2], toks)

    cfg = zoo_c08.pick_config(rng)
    with zoo_c08.configured(cfg):
        # history 1: cold cache before every case
        first = []
        for it in todo:
            pm._MATCHER_CACHE.clear()
            first.append(observe(it))
        # history 2: shuffled, each case after other (unrelated and related) patterns were compiled
        pm._MATCHER_CACHE.clear()
        order2 = list(range(len(todo)))
        rng.shuffle(order2)
        second = {}
        for i in order2:
            NodeMatcher.from_pattern(_unrelated(rng))
            second[i] = observe(todo[i])[0]
        # history 3: shuffled again, everything cached
        rng.shuffle(order2)
        third = {}
        for i in order2:
            third[i] = observe(todo[i])[0]

    for i, it in enumerate(todo):
        kind, line, arg, kinds, nontriv, d = it
        real, res = first[i]
        oracle = None
        sig = f"{kind}|model"
        if second[i] != real or third[i] != real:
            oracle = (f"result depends on history: cold={real} after-other-compilations={second[i]} cached={third[i]}")
            sig = f"{kind}|history"
        elif res is not None and res[0]:
            oracle = identity_oracle(res[1], kinds, ids, tuples)
            if oracle:
                sig = f"{kind}|identity"
        accepted = real.startswith("(ok")
        if accepted:
            N_OK += 1
        if res is not None and res[0]:
            N_TRUE += 1
        yield Case(kind if accepted else kind + "_reject", line, real, accepted and nontriv,
                   d + ("" if cfg == "plain" else f" [config: {cfg}]"), oracle_fail=oracle, sig=sig)


FIXED = [
    # (pattern, tree builder) — the reproductions of F7 / F8 / F9 and the statement's own examples
    ("(Tup @items=[(Leaf) (Leaf) *])", lambda: zoo.Tup((zoo.Leaf(v=1),))),
    ("(Tup @items=[(Leaf) *] -> c)", lambda: zoo.Tup((zoo.Leaf(v=1), zoo.Leaf(v=2)))),
    ("(Tup @items=[*] -> c)", lambda: zoo.Tup((zoo.Leaf(v=1), zoo.Leaf(v=2)))),
    ("(Tup @items=[* -> r] -> c)", lambda: zoo.Tup((zoo.Leaf(v=1), zoo.Leaf(v=2)))),
    ("(Leaf @v -> x)", lambda: zoo.Leaf(v=1)),
    ("(Leaf @v -> x @s)", lambda: zoo.Leaf(v=1)),
    ("(Bin @left -> a @right=$a)", lambda: zoo.Bin(zoo.Leaf(v=1), zoo.Leaf(v=1, origin=CodeOrigin(_SRC2, get_code_range(0, 1, 0, 2, 1, 2))))),
    ("(Bin @left -> a @right=$a)", lambda: zoo.Bin(zoo.Leaf(v=1), zoo.Leaf(v=2))),
    ("(Tup @items=[])", lambda: zoo.Tup(())),
    ("(Tup @items=[])", lambda: zoo.Tup((zoo.Leaf(),))),
    ('(Leaf @s="b")', lambda: zoo.Leaf(s="ab")),
    ('(Expr @s="a")', lambda: zoo.Leaf2(s="ab")),
    ('(Opt @c=None)', lambda: zoo.Opt(None)),
    ('(Leaf @v -> x @flag=$x)', lambda: zoo.Leaf(v=1, flag=True)),
]


def fixed_cases():
    for text, mk in FIXED:
        root = mk()
        toks = zoo.Tokens()
        orgs = zoo.OrgTable()
        tree = zoo.enc_tree(root, toks, orgs)
        env = [zoo.class_table(), orgs.sexp(), [A("nonnode")] + NONNODE, [A("tree"), tree]]
        line = dumps([A("pmatch")] + env + [[A("text"), text], [A("node"), toks.tok(root)]])
        pm._MATCHER_CACHE.clear()
        real, _ = obs_match(text, root, toks)
        NodeMatcher.from_pattern("(Leaf @tag)")
        NodeMatcher.from_pattern("(* @items=[* -> zz])")
        again, _ = obs_match(text, root, toks)
        oracle = None if again == real else f"result depends on history: cold={real} cached-after-other-compilations={again}"
        yield Case("pmatch_fixed", line, real, True, f"pattern={text!r} tree={zoo.show(root)}", oracle_fail=oracle,
                   sig="pmatch|history" if oracle else "pmatch|model")


# ------------------------------------------------------------------ white-space histories

WS_WORDS = ["return", "x", "a", "if", "1", "b_c", "None"]
WS_RUNS = [" ", "  ", "\t", " \t", "   ", "\x0c", "\t\t", " \x0c "]


def ws_subject(rng) -> list[str]:
    """words and the white-space runs between them, alternating: [w0, run0, w1, run1, w2 …]"""
    n = rng.choice([2, 2, 3, 4])
    parts: list[str] = []
    for i in range(n):
        if i:
            parts.append(rng.choice(WS_RUNS))
        parts.append(rng.choice(WS_WORDS))
    return parts


def ws_variant(rng, parts: list[str]) -> list[str]:
    """the same words with one white-space run replaced by a different one"""
    out = list(parts)
    j = rng.choice(range(1, len(parts), 2))
    out[j] = rng.choice([r for r in WS_RUNS if r != parts[j]])
    return out


def ws_regex(rng, subj: str) -> str:
    k = rng.random()
    if k < 0.45:
        return rx_lit(subj) + "$"
    if k < 0.7:
        return rx_lit(subj)
    if k < 0.85:
        # up to and including the last white-space run
        cut = max(i for i, ch in enumerate(subj) if ch in " \t\x0c") + 1
        return rx_lit(subj[:cut])
    return ".*" + rx_lit(subj[len(subj) // 2:]) + "$"


def ws_batch(rng):
    """near-identical pattern texts — same tokens except for a white-space run inside a quoted regex, and
    re-spacings between the tokens — compiled back to back in both orders, cold and warm; every single
    observation is compared with the model"""
    pa = ws_subject(rng)
    pb = ws_variant(rng, pa)
    sa, sb = "".join(pa), "".join(pb)
    o2 = CodeOrigin(_SRC2, get_code_range(0, 1, 0, 2, 1, 2))
    la, lb = zoo.Leaf(v=1, s=sa), zoo.Leaf(v=2, s=sb, origin=o2)
    two = zoo.Two(a=sa, b=sb)
    root = zoo.Tup((la, lb, two, zoo.Leaf(v=3, s=sa + "z"), zoo.Mixed(lb, (la,), None, name=sb)))
    toks = zoo.Tokens()
    orgs = zoo.OrgTable()
    tree = zoo.enc_tree(root, toks, orgs)
    env = [zoo.class_table(), orgs.sexp(), [A("nonnode")] + NONNODE, [A("tree"), tree]]
    desc = zoo.show(root)
    nodes = [la, lb, two, root.items[3], root.items[4], root]
    # the same regex construction for both subjects: the two token lists differ in one token, by white space only
    st = rng.getstate()
    ra = ws_regex(rng, sa)
    rng.setstate(st)
    rb = ws_regex(rng, sb)
    shape = rng.choice(["leaf", "leaf", "two", "seq", "mixed", "var"])

    def tokens(r):
        q = '"' + r + '"'
        if shape == "leaf":
            return ["(", "Leaf", "@", "s", "=", q, "->", "t", ")"]
        if shape == "two":
            return ["(", "Two", "@", rng_field, "=", q, "@", "a", "->", "k", ")"]
        if shape == "seq":
            return ["(", "Tup", "@", "items", "=", "[", "(", "Leaf", "@", "s", "=", q, ")", "->", "h", "*", "->", "r", "]", ")"]
        if shape == "mixed":
            return ["(", "Mixed", "@", "name", "=", q, "@", "z", "=", "(", "*", "@", "s", "=", q, ")", "->", "z", ")"]
        return ["(", "Leaf|Two|Mixed", "@", "s", "->", "v", "@", "s", "=", q, "@", "s", "=", "$", "v", ")"]

    rng_field = rng.choice(["a", "b"])
    ta, tb = tokens(ra), tokens(rb)
    texts = {
        "A1": render(rng, ta), "A2": render(rng, ta, spaced=rng.random() < 0.7), "A0": "".join(ta),
        "B1": render(rng, tb), "B2": render(rng, tb, spaced=rng.random() < 0.7), "B0": "".join(tb),
    }
    if rng.random() < 0.5:
        # the spacing between the tokens of A copied onto B: the texts differ inside the quotes only
        texts["B1"] = texts["A1"].replace('"' + ra + '"', '"' + rb + '"')
    histories = [["A1", "B1", "A2", "B2", "A1", "B1"], ["B1", "A1", "B2", "A2"], ["A0", "B0", "B1", "A1"], ["B0", "A0"]]
    rng.shuffle(histories)
    for h in histories[: rng.choice([2, 3, 4])]:
        pm._MATCHER_CACHE.clear()
        for step, key in enumerate(h):
            text = texts[key]
            for node in rng.sample(nodes, 3):
                real, _ = obs_match(text, node, toks)
                line = dumps([A("pmatch")] + env + [[A("text"), text], [A("node"), toks.tok(node)]])
                yield Case("pmatch_ws", line, real, True,
                           f"history={[texts[k] for k in h[:step + 1]]!r} (cold cache at its start) pattern={text!r} "
                           f"node=#{toks.tok(node)} tree={desc}", sig="pmatch|ws-history")
    # the same through MultiPatternMatcher, both rule orders
    for names in (("A1", "B1"), ("B2", "A2")):
        pm._MATCHER_CACHE.clear()
        defs = [(k, texts[k]) for k in names]
        for node in rng.sample(nodes, 3):
            order = None if rng.random() < 0.5 else [names[1], names[0]]
            real, _ = obs_multi(defs, order, node, toks)
            req = [A("pmulti")] + env + [[A("rules")] + [[n, t] for n, t in defs]]
            if order is not None:
                req.append([A("order")] + order)
            req.append([A("node"), toks.tok(node)])
            yield Case("pmulti_ws", dumps(req), real, True,
                       f"defs={defs!r} rules={order!r} node=#{toks.tok(node)} tree={desc}", sig="pmulti|ws-history")


# ------------------------------------------------------------------ `[]` only the empty tuple

def empty_seq_batch(rng):
    """`@f=[]` (plain, captured, several per pattern, through MultiPatternMatcher before a later rule) against fields
    holding "", b"", (), None, a non-empty str / bytes / tuple, an absent child, an empty and a non-empty child tuple"""
    BL = zoo_c08.BytesLeaf
    lf = zoo.Leaf(v=1)
    nodes = [
        BL(), BL(data=b"x", text="ab", words=("a",), kids=(lf,), opt=lf), BL(data=b"", text="a", words=(), kids=(lf, lf)),
        BL(data=b"ab", text="", words=("", ""), kids=()),
        zoo.Leaf(s=""), zoo.Leaf(s=rng.choice(["a", " ", "()", "[]"])), zoo.Leaf2(s="", extra=()), zoo.Leaf2(s="x", extra=("",)),
        zoo.Two(a="", b=""), zoo.Two(a="", b="b"), zoo.Opt(None), zoo.Opt(lf), zoo.Tup(()), zoo.Tup((lf,)),
        zoo.PropZoo(t=(), o=None, lit="a"), zoo.Mixed(lf, (), None, name=""),
    ]
    root = zoo.Tup(tuple(nodes))
    toks = zoo.Tokens()
    orgs = zoo.OrgTable()
    tree = zoo.enc_tree(root, toks, orgs)
    table = zoo.class_table() + [zoo_c08.class_row(BL)]
    env = [table, orgs.sexp(), [A("nonnode")] + NONNODE, [A("tree"), tree]]
    desc = zoo.show(root)
    cfg = zoo_c08.pick_config(rng)
    for _ in range(6):
        node = rng.choice(nodes)
        names = fields_of(node)
        f = rng.choice(names)
        g = rng.choice(names)
        k = rng.random()
        if k < 0.3:
            t = ["(", "*", "@", f, "=", "[", "]", ")"]
        elif k < 0.55:
            t = ["(", type(node).__name__, "@", f, "=", "[", "]", "->", "e", ")"]
        elif k < 0.8:
            t = ["(", "*", "@", f, "=", "[", "]", "->", "e", "@", g, "=", "[", "]", "->", "d", ")"]
        else:
            t = ["(", "*", "@", g, "->", "w", "@", f, "=", "[", "]", ")"]
        text = render(rng, t, spaced=rng.random() < 0.6)
        pm._MATCHER_CACHE.clear()
        with zoo_c08.configured(cfg):
            real, _ = obs_match(text, node, toks)
            again, _ = obs_match(text, node, toks)
        line = dumps([A("pmatch")] + env + [[A("text"), text], [A("node"), toks.tok(node)]])
        yield Case("pmatch_empty_seq", line, real, True,
                   f"pattern={text!r} node=#{toks.tok(node)}={zoo.show(node)} [config: {cfg}]",
                   oracle_fail=None if again == real else f"cached result differs: {real} / {again}",
                   sig="pmatch|empty-seq")
        # `[]` rule first, a catch-all rule after it: the first *matching* rule must win
        defs = [("empty", render(rng, ["(", "*", "@", f, "=", "[", "]", "->", "e", ")"])),
                ("later", render(rng, ["(", "*", "@", f, "->", "v", ")"]))]
        order = None if rng.random() < 0.6 else ["empty", "later"]
        pm._MATCHER_CACHE.clear()
        with zoo_c08.configured(cfg):
            real, _ = obs_multi(defs, order, node, toks)
        req = [A("pmulti")] + env + [[A("rules")] + [[n, x] for n, x in defs]]
        if order is not None:
            req.append([A("order")] + order)
        req.append([A("node"), toks.tok(node)])
        yield Case("pmulti_empty_seq", dumps(req), real, True,
                   f"defs={defs!r} rules={order!r} node=#{toks.tok(node)}={zoo.show(node)} [config: {cfg}]",
                   sig="pmulti|empty-seq")


_DYN = [0]
_DYN_NS = {"dataclass": __import__("dataclasses").dataclass, "Leaf": zoo.Leaf, "__name__": "c08_dynamic_classes"}


def dyn_class_batch(rng):
    """class-definition history with the matcher cache left alone: a pattern text is used BEFORE the class it names
    exists (definition error), then the class is defined and the very same text (and a fresh one) must match exactly
    the instances of the class, with the captures the statement prescribes"""
    _DYN[0] += 1
    name = f"DynP{_DYN[0]}Q{rng.randrange(10 ** 6)}"
    texts = [f"({name} @v -> k)", f"(Tup @items=[({name}) -> a *])", f"(Leaf2|{name})", f'({name} @s="a")']
    rng.shuffle(texts)
    early, late = texts[:2], texts[2:]
    cfg = zoo_c08.pick_config(rng)
    pm._MATCHER_CACHE.clear()
    toks0 = zoo.Tokens()
    orgs0 = zoo.OrgTable()
    lf = zoo.Leaf(v=1)
    env0 = [zoo.class_table(), orgs0.sexp(), [A("nonnode")] + NONNODE, [A("tree"), zoo.enc_tree(lf, toks0, orgs0)]]
    for t in early:
        with zoo_c08.configured(cfg):
            real, _ = obs_match(t, lf, toks0)
        yield Case("pmatch_before_class", dumps([A("pmatch")] + env0 + [[A("text"), t], [A("node"), toks0.tok(lf)]]), real, True,
                   f"pattern={t!r} (class {name} not defined yet) [config: {cfg}]", sig="pmatch|before-class")
    exec(f"@dataclass(frozen=True)\nclass {name}(Leaf):\n    pass\n", _DYN_NS)
    cls = _DYN_NS[name]
    zoo_c08.register_leaf_class(cls)
    nodes = [cls(v=1, s="ab"), zoo.Leaf(v=1, s="ab"), zoo.Leaf2(v=2)]
    nodes.append(zoo.Tup((nodes[0], nodes[1])))
    root = zoo.Tup(tuple(nodes))
    toks = zoo.Tokens()
    orgs = zoo.OrgTable()
    env = [zoo.class_table() + [zoo_c08.class_row(cls)], orgs.sexp(), [A("nonnode")] + NONNODE, [A("tree"), zoo.enc_tree(root, toks, orgs)]]
    for t in early + late:
        for node in nodes:
            with zoo_c08.configured(cfg):
                real, _ = obs_match(t, node, toks)
            yield Case("pmatch_after_class", dumps([A("pmatch")] + env + [[A("text"), t], [A("node"), toks.tok(node)]]), real, True,
                       f"pattern={t!r} node=#{toks.tok(node)}={zoo.show(node)} (class {name}(Leaf) defined"
                       + (" AFTER this text was first compiled)" if t in early else ")") + f" [config: {cfg}]",
                       sig="pmatch|after-class")
    pm._MATCHER_CACHE.clear()


def str_kinds_batch(rng):
    """"a quoted regex matches at the start of str(value)" for values that are strings of a special kind: members of a
    (str, Enum) class (str(v) = 'Vis.PUBLIC', payload 'pub') and instances of a str subclass with its own __str__"""
    SK, Vis, Marked = zoo_c08.StrKinds, zoo_c08.Vis, zoo_c08.Marked
    nodes = [SK(vis=Vis.PUBLIC, anyv=Marked("ab"), plain="pub"), SK(vis=Vis.PRIVATE, anyv=Marked(""), plain="Vis.PUBLIC"),
             SK(vis=Vis.PUBLIC, anyv="<ab", plain="<ab>"), SK(vis=Vis.PRIVATE, anyv=Vis.PUBLIC, plain="ab")]
    root = zoo.Tup(tuple(nodes))
    toks = zoo.Tokens()
    orgs = zoo.OrgTable()
    tree = zoo.enc_tree(root, toks, orgs)
    env = [zoo.class_table() + [zoo_c08.class_row(SK)], orgs.sexp(), [A("nonnode")] + NONNODE, [A("tree"), tree]]
    cfg = zoo_c08.pick_config(rng)
    texts = ['(StrKinds @vis="pub")', '(StrKinds @vis="Vis")', '(* @vis="Vis\\.PUBLIC$" -> v)', '(* @vis="p")', '(* @vis="priv$")',
             '(StrKinds @anyv="<ab>")', '(StrKinds @anyv="ab")', '(StrKinds @anyv="<")', '(* @anyv="Vis" -> a)', '(* @anyv="pub")',
             '(* @plain="pub" @vis="Vis")']      # ($variables across these kinds: == of a str-enum member and its payload is a don't-care)
    for t in rng.sample(texts, 6):
        for node in nodes:
            pm._MATCHER_CACHE.clear()
            with zoo_c08.configured(cfg):
                real, _ = obs_match(t, node, toks)
            yield Case("pmatch_str_kinds", dumps([A("pmatch")] + env + [[A("text"), t], [A("node"), toks.tok(node)]]), real, True,
                       f"pattern={t!r} node=#{toks.tok(node)}={zoo.show(node)} [config: {cfg}]", sig="pmatch|str-kinds")


def var_identity_batch(rng):
    """`$name` "equals the value captured earlier (content equality for nodes, == otherwise)": decided by the comparison,
    not by object identity -- the very same NaN object is not == to itself; the very same node object is content-equal to
    itself; two distinct equal values are equal.  Oracle only (floats are opaque tokens for the model)"""
    nan = float("nan")
    cases = [
        (zoo.PropZoo(fl=nan, num=nan), '(PropZoo @fl -> v @num=$v)', False, "the same NaN object in two fields (nan != nan)"),
        (zoo.PropZoo(fl=2.5, num=2.5), '(PropZoo @fl -> v @num=$v)', True, "equal floats"),
        (zoo.PropZoo(fl=2.0, num=2), '(PropZoo @fl -> v @num=$v)', True, "2.0 == 2"),
        (zoo.PropZoo(fl=1.5, num=nan), '(PropZoo @fl -> v @num=$v)', False, "1.5 vs nan"),
    ]
    shared = zoo.Leaf(v=3)
    cases.append((zoo.Bin(shared, shared), '(Bin @left -> v @right=$v)', True, "the same node object in two fields"))
    cases.append((zoo.Bin(zoo.Leaf(v=3), zoo.Leaf(v=3, tag="t")), '(Bin @left -> v @right=$v)', True, "content-equal nodes"))
    cases.append((zoo.Bin(zoo.Leaf(v=3), zoo.Leaf(v=4)), '(Bin @left -> v @right=$v)', False, "different nodes"))
    for node, text, want, what in cases:
        pm._MATCHER_CACHE.clear()
        fail = None
        try:
            m, _ = NodeMatcher.from_pattern(text)
            ok, caps = m.match(node)
            if bool(ok) != want:
                fail = f"match is {bool(ok)}, expected {want}: {what}"
            elif ok and caps.get("v") is not getattr(node, "fl" if isinstance(node, zoo.PropZoo) else "left"):
                fail = "the capture is not the very object stored in the field"
        except Exception as e:  # noqa
            fail = f"raised {type(e).__name__}"
        yield Case("pmatch_var_identity", None, None, True, f"pattern={text!r} on {what}", oracle_fail=fail, sig="pmatch|var-identity")


def backslash_batch(rng):
    """"a quoted regex matches at the start of str(value)": the regex IS the text between the quotes (an escaped backslash
    `\\\\` in the pattern text is the regex `\\\\`, i.e. a literal backslash; `\\d` is the digit class), on subjects that
    hold backslashes.  Oracle only: Python's own `re.match(<text between the quotes>, str(value))`"""
    import re as _re
    subjects = ["C:\\dir\\file.h", "C:5ir", "\\section", " section", "a\\\\b", "a\\b", "\\d5", "55", "x\\\"y", "\\"]
    inners = ["C:\\\\dir", "\\\\section", "\\\\d", "\\d", "a\\\\\\\\b", "a\\\\b", "\\\\\\d", "x\\\\\\\"y", "\\\\$", "C:\\\\dir\\\\file\\.h$",
              "\\s", "\\\\s"]
    inners += [r for r in (rx_lit(x[: rng.randint(1, len(x))]) for x in subjects) if r]
    for inner in inners:
        text = f'(Leaf @s="{inner}")'
        for subj in subjects:
            node = zoo.Leaf(s=subj)
            pm._MATCHER_CACHE.clear()
            fail = None
            try:
                want = _re.match(inner, subj) is not None
            except _re.error:
                continue
            try:
                m, msg = NodeMatcher.from_pattern(text)
                if m is None:
                    fail = f"pattern rejected: {msg}"[:160]
                else:
                    ok, _caps = m.match(node)
                    if bool(ok) != want:
                        fail = f"match is {bool(ok)}; re.match({inner!r}, {subj!r}) says {want}"
            except Exception as e:  # noqa
                fail = f"raised {type(e).__name__}: {e}"[:160]
            yield Case("pmatch_backslash", None, None, True, f"pattern={text!r} on Leaf(s={subj!r})", oracle_fail=fail,
                       sig="pmatch|backslash")


def cases(rng: random.Random, tier: str):
    yield from var_identity_batch(rng)
    yield from backslash_batch(rng)
    yield from fixed_cases()
    n = 230 if tier == "quick" else 5000
    for i in range(n):
        yield from batch(rng, tier)
        if i % 3 == 0:
            yield from ws_batch(rng)
        if i % 4 == 1:
            yield from empty_seq_batch(rng)
        if i % 10 == 2:
            yield from dyn_class_batch(rng)
        if i % 10 == 5:
            yield from str_kinds_batch(rng)
