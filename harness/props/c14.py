"""C14 — duplicate / replace / dataclasses.replace produce faithful, independent copies.
K1: histories biased towards the copying operations, compared op by op with the Lean registry
machine (ids, registration, which objects are new); oracles on the real objects: == and equal
content_id / props / origin at every position, every node new and registered, ids disjoint from
registered originals, unchanged init fields are the very same objects, registration effects."""
from __future__ import annotations

import random

from run import Case
from regmachine import Machine

PROPERTY = "C14"
LEAN_MODULE = "PyOak.Props.C14All"     # imports PyOak.Props.C14, PyOak.Props.C14Extra
THEOREMS = ["PyOak.C14." + t for t in ['dup_fresh', 'dup_copy', 'dup_independent', 'replace_new_id', 'replace_same_digest_keeps_id', 'dcReplace_new_id']]
# additions after the audit (Props/C14Extra.lean): every node of a duplicate is new and registered (a shallow copy is
# refuted), the id rule of replace() stated as in the property text, with the failing reading of its parenthetical
THEOREMS += ["PyOak.C14X." + t for t in [
    'dup_all_new', 'dup_all_registered', 'dup_descendants_new', 'duplicate_step', 'isCopy_self', 'shallow_is_not_new',
    'freshId_least', 'freshId_skipped', 'replace_id_fresh_absent', 'replace_id_eq_construct_absent',
    'replace_keeps_plain_id', 'replace_suffixed_twin_dead', 'replace_keeps_id_iff', 'replace_keeps_id_naive_fails',
    'replace_detached', 'replace_new_node', 'dcReplace_new_node', 'idShape_run', 'replace_same_digest_keeps_id_iff']]
RULE = ("random histories (<= 24 ops) with 30% construct, 30% duplicate/replace/dataclasses.replace (single- and "
        "multi-field changes of comparable / non-comparable props, children, origin; replace raising), rest detach / "
        "as_obj / alias / del, on registered and detached originals with and without registered twins, shared subtrees; "
        "ID_DIGEST_SIZE in {8, 2, 1}; non-trivial = history with >= 8 ops; distinct by request line")
TRUSTED = ["dataclasses.replace copies init fields by reference and re-runs __post_init__ (CPython)"]
ASSUMPTIONS = []
BUDGET = {"quick": 240, "thorough": 2400}


import dataclasses as _dc
from typing import Any as _Any

import zoo
from pyoak.node import ASTNode as _ASTNode, NODE_REGISTRY as _REG


class _Opaque:
    """a property value with identity semantics only (no __eq__, no __hash__ override, not copyable by value)"""
    def __init__(self, n):
        self.n = n

    def __repr__(self):
        return f"_Opaque({self.n})"


@_dc.dataclass(frozen=True)
class C14Holder(_ASTNode):
    key: _Any = None
    payload: _Any = _dc.field(default=None, compare=False)
    kid: _ASTNode | None = None
    kids: tuple[_ASTNode, ...] = ()
    hnote: str = _dc.field(default="", compare=False, hash=True)     # non-comparable (what `hash=` says is irrelevant)


@_dc.dataclass(frozen=True)
class C14Element(zoo.Expr):
    tag: str = ""
    attrs: tuple[zoo.Expr, ...] = ()
    children: tuple[zoo.Expr, ...] = ()


zoo.CHILD_FIELDS[C14Element] = [("attrs", True), ("children", True)]


def opaque_value_cases(rng, n):
    """property values that are arbitrary objects (annotation Any) with identity equality, comparable and not: a copy holds
    *equal* values, i.e. for such objects the very same ones; replace() keeps the very same objects in the untouched fields"""
    import gc
    for _ in range(n):
        # the whole scenario runs under a random setting of the behaviour-neutral configuration (trace logging on / off)
        cv = zoo.config_variation(rng, 0.5)
        cv.__enter__()
        try:
            yield from _opaque_value_cases_one(rng, f" [TRACE_LOGGING={cv.on}]")
        finally:
            cv.__exit__()


def _opaque_value_cases_one(rng, cfg_note):
    import gc
    for _ in range(1):
        # a property that is non-comparable although it declares hash=True: replacing only it keeps id and content_id
        hx = C14Holder(key=1, hnote="a")
        hr = hx.replace(hnote="b")
        fh = None
        if hr.id != hx.id or hr.content_id != hx.content_id:
            fh = (f"replace() of a non-comparable property (field(compare=False, hash=True)) changed id / content_id: "
                  f"{hx.id} -> {hr.id}")
        elif hr.hnote != "b" or hr.key != 1:
            fh = "replace(): the changed field does not hold the given value"
        yield Case("directed:noncompare-hash-flag", None, None, True, "Holder(hnote=field(compare=False, hash=True)).replace(hnote=…)" + cfg_note,
                   oracle_fail=fh, sig="copy|directed|noncompare-hash-flag")
        del hx, hr
        # a node class one of whose child FIELDS is called `children` (it shadows the library's `children` property): with
        # that field empty and nodes in another child field, duplicate() still copies every node
        for shape in ("attrs-only", "both", "nested"):
            attrs = (zoo.Leaf(v=rng.randrange(50)), zoo.Un(zoo.Leaf(v=3)))
            inner = C14Element(tag="i", attrs=attrs, children=())
            el = {"attrs-only": inner, "both": C14Element(tag="b", attrs=(zoo.Leaf(v=1),), children=(inner,)),
                  "nested": zoo.Un(inner)}[shape]
            before = {id(x) for x in [el] + [c for c, *_ in zoo.positions(el)]}
            dd1 = el.duplicate()
            after = [dd1] + [c for c, *_ in zoo.positions(dd1)]
            fe = None
            if len(after) != len(before):
                fe = f"the copy has {len(after)} positions, the original {len(before)}"
            elif any(id(x) in before for x in after):
                fe = "duplicate() of a node whose child field `children` is empty shares nodes with the original"
            elif any(_REG.get(x.id) is not x for x in after):
                fe = "a copied node is not registered"
            yield Case("directed:field-named-children", None, None, True,
                       f"Element(tag, attrs=(2 nodes), children=()) {shape}: duplicate()" + cfg_note, oracle_fail=fe,
                       sig="copy|directed|field-named-children")
            del attrs, inner, el, dd1, after
        # a node that was REPLACED by a successor which keeps its id (only a non-comparable property differs) is duplicated
        # afterwards, alone and as a child: the copy is a copy of THAT node (its own property values), not of the
        # node that owns the id now
        for where in ("alone", "child", "tuple-item"):
            old = zoo.Leaf(v=rng.randrange(100), tag="before")
            holder = {"alone": None, "child": zoo.Un(old), "tuple-item": zoo.Tup((zoo.Leaf(v=1), old))}[where]
            succ = old.replace(tag="after")
            fr = None
            if succ.id != old.id:
                fr = None       # the id rule is examined elsewhere; without the takeover there is nothing to check here
            else:
                dd0 = (holder or old).duplicate()
                copy = dd0 if holder is None else [i.node for i in dd0.dfs() if type(i.node) is zoo.Leaf and i.node.v == old.v][-1]
                if copy.tag != "before":
                    fr = f"duplicate() of a node whose id was taken over by its replacement copied tag={copy.tag!r}, the node holds 'before'"
                elif old.tag != "before" or succ.tag != "after":
                    fr = "duplicate() changed the original or its successor"
                del dd0, copy
            yield Case("directed:duplicate-after-takeover", None, None, True,
                       f"x=Leaf(tag='before') {where}; x.replace(tag='after') keeps the id; duplicate() of the old object" + cfg_note,
                       oracle_fail=fr, sig="copy|directed|duplicate-after-takeover")
            del old, holder, succ
        t, u, w = _Opaque(rng.randrange(100)), _Opaque(rng.randrange(100)), _Opaque(rng.randrange(100))
        inner = C14Holder(key=(u, 1), payload=[w])            # values nested in a tuple / a (non-comparable) list
        x = C14Holder(key=t, payload=u, kid=inner, kids=(C14Holder(key=w), C14Holder(payload=t)))
        d = x.duplicate()
        fail = None
        pairs = list(zip([x] + [i.node for i in x.dfs()], [d] + [i.node for i in d.dfs()]))
        for a, b in pairs:
            if a is b:
                fail = "duplicate() returned an original object"
            elif b.key != a.key or b.payload != a.payload:
                fail = f"duplicate(): property values differ at {type(a).__name__}(key={a.key!r}, payload={a.payload!r}) vs (key={b.key!r}, payload={b.payload!r})"
            elif b.content_id != a.content_id or b.origin != a.origin:
                fail = "duplicate(): content_id / origin differs"
            elif _REG.get(b.id) is not b:
                fail = "duplicate(): a copied node is not registered"
            if fail:
                break
        if fail is None and not (d == x):
            fail = "duplicate() is not == to the original"
        if fail is None:
            r = x.replace(payload=w)
            if r.key is not t or r.kid is not inner or r.kids is not x.kids or r.payload is not w:
                fail = "replace(): an untouched init field does not hold the very same object / the changed field not the given value"
            given = [w, {"k": (1, 2)}]
            r3 = x.replace(payload=given, key=[u])
            if fail is None and (r3.payload is not given or type(r3.key) is not list or r3.key[0] is not u):
                fail = f"replace(): a changed field does not hold the given value (given a list, holds {type(r3.payload).__name__} / {type(r3.key).__name__})"
            del r3
            r2 = _dc.replace(r, key=u)
            if fail is None and (r2.payload is not w or r2.kid is not inner or r2.key is not u):
                fail = "dataclasses.replace(): an untouched init field does not hold the very same object"
            del r, r2
        # falsy nodes (a node class may define __len__ / __bool__) in single, optional and tuple child fields are copied
        # like any other node
        fz = zoo.Un(zoo.Falsy(n=rng.randint(0, 1)))
        tree = zoo.Tup((fz, zoo.Opt(zoo.Falsy(n=2)), zoo.Falsy(n=3), zoo.Tup(())))
        dd = tree.duplicate()
        f2 = None
        for a, b in zip([tree] + [c for c, *_ in zoo.positions(tree)], [dd] + [c for c, *_ in zoo.positions(dd)]):
            if a is b:
                f2 = f"duplicate(): the copy shares the original {type(a).__name__} object (falsy child nodes)"
            elif type(a) is not type(b) or a.content_id != b.content_id or _REG.get(b.id) is not b:
                f2 = "duplicate(): a copied node differs / is not registered (falsy child nodes)"
        if f2 is None and (len(list(zoo.positions(dd))) != len(list(zoo.positions(tree))) or not (dd == tree)):
            f2 = "duplicate() of a tree with falsy children is not == to the original"
        # multiple inheritance: a field-less class combining two node classes whose first base was used before; the children
        # stored in the second base's field are copied like all others
        both = zoo.MBoth(lv=1, lk=zoo.Leaf(v=41), rv=2, rk=zoo.Un(zoo.Leaf(v=42)))
        holder = zoo.Tup((both, zoo.MLeft(lv=3, lk=zoo.Leaf(v=43)), zoo.MRight(rv=4, rk=zoo.Leaf(v=44))))
        hd = holder.duplicate()
        f3 = None
        # (the harness' own structure walk, not the library's traversal)
        pa, pb = [holder] + [c for c, *_ in zoo.positions(holder)], [hd] + [c for c, *_ in zoo.positions(hd)]
        if len(pa) != len(pb):
            f3 = "duplicate() of a tree with multiply-inheriting nodes has another number of positions"
        for a, b in zip(pa, pb):
            if a is b:
                f3 = f"duplicate(): the copy shares the original {type(a).__name__} object (child of a multiply-inheriting node)"
        if f3 is None and not (hd == holder):
            f3 = "duplicate() is not == to the original (multiple inheritance)"
        yield Case("directed:multiple-inheritance", None, None, True, "Tup((MBoth(lk, rk), MLeft(lk), MRight(rk))).duplicate()" + cfg_note,
                   oracle_fail=f3, sig="copy|directed|multiple-inheritance")
        del both, holder, hd, pa, pb
        # two DIFFERENT classes with the same name and equal content in one tree (their base ids coincide): every copy is
        # registered under an id used by no registered original, and no original loses its registry entry
        def _mk():
            @_dc.dataclass(frozen=True)
            class CopyTwin(zoo.Expr):
                v: int = 0
            return CopyTwin
        TA, TB = _mk(), _mk()
        ta, tb = TA(v=5), TB(v=5)
        tt = zoo.Tup((ta, tb, TA(v=5)))
        td = tt.duplicate()
        f4 = None
        every = [tt, *tt.items, td, *td.items]
        if any(x is y for x, y in zip(tt.items, td.items)) or td is tt:
            f4 = "duplicate() returned an original object (same-named classes)"
        elif any(_REG.get(x.id) is not x for x in every):
            bad = next(x for x in every if _REG.get(x.id) is not x)
            f4 = (f"after duplicate() a live, never detached {type(bad).__name__}(v=5) with id {bad.id} is not returned by the registry "
                  f"(two classes named CopyTwin with equal content)")
        elif len({x.id for x in every}) != len(every):
            f4 = "ids of simultaneously registered nodes are not pairwise different (same-named classes)"
        yield Case("directed:same-name-classes", None, None, True, "Tup((A(v=5), B(v=5), A(v=5))) with two classes named CopyTwin: duplicate()",
                   oracle_fail=f4, sig="copy|directed|same-name-classes")
        del tt, td, ta, tb, every, TA, TB
        yield Case("directed:falsy-children", None, None, True, "Tup((Un(Falsy), Opt(Falsy), Falsy, Tup(()))).duplicate()" + cfg_note,
                   oracle_fail=f2, sig="copy|directed|falsy-children")
        del tree, dd, fz
        yield Case("directed:opaque-values", None, None, True,
                   "Holder(key=<object>, payload=<object>, kid=Holder(key=(<object>, 1), payload=[<object>]), kids=(…)) duplicate / replace",
                   oracle_fail=fail, sig="copy|directed|opaque-values")
        del x, d, inner, pairs
        gc.collect()


def _least_free_id(digest, keys):
    """the id rule of the statement read independently: the digest itself if free, else digest_j for the LEAST free j >= 1
    (Lean: C14X.freshId_least / freshId_skipped)"""
    if digest not in keys:
        return digest
    j = 1
    while f"{digest}_{j}" in keys:
        j += 1
    return f"{digest}_{j}"


def replace_id_rule_case(rng):
    """replace(): 'the id a fresh construction with the original absent would get' (C14X.replace_id_fresh_absent,
    replace_keeps_id_iff), on the corners the random histories rarely reach: originals carrying a SUFFIXED id whose twins
    are alive / dead / partly dead, and detached originals.  Only the main clause is demanded: the parenthetical of the
    statement ('the original's id when ... it has no registered twin') does not hold for a suffixed original whose twin
    died (C14X.replace_keeps_id_naive_fails; code and model agree there), so it is not an oracle."""
    import gc
    k0 = rng.randrange(10 ** 6) * 10
    fail = None
    notes = []

    def run(name, x, digest):
        nonlocal fail
        registered = _REG.get(x.id) is x
        keys = set(_REG.keys()) - ({x.id} if registered else set())
        want = _least_free_id(digest, keys)
        r = x.replace(payload=name)                     # only a non-comparable field changes: the digest is `digest`
        if fail is None and r.id != want:
            fail = (f"replace() [{name}]: the new node has id {r.id}, a fresh construction with the original absent gets {want} "
                    f"(original id {x.id}, registered={registered})")
        if fail is None and (_REG.get(r.id) is not r or _REG.get(x.id) is x):
            fail = f"replace() [{name}]: new node not registered / original still registered"
        notes.append(f"{name}: {'kept' if r.id == x.id else 'changed'}")
        return r

    a = C14Holder(key=k0)
    run("plain id", a, a.id)                                                        # d -> d
    t1, t2 = C14Holder(key=k0 + 1), C14Holder(key=k0 + 1)                         # d, d_1
    d = t1.id
    if t2.id != d + "_1":
        fail = fail or "content-identical twin did not get the suffixed id"
    r2 = run("suffixed id, twin alive", t2, d)                                      # d_1 -> d_1
    del t1
    gc.collect()
    r3 = run("suffixed id, twin dead", r2, d)                                       # d_1 -> d   (not kept: no twin!)
    u1, u2, u3 = (C14Holder(key=k0 + 2) for _ in range(3))                           # e, e_1, e_2
    e = u1.id
    del u2
    gc.collect()
    run("suffixed id, lower suffix freed", u3, e)                                   # e_2 -> e_1
    w1, w2 = C14Holder(key=k0 + 3), C14Holder(key=k0 + 3)
    w2.detach_self()
    run("detached original, twin alive", w2, w1.id)                                 # f_1 (detached) -> f_1
    del a, r2, r3, u1, u3, w1, w2
    gc.collect()
    yield Case("directed:replace-id-rule", None, None, True,
               "replace(payload=…) of originals with plain / suffixed ids, twins alive, dead, partly dead, detached: " + "; ".join(notes),
               oracle_fail=fail, sig="copy|directed|replace-id-rule")


def cases(rng: random.Random, tier: str):
    yield from replace_id_rule_case(rng)
    yield from opaque_value_cases(rng, 6 if tier == "quick" else 100)
    n = 120 if tier == "quick" else 3000
    for _ in range(n):
        size = rng.choice([8, 8, 2, 1])
        nops = rng.choice([6, 10, 16, 24])
        with Machine(rng, size, profile="copy") as m:
            for _k in range(nops):
                m.random_op()
            line, real = m.request(), m.observation()
            desc = f"ID_DIGEST_SIZE={size}: " + "; ".join(m.descr)
            ff = m.frame_fail
        yield Case(f"history:ds{size}", line, real, nops >= 8, desc, sig="copy|history")
        yield Case("copy-oracle", None, None, nops >= 8, desc, oracle_fail=ff, sig="copy|oracle|" + (ff or "")[:40])
