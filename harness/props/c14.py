"""C14 — duplicate / replace / dataclasses.replace produce faithful, independent copies.
K1: histories biased towards the copying operations, compared op by op with the Lean registry
machine (ids, registration, which objects are new); oracles on the real objects: == and equal
content_id / props / origin at every position, every node new and registered, ids disjoint from
registered originals, unchanged init fields are the very same objects, registration effects."""
from __future__ import annotations

import random

from run import Case
from regmachine import Machine

PROPERTY = "C14"
LEAN_MODULE = "PyOak.Props.C14"
THEOREMS = ["PyOak.C14." + t for t in ['dup_fresh', 'dup_copy', 'dup_independent', 'replace_new_id', 'replace_same_digest_keeps_id', 'dcReplace_new_id']]
RULE = ("random histories (<= 24 ops) with 30% construct, 30% duplicate/replace/dataclasses.replace (single- and "
        "multi-field changes of comparable / non-comparable props, children, origin; replace raising), rest detach / "
        "as_obj / alias / del, on registered and detached originals with and without registered twins, shared subtrees; "
        "ID_DIGEST_SIZE in {8, 2, 1}; non-trivial = history with >= 8 ops; distinct by request line")
TRUSTED = ["dataclasses.replace copies init fields by reference and re-runs __post_init__ (CPython)"]
ASSUMPTIONS = []
BUDGET = {"quick": 240, "thorough": 2400}


def cases(rng: random.Random, tier: str):
    n = 120 if tier == "quick" else 3000
    for _ in range(n):
        size = rng.choice([8, 8, 2, 1])
        nops = rng.choice([6, 10, 16, 24])
        with Machine(rng, size, profile="copy") as m:
            for _k in range(nops):
                m.random_op()
            line, real = m.request(), m.observation()
            desc = f"ID_DIGEST_SIZE={size}: " + "; ".join(m.descr)
            ff = m.frame_fail
        yield Case(f"history:ds{size}", line, real, nops >= 8, desc, sig="copy|history")
        yield Case("copy-oracle", None, None, nops >= 8, desc, oracle_fail=ff, sig="copy|oracle|" + (ff or "")[:40])
