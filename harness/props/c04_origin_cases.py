"""C04, origin half — correspondence cases for the (de)serialization codec of sources / positions / origins
and for the process-global source registry (model: lean/PyOak/Model/OriginCodec.lean, protocol:
lean/PyOak/Handle/OriginCodec.lean).

`origin_cases(rng, tier)` yields `run.Case` objects.  Every case is computed against a CONTROLLED real source
registry (`controlled_registry()`: `Source._sources` / `Source._source_idx_to_source` are saved, the registry is
cleared, and the saved dict objects are put back in a `finally`); the registry the model is told about is always
`list(Source._sources.keys())` taken immediately before the real operation, every instance described by identity
(class, fields and the `_raw` payload of that very instance).

kinds
  oc:enc                  origin.as_dict(serialization_options={SOURCE_OPTIMIZED: b})      vs (oc-enc b reg origin)
  oc:dec                  Origin.as_obj(d) (+ registry afterwards)                          vs (oc-dec reg J)
  oc:src                  Source.as_dict / Source.as_obj                                    vs (oc-encsrc ..) / (oc-decsrc ..)
  oc:pos                  Position.as_dict / <Class>.as_obj                                 vs (oc-encpos ..) / (oc-decpos ..)
  oc:registry             Source.all_as_dict / clear_registry / load_serialized_sources     vs (oc-all reg) / (oc-load reg J…)
                          incl. registries with DISTINCT sources sharing (source_type, source_uri) registered before
                          sources that are then referenced by index (twin_registry_scenario)
  oc:registry-illordered  the same when a SourceSet was registered BEFORE one of its members (model vs real only)
  oc:mk                   MultiOrigin(origins=[…]) (+ registry afterwards)                  vs (oc-mk reg origin…)
  oc:nested-missing       a required key missing in a NESTED dict: mashumaro wraps MissingField into InvalidFieldValue
                          (model: `nested`)                                          vs (oc-dec…)/(oc-decsrc…)/(oc-decpos…)
"""
from __future__ import annotations

import random
from contextlib import contextmanager
from pathlib import Path

from mashumaro.exceptions import MissingField

from pyoak import origin as O
from pyoak.origin import SOURCE_OPTIMIZED_SERIALIZATION_KEY as OPT_KEY
from pyoak.origin import Source

from proto import A, dumps
from run import Case

SIG = "origin-codec|"

# history: the first version of the model answered (raise missing) for a required key missing in a dict that is the value
# of a *field* and (raise key) for the unregistered `source` of a MultiOrigin; both are now modelled (`OC.nested`):
# mashumaro wraps them into InvalidFieldValue (a ValueError).  Nothing is known to diverge.
KNOWN_DIVERGENT = ""


# ----------------------------------------------------------------------------------------- controlled registry

_CLEAR_VIA = [0]


def _clear_registry():
    """`clear_registry()` is a classmethod.  It is called through `Source` (which is what empties the one registry table);
    before that, in turn, also through one of the subclasses -- on the unchanged library such a call only leaves an unused
    attribute on the subclass and the registry as it was, so the sequence is equivalent to the plain call"""
    import pyoak.origin as _o
    classes = [Source] + [getattr(_o, n) for n in ("MemoryTextSource", "TextSource", "FileSource", "SourceSet", "TextFileSource")
                          if isinstance(getattr(_o, n, None), type) and issubclass(getattr(_o, n), Source)]
    _CLEAR_VIA[0] += 1
    via = classes[_CLEAR_VIA[0] % len(classes)]
    if via is not Source:
        via.clear_registry()
    Source.clear_registry()


@contextmanager
def controlled_registry():
    """run the body against an empty real source registry; the previous registry objects are put back afterwards"""
    saved_sources = Source._sources
    saved_idx = Source._source_idx_to_source
    _clear_registry()
    try:
        yield
    finally:
        Source._sources = saved_sources
        Source._source_idx_to_source = saved_idx


def registry() -> list:
    return list(Source._sources.keys())


# ----------------------------------------------------------------------------------------- rendering

def enc_j(v):
    """a value produced by as_dict, in the J grammar (dict order preserved)"""
    if v is None:
        return A("null")
    if isinstance(v, bool):
        return [A("b"), v]
    if isinstance(v, int):
        return [A("i"), v]
    if isinstance(v, str):
        return [A("s"), v]
    if isinstance(v, (list, tuple)):
        return [A("l")] + [enc_j(x) for x in v]
    if isinstance(v, dict):
        return [A("m")] + [[str(k), enc_j(x)] for k, x in v.items()]
    return [A("unknown-json"), type(v).__name__]


def enc_raw(r):
    if r is None:
        return A("none")
    if isinstance(r, str):
        return [A("s"), r]
    return A("other")


def enc_src(s):
    """a source described by identity (its own `_raw`, never loaded: `_raw`, not get_raw())"""
    t = type(s)
    if t is O.NoSource:
        return A("nosrc")
    if t is O.Source or t is O.TextSource:
        return [A("plain"), t is O.TextSource, s.source_uri, s.source_type, enc_raw(s._raw)]
    if t is O.MemoryTextSource:
        return [A("memory"), s.source_uri, enc_raw(s._raw)]
    if t is O.FileSource or t is O.TextFileSource:
        return [A("file"), t is O.TextFileSource, s.relative_path.as_posix(), enc_raw(s._raw)]
    if t is O.ZippedFileSource:
        return [A("zipped"), s.relative_path.as_posix(), s.in_zip_path.as_posix(), enc_raw(s._raw)]
    if t is O.SourceSet:
        return [A("set")] + [enc_src(m) for m in s.sources]
    return [A("unknown-source"), t.__name__]


def enc_reg(srcs=None):
    return [A("reg")] + [enc_src(s) for s in (registry() if srcs is None else srcs)]


def enc_point(p):
    return [p.index, p.line, p.column]


def enc_range(r):
    return [enc_point(r.start), enc_point(r.end)]


def enc_pos(p):
    t = type(p)
    if t is O.NoPosition:
        return A("nopos")
    if t is O.EntireSourcePosition:
        return A("entire")
    if t is O.XMLPath:
        return [A("xml"), p.xpath]
    if t is O.CodeRange:
        return [A("code"), enc_range(p)]
    if t is O.PositionSet:
        return [A("set")] + [enc_pos(q) for q in p.positions]
    return [A("unknown-position"), t.__name__]


def enc_org(o, answer: bool):
    """request form: (multi origin…); answer form: (multi src pos origin…) with the derived fields of the real object"""
    t = type(o)
    if t is O.NoOrigin:
        return A("none")
    if t is O.CodeOrigin or t is O.GeneratedCodeOrigin:
        if type(o.position) is not O.CodeRange:
            return [A("code-with-position"), enc_pos(o.position)]
        return [A("code"), t is O.GeneratedCodeOrigin, enc_src(o.source), enc_range(o.position)]
    if t is O.XMLFileOrigin:
        return [A("xml"), enc_src(o.source), enc_pos(o.position)]
    if t is O.Origin:
        return [A("base"), enc_src(o.source), enc_pos(o.position)]
    if t is O.MultiOrigin:
        head = [A("multi")] + ([enc_src(o.source), enc_pos(o.position)] if answer else [])
        return head + [enc_org(m, answer) for m in o.origins]
    return [A("unknown-origin"), t.__name__]


def outcome(fn, render):
    """run the real operation; `render(result)` is evaluated afterwards (so it sees the registry after the call)"""
    try:
        r = fn()
    except MissingField:
        return [A("raise"), A("missing")], None
    except KeyError:
        return [A("raise"), A("key")], None
    except ValueError:
        return [A("raise"), A("value")], None
    except Exception as e:  # noqa
        return [A("raise"), A("python-" + type(e).__name__)], None
    return [A("ok")] + render(r), r


# ----------------------------------------------------------------------------------------- source specs

URIS = ["a", "m1", "dir/with space", 'q"uote', "unié中\U0001F600", "x||y", "p::q", "SourceSet(a||b)", "NoSource",
        "", "tab\there", "UNSET"]
MEM_URIS = [u for u in URIS if u != "UNSET"]
STYPES = ["text", "bin", "<memory>", "File", "SourceSet", "ty pe", "ét"]
PATHS = ["a/b.txt", "x.py", "dir/sub/f.xml", "sp ace/é.txt", "z.zip", "a||b", "c::d", 'q"r.txt', "m1"]
ZIPS = ["in/side.txt", "x.py", "deep/er/f", "w s", "y::z"]
TEXTS = ["abc", "", "hello world", "é中\U0001F600 \"q\"", "x||y::z", "line1\nline2"]
OTHERS = [b"\x00\x01", 7, ("t",)]
LEAF_KINDS = ["plain", "text", "memory", "file", "textfile", "zipped"]


def rand_leaf_spec(rng: random.Random, kind: str | None = None):
    k = kind or rng.choice(LEAF_KINDS)
    if k == "plain":
        raw = rng.choice([None, None, rng.choice(TEXTS), rng.choice(OTHERS)])
        return ("plain", False, rng.choice(URIS), rng.choice(STYPES), raw)
    if k == "text":
        return ("plain", True, rng.choice(URIS), rng.choice(STYPES), rng.choice([None, rng.choice(TEXTS)]))
    if k == "memory":
        return ("memory", rng.choice(MEM_URIS), rng.choice([None, rng.choice(TEXTS), rng.choice(TEXTS)]))
    if k == "file":
        return ("file", False, rng.choice(PATHS))
    if k == "textfile":
        return ("file", True, rng.choice(PATHS))
    if k == "zipped":
        return ("zipped", rng.choice(PATHS), rng.choice(ZIPS))
    raise ValueError(k)


def rand_set_spec(rng: random.Random, pool: list, depth: int = 0):
    """a SourceSet over members of `pool` (specs), fresh leaves, NO_SOURCE and (depth 0) nested sets"""
    n = rng.choice([0, 1, 2, 2, 2, 3, 3])
    ms = []
    for _ in range(n):
        k = rng.random()
        if pool and k < 0.55:
            ms.append(rng.choice(pool))
        elif k < 0.75:
            ms.append(rand_leaf_spec(rng))
        elif k < 0.87:
            ms.append(("nosrc",))
        elif depth == 0:
            ms.append(rand_set_spec(rng, pool, 1))
        else:
            ms.append(rand_leaf_spec(rng))
    return ("set", tuple(ms))


def alt_spec(rng: random.Random, spec):
    """an == source description whose instance(s) carry another `_raw` (where the class has one)"""
    k = spec[0]
    if k == "plain":
        cands = [None] + TEXTS[:3] + ([] if spec[1] else OTHERS[:1])
        cands = [c for c in cands if c != spec[4]]
        return ("plain", spec[1], spec[2], spec[3], rng.choice(cands))
    if k == "memory":
        return ("memory", spec[1], rng.choice([c for c in [None] + TEXTS[:3] if c != spec[2]]))
    if k == "set":
        return ("set", tuple(alt_spec(rng, m) for m in spec[1]))
    return spec


def build_source(spec):
    """construct (and thereby register) the source; members of a set are constructed first"""
    k = spec[0]
    if k == "nosrc":
        return O.NO_SOURCE
    if k == "plain":
        return (O.TextSource if spec[1] else O.Source)(spec[2], spec[3], _raw=spec[4])
    if k == "memory":
        return O.MemoryTextSource(spec[2], source_uri=spec[1])
    if k == "file":
        return (O.TextFileSource if spec[1] else O.FileSource)(Path(spec[2]))
    if k == "zipped":
        return O.ZippedFileSource(Path(spec[1]), Path(spec[2]))
    if k == "set":
        return O.SourceSet(tuple(build_source(m) for m in spec[1]))
    raise ValueError(k)


def leaves_of(spec) -> list:
    if spec[0] == "set":
        return [l for m in spec[1] for l in leaves_of(m)]
    return [] if spec[0] == "nosrc" else [spec]


# ----------------------------------------------------------------------------------------- positions / origins

XPATHS = ["/r", "/r/x[2]", "/r/@a", "a||b", "x::y", "", "sp ace/é", 'q"t']
POS_KINDS = ["nopos", "entire", "xml", "code", "set", "set-nested"]


def rand_range(rng: random.Random):
    a = rng.choice([0, 0, 1, 2, 5, 17, rng.randint(0, 40), 2 ** 40, 2 ** 70])
    b = a + rng.choice([0, 0, 1, 3, 10, 2 ** 65])
    return O.CodeRange(O.CodePoint(a, rng.randint(1, 5), rng.randint(0, 9)),
                       O.CodePoint(b, rng.randint(1, 9), rng.randint(0, 9)))


def rand_pos(rng: random.Random, kind: str | None = None, depth: int = 0):
    k = kind or rng.choice(POS_KINDS if depth < 2 else POS_KINDS[:4])
    if k == "nopos":
        return O.NO_POSITION
    if k == "entire":
        return O.EntireSourcePosition()
    if k == "xml":
        return O.XMLPath(rng.choice(XPATHS))
    if k == "code":
        return rand_range(rng)
    if k == "set":
        return O.PositionSet(tuple(rand_pos(rng, rng.choice(POS_KINDS[:4]), depth + 1)
                                   for _ in range(rng.choice([0, 1, 2, 3]))))
    return O.PositionSet(tuple(rand_pos(rng, rng.choice(POS_KINDS[:5] + ["set"]), depth + 1)
                               for _ in range(rng.choice([1, 2, 3]))))


ORIGIN_KINDS = ["none", "code", "generated", "xml", "base-nopos", "base-entire", "base-xml", "base-code", "base-set",
                "base-nosource", "base-sourceset", "multi-same", "multi-diff", "multi-nested", "multi-noorigin",
                "multi-twins", "multi-nosource"]


def rand_origin(rng: random.Random, srcs: list, kind: str | None = None, depth: int = 0):
    """srcs: source objects to draw from (leaves, twins, sets, NO_SOURCE)"""
    if kind is None:
        kind = rng.choice(["none", "code", "code", "generated", "xml", "xml", "base", "base", "base", "multi", "multi",
                           "multi"] if depth < 2 else ["none", "code", "generated", "xml", "base"])
    s = rng.choice(srcs)
    if kind == "none":
        return O.NO_ORIGIN
    if kind == "code":
        return O.CodeOrigin(s, rand_range(rng))
    if kind == "generated":
        return O.GeneratedCodeOrigin(s)
    if kind == "xml":
        return O.XMLFileOrigin(s, O.XMLPath(rng.choice(XPATHS)))
    if kind == "base":
        return O.Origin(s, rand_pos(rng))
    if kind.startswith("base-"):
        sub = kind[5:]
        if sub == "nosource":
            return O.Origin(O.NO_SOURCE, rand_pos(rng))
        if sub == "sourceset":
            sets = [x for x in srcs if type(x) is O.SourceSet]
            return O.Origin(rng.choice(sets) if sets else O.SourceSet(tuple(srcs[:2])), rand_pos(rng))
        return O.Origin(s, rand_pos(rng, {"set": rng.choice(["set", "set-nested"])}.get(sub, sub)))
    # multi
    n = rng.choice([2, 2, 3, 3, 4])
    sub = kind[6:] if kind.startswith("multi-") else rng.choice(["same", "diff", "diff", "nested", "noorigin", "any"])
    if sub == "same":
        ms = [rand_origin(rng, [s], rng.choice(["code", "generated", "xml", "base"]), depth + 1) for _ in range(n)]
    elif sub == "twins":
        group = [x for x in srcs if x == s] or [s]
        ms = [rand_origin(rng, [rng.choice(group)], rng.choice(["code", "xml", "base"]), depth + 1) for _ in range(n)]
    elif sub == "nosource":
        ms = [rand_origin(rng, srcs, rng.choice(["code", "xml", "base"]), depth + 1) for _ in range(n - 1)]
        ms.insert(rng.randint(0, len(ms)), O.Origin(O.NO_SOURCE, rand_pos(rng)))
    elif sub == "noorigin":
        ms = [rand_origin(rng, srcs, rng.choice(["code", "xml", "base"]), depth + 1) for _ in range(n - 1)]
        ms.insert(rng.randint(0, len(ms)), O.NO_ORIGIN)
    elif sub == "diff":
        distinct: list = []
        for x in srcs:
            if all(not (x == y) for y in distinct):
                distinct.append(x)
        rng.shuffle(distinct)
        ms = []
        for i in range(n):
            src = distinct[i] if i < min(2, len(distinct)) else rng.choice(srcs)
            ms.append(rand_origin(rng, [src], rng.choice(["code", "generated", "xml", "base"]), depth + 1))
        rng.shuffle(ms)
    elif sub == "nested":
        ms = [rand_origin(rng, srcs, rng.choice(["code", "xml", "base", "none"]), depth + 1) for _ in range(n - 1)]
        ms.insert(rng.randint(0, len(ms)), rand_origin(rng, srcs, "multi-" + rng.choice(["same", "diff"]), depth + 1))
    else:
        ms = [rand_origin(rng, srcs, None if sub == "any" else rng.choice(["code", "generated", "xml", "base"]), depth + 1)
              for _ in range(n)]
    return O.MultiOrigin(origins=ms if rng.random() < 0.7 else tuple(ms))


# ----------------------------------------------------------------------------------------- in-process oracles

def singleton_fail(o) -> str | None:
    """the No* objects inside a decoded origin are the very singletons"""
    def src_fail(s):
        if isinstance(s, O.NoSource) and s is not O.NO_SOURCE:
            return "a NoSource that is not NO_SOURCE"
        if type(s) is O.SourceSet:
            for m in s.sources:
                f = src_fail(m)
                if f:
                    return f
        return None

    def pos_fail(p):
        if isinstance(p, O.NoPosition) and p is not O.NO_POSITION:
            return "a NoPosition that is not NO_POSITION"
        if type(p) is O.PositionSet:
            for q in p.positions:
                f = pos_fail(q)
                if f:
                    return f
        return None

    if isinstance(o, O.NoOrigin):
        return None if o is O.NO_ORIGIN else "a NoOrigin that is not NO_ORIGIN"
    f = src_fail(o.source) or pos_fail(o.position)
    if f:
        return f
    if type(o) is O.MultiOrigin:
        for m in o.origins:
            f = singleton_fail(m)
            if f:
                return f
    return None


def registered_fail(o) -> str | None:
    """the leaf sources of a decoded origin are the registered instances"""
    def chk(s):
        if isinstance(s, O.NoSource):
            return None
        if Source._source_idx_to_source.get(Source._sources.get(s, -1)) is not s:
            return f"decoded source {s!r} is not the registered instance"
        return None
    if isinstance(o, O.NoOrigin):
        return None
    if type(o) is O.MultiOrigin:
        for m in o.origins:
            f = registered_fail(m)
            if f:
                return f
        return None
    return chk(o.source)


# ----------------------------------------------------------------------------------------- case builders

def enc_case(origin, optimized: bool, note: str = "") -> tuple[Case, dict | None]:
    reg = registry()
    line = dumps([A("oc-enc"), optimized, enc_reg(reg), enc_org(origin, False)])
    real, d = outcome(lambda: origin.as_dict(serialization_options={OPT_KEY: optimized}), lambda r: [enc_j(r)])
    return Case("oc:enc", line, dumps(real), not isinstance(origin, O.NoOrigin),
                f"as_dict optimized={optimized}{note} origin={origin!r} registry={reg!r}",
                sig=SIG + ("enc-unregistered" if note else "enc")), d


def dec_case(d: dict, origin, expect_eq: bool, note: str) -> Case:
    reg = registry()
    line = dumps([A("oc-dec"), enc_reg(reg), enc_j(d)])
    real, r = outcome(lambda: O.Origin.as_obj(d), lambda x: [enc_reg(), enc_org(x, True)])
    fail = None
    if expect_eq:
        if r is None:
            fail = f"Origin.as_obj raised ({dumps(real)}) on the dict as_dict produced"
        elif type(r) is not type(origin) or not (r == origin):
            fail = f"Origin.as_obj(as_dict(o)) = {r!r} != o"
        elif origin is O.NO_ORIGIN and r is not O.NO_ORIGIN:
            fail = "NoOrigin did not come back as NO_ORIGIN"
    if fail is None and r is not None:
        fail = singleton_fail(r) or registered_fail(r)
    return Case("oc:dec", line, dumps(real), not isinstance(origin, O.NoOrigin),
                f"as_obj {note} dict={d!r} registry-before={reg!r} (origin was {origin!r})", oracle_fail=fail,
                sig=SIG + "dec")


def encsrc_case(src, optimized: bool, note: str = "") -> tuple[Case, dict | None]:
    reg = registry()
    line = dumps([A("oc-encsrc"), optimized, enc_reg(reg), enc_src(src)])
    real, d = outcome(lambda: src.as_dict(serialization_options={OPT_KEY: optimized}), lambda r: [enc_j(r)])
    return Case("oc:src", line, dumps(real), not isinstance(src, O.NoSource),
                f"Source.as_dict optimized={optimized}{note} source={src!r} raw={src._raw!r} registry={reg!r}",
                sig=SIG + "src"), d


def decsrc_case(d: dict, note: str, expect=None) -> Case:
    reg = registry()
    line = dumps([A("oc-decsrc"), enc_reg(reg), enc_j(d)])
    real, r = outcome(lambda: Source.as_obj(d), lambda x: [enc_reg(), enc_src(x)])
    fail = None
    if expect is not None:
        if r is None:
            fail = f"Source.as_obj raised ({dumps(real)}) on the dict as_dict produced"
        elif type(r) is not type(expect) or not (r == expect):
            fail = f"Source.as_obj(as_dict(s)) = {r!r} != s"
        elif isinstance(expect, O.NoSource) and r is not O.NO_SOURCE:
            fail = "NoSource did not come back as NO_SOURCE"
        elif not isinstance(r, O.NoSource) and Source._source_idx_to_source.get(Source._sources.get(r, -1)) is not r:
            fail = "Source.as_obj did not return the registered instance"
    return Case("oc:src", line, dumps(real), d != {}, f"Source.as_obj {note} dict={d!r} registry-before={reg!r}",
                oracle_fail=fail, sig=SIG + "src")


def decpos_case(cls, d: dict, note: str, expect=None) -> Case:
    line = dumps([A("oc-decpos"), cls.__name__, enc_j(d)])
    real, r = outcome(lambda: cls.as_obj(d), lambda x: [enc_pos(x)])
    fail = None
    if expect is not None:
        if r is None:
            fail = f"{cls.__name__}.as_obj raised ({dumps(real)}) on the dict as_dict produced"
        elif type(r) is not type(expect) or not (r == expect):
            fail = f"as_obj(as_dict(p)) = {r!r} != p"
        elif expect is O.NO_POSITION and r is not O.NO_POSITION:
            fail = "NoPosition did not come back as NO_POSITION"
    return Case("oc:pos", line, dumps(real), d != {}, f"{cls.__name__}.as_obj {note} dict={d!r}", oracle_fail=fail,
                sig=SIG + "pos")


# ----------------------------------------------------------------------------------------- scenarios

def origin_scenario(rng: random.Random, kind: str | None) -> list[Case]:
    """one origin over a fresh pool: oc:enc (both forms), oc:dec in the same / an empty / an alternative registry"""
    out: list[Case] = []
    with controlled_registry():
        nleaf = rng.choice([1, 2, 2, 3, 3])
        if kind in ("multi-diff", "multi-nested", "base-sourceset", "multi-twins"):
            nleaf = max(nleaf, 2)
        leaf_specs = []
        lkinds = rng.sample(LEAF_KINDS, nleaf)
        if kind == "multi-twins":
            lkinds[0] = rng.choice(["plain", "text", "memory"])      # a class whose instances carry a payload
        for k in lkinds:
            sp = rand_leaf_spec(rng, k)
            if all(build_probe_neq(sp, q) for q in leaf_specs):
                leaf_specs.append(sp)
        srcs = [build_source(sp) for sp in leaf_specs]
        # an == twin of one leaf, another instance with another payload (not registered: an equal one is)
        twin_of = None
        if kind == "multi-twins" or rng.random() < 0.4:
            cands = [i for i, sp in enumerate(leaf_specs) if sp[0] in ("plain", "memory")]
            twin_of = rng.choice(cands) if cands else 0
            srcs.append(build_source(alt_spec(rng, leaf_specs[twin_of])))
            if kind == "multi-twins":
                srcs = [srcs[twin_of], srcs[-1]]
        if kind == "base-sourceset" or (kind is None and rng.random() < 0.3):
            members = rng.sample(srcs, min(len(srcs), rng.choice([1, 2, 2, 3])))
            if rng.random() < 0.3:
                members.insert(rng.randint(0, len(members)), O.NO_SOURCE)
            if rng.random() < 0.2:
                members.append(O.SourceSet(tuple(rng.sample(srcs, min(len(srcs), 2)))))
            srcs.append(O.SourceSet(tuple(members)))
        if kind is None and rng.random() < 0.3:
            srcs.append(O.NO_SOURCE)
        origin = rand_origin(rng, srcs, kind)

        # 1. encode, both forms, in the registry the construction left behind
        c_full, d_full = enc_case(origin, False)
        c_opt, d_opt = enc_case(origin, True)
        out += [c_full, c_opt]
        # 2. decode both forms in that same registry
        if d_full is not None:
            out.append(dec_case(d_full, origin, True, "full form, same registry"))
        if d_opt is not None:
            out.append(dec_case(d_opt, origin, True, "idx form, same registry"))
        # 2a. full form into an empty registry: new sources (no payload) and derived sets get registered
        if d_full is not None:
            _clear_registry()
            out.append(dec_case(d_full, origin, True, "full form, empty registry"))
        # 2b. a registry where == sources with other payloads (and possibly unrelated ones) are registered
        _clear_registry()
        alts = [alt_spec(rng, sp) for sp in leaf_specs]
        if rng.random() < 0.5:
            alts.append(rand_leaf_spec(rng))
        rng.shuffle(alts)
        if rng.random() < 0.3 and len(alts) > 1:
            alts.pop()
        for sp in alts:
            build_source(sp)
        if d_full is not None:
            out.append(dec_case(d_full, origin, True, "full form, registry of == sources with other payloads"))
        if d_opt is not None and rng.random() < 0.25:
            out.append(dec_case(d_opt, origin, False, "idx form, ANOTHER registry (indexes mean something else)"))
        # 3. optimized encoding when nothing is registered
        if rng.random() < 0.3 or kind in ("code", "multi-diff", "base-sourceset"):
            _clear_registry()
            c, _ = enc_case(origin, True, " (registry cleared after construction)")
            out.append(c)
    return out


def special_origin_dicts(rng: random.Random) -> list[Case]:
    """hand-written dicts for Origin.as_obj: singleton tags, default class, init=False fields, failures"""
    def pt(i):
        return {"__type": "CodePoint", "index": i, "line": 1, "column": i}
    src = {"__type": "MemoryTextSource", "source_uri": "sp1", "source_type": "<memory>"}
    src2 = {"__type": "FileSource", "relative_path": "a/b.txt"}
    xml = {"__type": "XMLPath", "xpath": "/r/x"}
    rg = {"__type": "CodeRange", "start": pt(2), "end": pt(7)}
    leaf1 = {"__type": "XMLFileOrigin", "source": src, "position": xml}
    leaf2 = {"__type": "CodeOrigin", "source": src2, "position": rg}
    wrong_set = {"__type": "SourceSet", "source_uri": "wrong", "source_type": "SourceSet", "sources": [src2]}
    dicts = [
        ({"__type": "NoOrigin"}, "NoOrigin tag"),
        ({"__type": "NoOrigin", "source": src, "position": xml}, "NoOrigin tag with extra keys"),
        ({"source": src, "position": xml}, "untagged: default class Origin"),
        ({"source": {}, "position": {}}, "untagged, NoSource / NoPosition"),
        ({"__type": "Origin", "source": src, "position": {"__type": "EntireSourcePosition"}}, "Origin / entire"),
        ({"__type": "XMLFileOrigin", "source": src, "position": {"xpath": "/untagged"}}, "XMLFileOrigin, untagged XMLPath"),
        ({"__type": "CodeOrigin", "source": src2, "position": {"start": pt(0), "end": pt(3)}}, "CodeOrigin, untagged range"),
        ({"__type": "GeneratedCodeOrigin", "source": src, "position": rg}, "GeneratedCodeOrigin: position in the dict ignored"),
        ({"__type": "GeneratedCodeOrigin", "source": src}, "GeneratedCodeOrigin without position"),
        ({"__type": "MultiOrigin", "source": wrong_set, "position": xml, "origins": [leaf1, leaf2]},
         "MultiOrigin: source / position in the dict ignored"),
        ({"__type": "MultiOrigin", "origins": [leaf1, leaf1, {}]}, "MultiOrigin: same source and NoOrigin"),
        ({"__type": "MultiOrigin", "origins": [leaf1, {"__type": "MultiOrigin", "origins": [leaf2, {"__type": "NoOrigin"}]}]},
         "nested MultiOrigin"),
        ({"__type": "MultiOrigin", "origins": [leaf1]}, "MultiOrigin with one origin"),
        ({"__type": "MultiOrigin", "origins": []}, "MultiOrigin with no origin"),
        ({"__type": "MultiOrigin", "origins": [leaf2, {"__type": "MultiOrigin", "origins": [leaf1]}]},
         "nested MultiOrigin with one origin"),
        ({"__type": "MultiOrigin", "source": src, "position": xml}, "MultiOrigin without origins"),
        ({"__type": "Origin", "position": xml}, "Origin without source"),
        ({"__type": "XMLFileOrigin", "source": src}, "XMLFileOrigin without position"),
        ({"__type": "Wibble", "source": src, "position": xml}, "unknown __type"),
        ({"__type": "Origin", "source": {"idx": 9}, "position": xml}, "unknown source index"),
        ({"__type": "Origin", "source": {"idx": 0}, "position": {}}, "source index 0"),
        ({"__type": "CodeOrigin", "source": {"idx": True}, "position": rg}, "source index True"),
        ({"__type": "CodeOrigin", "source": src, "position": {"__type": "CodeRange", "start": pt(7), "end": pt(2)}},
         "invalid range"),
        ({"__type": "MultiOrigin", "origins": [{"__type": "Origin", "source": {"idx": 1}, "position": {}},
                                              {"__type": "Origin", "source": {"idx": 0}, "position": xml}]},
         "MultiOrigin over indexes"),
    ]
    out = []
    for d, note in dicts:
        with controlled_registry():
            for _ in range(rng.choice([0, 1, 2, 2, 3])):
                build_source(rng.choice([rand_leaf_spec(rng), ("memory", "sp1", rng.choice(TEXTS)), ("file", False, "a/b.txt")]))
            out.append(dec_case(d, O.NO_ORIGIN, False, f"[{note}]"))
    return out


def build_probe_neq(a, b) -> bool:
    """two leaf specs describe != sources (decided on the specs: same class and same compared fields <=> ==)"""
    if a[0] != b[0]:
        return True
    if a[0] == "plain":
        return a[1:4] != b[1:4]
    if a[0] == "memory":
        return a[1] != b[1]
    return a != b


def source_scenario(rng: random.Random, kind: str) -> list[Case]:
    """one source: oc-encsrc (both forms), oc-decsrc of the results in several registries"""
    out: list[Case] = []
    with controlled_registry():
        others = [rand_leaf_spec(rng) for _ in range(rng.choice([0, 1, 2]))]
        if kind == "nosrc":
            spec = ("nosrc",)
        elif kind == "set":
            spec = rand_set_spec(rng, others)
        else:
            spec = rand_leaf_spec(rng, kind)
        mode = rng.choice(["registered", "registered", "registered", "twin", "unregistered"])
        if mode == "unregistered":
            target = build_source(spec)
            _clear_registry()
            for sp in others:
                build_source(sp)
        elif mode == "twin":
            for sp in others:
                build_source(sp)
            build_source(alt_spec(rng, spec))
            target = build_source(spec)
        else:
            cut = rng.randint(0, len(others))
            for sp in others[:cut]:
                build_source(sp)
            target = build_source(spec)
            for sp in others[cut:]:
                build_source(sp)
        note = f" ({mode})"
        c_full, d_full = encsrc_case(target, False, note)
        c_opt, d_opt = encsrc_case(target, True, note)
        out += [c_full, c_opt]
        if d_full is not None:
            out.append(decsrc_case(d_full, "full form, same registry", target))
        if d_opt is not None:
            out.append(decsrc_case(d_opt, "idx form, same registry", target))
        if d_full is not None:
            _clear_registry()
            out.append(decsrc_case(d_full, "full form, empty registry", target))
            if rng.random() < 0.6:
                _clear_registry()
                alts = [alt_spec(rng, l) for l in leaves_of(spec)] + [rand_leaf_spec(rng)]
                rng.shuffle(alts)
                for sp in alts[:rng.randint(1, len(alts))]:
                    build_source(sp)
                out.append(decsrc_case(d_full, "full form, registry of == sources with other payloads", target))
    return out


def negative_source_cases(rng: random.Random) -> list[Case]:
    out: list[Case] = []
    dicts = [
        ({"idx": 99}, "unknown index"),
        ({"idx": "1"}, "idx is a str"),
        ({"idx": -1}, "negative idx"),
        ({"idx": 2 ** 70}, "huge idx"),
        ({"idx": [1]}, "idx is a list"),
        ({"__type": "Wibble", "source_uri": "u", "source_type": "t"}, "unknown __type"),
        ({"__type": "FileSource"}, "FileSource without relative_path"),
        ({"__type": "TextFileSource", "source_uri": "a/b", "source_type": "File"}, "TextFileSource without relative_path"),
        ({"__type": "ZippedFileSource", "relative_path": "a/b.zip"}, "ZippedFileSource without in_zip_path"),
        ({"__type": "Source", "source_uri": "u"}, "Source without source_type"),
        ({"__type": "TextSource", "source_type": "t"}, "TextSource without source_uri"),
        ({"__type": "SourceSet"}, "SourceSet without sources"),
        ({"__type": "NoSource", "source_uri": "x"}, "NoSource tag with extra keys"),
        ({}, "empty dict"),
        ({"idx": True}, "idx True"),
        ({"idx": False}, "idx False"),
        ({"idx": 0}, "idx 0"),
        ({"idx": 1, "__type": "FileSource"}, "idx wins over the rest of the dict"),
        ({"source_uri": "u v", "source_type": "t"}, "untagged: default class Source"),
        ({"idx": None, "__type": "TextSource", "source_uri": "a", "source_type": "text"}, "idx None: full form"),
        ({"__type": "FileSource", "relative_path": "a/b.txt"}, "FileSource, only the init field"),
        ({"__type": "ZippedFileSource", "source_uri": "wrong", "source_type": "wrong", "relative_path": "z.zip",
          "in_zip_path": "in/side.txt"}, "derived uri / type in the dict are ignored"),
        ({"__type": "SourceSet", "source_uri": "wrong", "sources": [{}, {"idx": 0}, {"__type": "MemoryTextSource",
                                                                                   "source_uri": "new"}]},
         "SourceSet with NoSource, idx and full members"),
        ({"__type": "SourceSet", "sources": []}, "empty SourceSet"),
        ({"__type": "SourceSet", "sources": [{"idx": 7}]}, "SourceSet with an unknown member index"),
    ]
    for d, note in dicts:
        with controlled_registry():
            for _ in range(rng.choice([0, 1, 2, 2, 3, 3])):
                build_source(rand_leaf_spec(rng) if rng.random() < 0.8 else rand_set_spec(rng, []))
            out.append(decsrc_case(d, f"[{note}]"))
    return out


def strip_tags(d, top: bool):
    """remove `__type` from the top level (top=True) and from every CodePoint dict"""
    if isinstance(d, dict):
        drop = top or d.get("__type") == "CodePoint"
        return {k: strip_tags(v, False) for k, v in d.items() if not (drop and k == "__type")}
    if isinstance(d, list):
        return [strip_tags(x, False) for x in d]
    return d


def position_cases(rng: random.Random, kind: str | None) -> list[Case]:
    p = rand_pos(rng, kind)
    out: list[Case] = []
    real, d = outcome(lambda: p.as_dict(), lambda r: [enc_j(r)])
    out.append(Case("oc:pos", dumps([A("oc-encpos"), enc_pos(p)]), dumps(real), p is not O.NO_POSITION,
                    f"Position.as_dict {p!r}", sig=SIG + "pos"))
    if d is None:
        return out
    out.append(decpos_case(O.Position, d, "tagged, via Position", p))
    if type(p) in (O.XMLPath, O.CodeRange, O.PositionSet) and rng.random() < 0.6:
        # untagged top level (and untagged CodePoints): the class the method is called on is the default
        out.append(decpos_case(type(p), strip_tags(d, True), "untagged, via its own class", p))
    return out


def negative_position_cases(rng: random.Random) -> list[Case]:
    def pt(i, l=1, c=0, tag=True):
        d = {"__type": "CodePoint"} if tag else {}
        d.update({"index": i, "line": l, "column": c})
        return d
    a = rng.randint(3, 9)
    dicts = [
        (O.Position, {"__type": "CodeRange", "start": pt(a), "end": pt(a - rng.randint(1, 3))}, "start.index > end.index"),
        (O.CodeRange, {"start": pt(a, tag=False), "end": pt(0, tag=False)}, "start.index > end.index, untagged"),
        (O.Position, {"__type": "CodeRange", "start": pt(-1), "end": pt(a)}, "negative index"),
        (O.Position, {"__type": "CodeRange", "start": pt(0, 0), "end": pt(a)}, "line 0"),
        (O.Position, {"__type": "CodeRange", "start": pt(0), "end": pt(a, 1, -2)}, "negative column"),
        (O.Position, {"__type": "PositionSet", "positions": [{}, {"__type": "CodeRange", "start": pt(2), "end": pt(1)}]},
         "invalid range inside a PositionSet"),
        (O.Position, {"__type": "Wibble"}, "unknown __type"),
        (O.Position, {"__type": "CodeRange", "start": pt(0)}, "CodeRange without end"),
        (O.Position, {"__type": "XMLPath"}, "XMLPath without xpath"),
        (O.Position, {"__type": "PositionSet"}, "PositionSet without positions"),
        (O.Position, {"__type": "NoPosition", "xpath": "/x"}, "NoPosition tag with extra keys"),
        (O.EntireSourcePosition, {}, "empty dict via EntireSourcePosition is NoPosition"),
        (O.XMLPath, {"__type": "EntireSourcePosition", "xpath": "/x"}, "the tag wins over the class"),
        (O.Position, {"__type": "CodeRange", "start": pt(a), "end": pt(a, 7, 7)}, "empty range, incoherent points"),
    ]
    return [decpos_case(cls, d, f"[{note}]") for cls, d, note in dicts]


def registry_specs(rng: random.Random) -> list:
    """k in 1..5 source descriptions; a set only refers to descriptions generated before it, to fresh leaves or NO_SOURCE
    (construction builds the members first, so every set is registered AFTER its members)"""
    specs: list = []
    for _ in range(rng.randint(1, 5)):
        k = rng.random()
        if k < 0.3:
            specs.append(rand_set_spec(rng, specs))
        elif k < 0.45:
            # distinct sources sharing (source_type, source_uri), registered before whatever follows
            specs += twin_specs(rng, rng.choice(TWIN_KINDS))
        else:
            specs.append(rand_leaf_spec(rng))
    return specs


def registry_scenario(rng: random.Random) -> list[Case]:
    out: list[Case] = []
    with controlled_registry():
        specs = registry_specs(rng)
        for sp in specs:
            build_source(sp)
        originals = registry()
        line = dumps([A("oc-all"), enc_reg(originals)])
        real, dicts = outcome(Source.all_as_dict, lambda r: [enc_j(x) for x in r])
        out.append(Case("oc:registry", line, dumps(real), len(originals) > 1, f"all_as_dict of {originals!r}",
                        sig=SIG + "registry"))
        if dicts is None:
            return out
        # load into an empty registry: indexes are preserved
        _clear_registry()
        line = dumps([A("oc-load"), enc_reg([])] + [enc_j(x) for x in dicts])
        real, _ = outcome(lambda: Source.load_serialized_sources(dicts) or True, lambda r: [enc_reg()])
        fail = None
        loaded = registry()
        if len(loaded) != len(originals):
            fail = f"{len(originals)} sources serialized, {len(loaded)} registered after loading"
        else:
            for i, s in enumerate(originals):
                if not (loaded[i] == s) or type(loaded[i]) is not type(s):
                    fail = f"index {i}: loaded {loaded[i]!r}, original {s!r}"
                    break
                try:
                    r = Source.as_obj({"idx": i})
                except Exception as e:  # noqa
                    fail = f"as_obj(idx {i}) raised {type(e).__name__}"
                    break
                if not (r == s):
                    fail = f"as_obj(idx {i}) = {r!r}, original {s!r}"
                    break
        out.append(Case("oc:registry", line, dumps(real), len(originals) > 1,
                        f"clear_registry; load_serialized_sources(all_as_dict()) originals={originals!r}", oracle_fail=fail,
                        sig=SIG + "registry"))
        # load into a non-empty registry: indexes shift (model agreement only)
        _clear_registry()
        if rng.random() < 0.35 and leaves_of(specs[-1]):
            first = alt_spec(rng, rng.choice(leaves_of(specs[-1])))     # == one of the loaded sources
        else:
            first = rand_leaf_spec(rng) if rng.random() < 0.8 else rand_set_spec(rng, [])
        build_source(first)
        before = registry()
        line = dumps([A("oc-load"), enc_reg(before)] + [enc_j(x) for x in dicts])
        real, _ = outcome(lambda: Source.load_serialized_sources(dicts) or True, lambda r: [enc_reg()])
        out.append(Case("oc:registry", line, dumps(real), True,
                        f"load_serialized_sources into the non-empty registry {before!r}; dicts of {originals!r}",
                        sig=SIG + "registry"))
    return out


TWIN_KINDS = ["file/textfile", "textfile/file", "zipped/file", "file/zipped", "plain/text", "plain/memory", "plain/file",
              "plain/set", "file/textfile/zipped"]


def twin_specs(rng: random.Random, kind: str) -> list:
    """DISTINCT sources (different classes, hence `!=`) that read as the same (source_type, source_uri)"""
    if kind in ("file/textfile", "textfile/file"):
        p = rng.choice(PATHS)
        pair = [("file", False, p), ("file", True, p)]
        return pair if kind == "file/textfile" else pair[::-1]
    if kind in ("zipped/file", "file/zipped", "file/textfile/zipped"):
        rel, z = rng.choice(["z.zip", "dir/a.zip", "sp ace/é.zip"]), rng.choice(["in/side.txt", "x.py", "deep/er/f"])
        joined = rel + "::" + z                                  # FileSource(Path("z.zip::x.py")) is "File"@"z.zip::x.py" too
        if kind == "file/textfile/zipped":
            return [("file", False, joined), ("file", True, joined), ("zipped", rel, z)]
        pair = [("zipped", rel, z), ("file", rng.random() < 0.5, joined)]
        return pair if kind == "zipped/file" else pair[::-1]
    if kind == "plain/text":
        u, t = rng.choice(URIS), rng.choice(STYPES)
        return [("plain", False, u, t, None), ("plain", True, u, t, rng.choice([None, "abc"]))]
    if kind == "plain/memory":
        u = rng.choice(MEM_URIS)
        return [("plain", rng.random() < 0.5, u, "<memory>", None), ("memory", u, rng.choice([None, "abc"]))]
    if kind == "plain/file":
        p = rng.choice(PATHS)
        return [("plain", False, p, "File", None), ("file", rng.random() < 0.5, p)]
    if kind == "plain/set":
        return [("plain", False, "SourceSet(a/b.txt||x.py)", "SourceSet", None),
                ("set", (("file", False, "a/b.txt"), ("file", True, "x.py")))]
    raise ValueError(kind)


def twin_registry_scenario(rng: random.Random, kind: str) -> list[Case]:
    """the index round trip when DISTINCT sources share (source_type, source_uri): they are registered BEFORE other sources
    which are then referenced by index; `Source.all_as_dict()`, a fresh registry, `load_serialized_sources`, and every
    index — those of the twins and those after them — must still name the same source (a loader that identifies sources
    by type and uri instead of `==` drops a twin and shifts every later index)"""
    out: list[Case] = []
    with controlled_registry():
        specs = []
        if rng.random() < 0.5:
            specs.append(rand_leaf_spec(rng))
        twins = twin_specs(rng, kind)
        specs += twins
        later = [rand_leaf_spec(rng) for _ in range(rng.randint(1, 2))]
        if rng.random() < 0.5:
            later.append(("set", (twins[-1], later[0])))
        specs += later
        built = [build_source(sp) for sp in specs]
        originals = registry()
        note = f" [twins {kind}]"
        line = dumps([A("oc-all"), enc_reg(originals)])
        real, dicts = outcome(Source.all_as_dict, lambda r: [enc_j(x) for x in r])
        out.append(Case("oc:registry", line, dumps(real), True, f"all_as_dict of {originals!r}{note}",
                        sig=SIG + "registry-twins"))
        if dicts is None:
            return out
        # origins that refer by index to a twin, to a source registered after the twins, and to both
        last = built[-1]
        referenced = [O.XMLFileOrigin(last, O.XMLPath("/r")),
                      O.CodeOrigin(built[specs.index(twins[-1])], O.get_code_range(0, 1, 0, 3, 1, 3)),
                      O.MultiOrigin([O.GeneratedCodeOrigin(built[specs.index(twins[0])]),
                                     O.XMLFileOrigin(built[specs.index(later[0])], O.XMLPath("/r/x[2]"))])]
        originals = registry()                    # the MultiOrigin registered its derived SourceSet
        dicts = Source.all_as_dict()
        encoded = []
        for o in referenced:
            c, d = enc_case(o, True, "")
            c.desc += note
            out.append(c)
            encoded.append((o, d))
        # the fresh process: empty registry, load the table
        _clear_registry()
        line = dumps([A("oc-load"), enc_reg([])] + [enc_j(x) for x in dicts])
        real, _ = outcome(lambda: Source.load_serialized_sources(dicts) or True, lambda r: [enc_reg()])
        loaded = registry()
        fail = None
        if len(loaded) != len(originals):
            fail = f"{len(originals)} sources serialized, {len(loaded)} registered after loading"
        else:
            for i, src in enumerate(originals):
                if type(loaded[i]) is not type(src) or not (loaded[i] == src):
                    fail = f"index {i}: loaded {loaded[i]!r}, original {src!r}"
                    break
                try:
                    r = Source.as_obj({"idx": i})
                except Exception as e:  # noqa
                    fail = f"as_obj(idx {i}) raised {type(e).__name__}"
                    break
                if type(r) is not type(src) or not (r == src):
                    fail = f"as_obj(idx {i}) = {r!r}, original {src!r}"
                    break
        out.append(Case("oc:registry", line, dumps(real), True,
                        f"clear_registry; load_serialized_sources(all_as_dict()){note} originals={originals!r}",
                        oracle_fail=fail, sig=SIG + "registry-twins"))
        # index forms written before, read after the reload: model agreement + the round-trip oracle (== original)
        for o, d in encoded:
            if d is None:
                continue
            c = dec_case(d, o, True, f"idx form written before, read after reloading all_as_dict(){note}")
            c.sig = SIG + "registry-twins"
            out.append(c)
    return out


def illordered_scenario(rng: random.Random) -> list[Case]:
    """construct c; clear_registry; construct a, b, SourceSet((b, c)), then an equal copy of c: the set is registered
    BEFORE its member c.  Only model vs real is compared; what happens to the indexes is recorded in `desc`."""
    out: list[Case] = []
    with controlled_registry():
        kinds = rng.sample(LEAF_KINDS, 3)
        sa, sb, sc = (rand_leaf_spec(rng, k) for k in kinds)
        c = build_source(sc)
        _clear_registry()
        build_source(sa)
        b = build_source(sb)
        O.SourceSet((b, c))
        build_source(alt_spec(rng, sc) if rng.random() < 0.5 else sc)
        originals = registry()
        line = dumps([A("oc-all"), enc_reg(originals)])
        real, dicts = outcome(Source.all_as_dict, lambda r: [enc_j(x) for x in r])
        out.append(Case("oc:registry-illordered", line, dumps(real), True, f"all_as_dict of {originals!r}",
                        sig=SIG + "registry-illordered"))
        if dicts is None:
            return out
        _clear_registry()
        line = dumps([A("oc-load"), enc_reg([])] + [enc_j(x) for x in dicts])
        real, _ = outcome(lambda: Source.load_serialized_sources(dicts) or True, lambda r: [enc_reg()])
        loaded = registry()
        moved = []
        for i, s in enumerate(originals):
            j = next((k for k, x in enumerate(loaded) if x == s), None)
            if j != i:
                moved.append(f"{type(s).__name__} {i}->{j}")
        what = ("index round trip FAILS: " + ", ".join(moved)) if moved else "index round trip holds"
        out.append(Case("oc:registry-illordered", line, dumps(real), True,
                        f"{what}; clear_registry; load_serialized_sources(all_as_dict()) originals={originals!r} "
                        f"loaded={loaded!r}", sig=SIG + "registry-illordered"))
        # and an origin over c written in idx form before, read after the reload
        _clear_registry()
        for s in originals:
            type(s).__post_init__(s)          # re-register the very instances, in the original (ill) order
        if len(originals) < 4:
            out.append(Case("oc:registry-illordered", None, None, True,
                            f"the registry lists {len(originals)} sources after 4 were constructed: {originals!r}",
                            oracle_fail="a constructed source is missing from the registry listing", sig=SIG + "registry-illordered"))
            return out
        o = O.XMLFileOrigin(originals[3], O.XMLPath("/r"))
        c_enc, d = enc_case(o, True, " (ill-ordered registry)")
        c_enc.kind, c_enc.sig = "oc:registry-illordered", SIG + "registry-illordered"
        out.append(c_enc)
        if d is not None:
            _clear_registry()
            Source.load_serialized_sources(dicts)
            c_dec = dec_case(d, o, False, "idx form written in the ill-ordered registry, read after reloading all_as_dict()")
            r = None
            try:
                r = O.Origin.as_obj(d)
            except Exception:  # noqa
                pass
            c_dec.desc = (f"decoded origin {'==' if r == o else '!='} original ({r!r} vs {o!r}); ") + c_dec.desc
            c_dec.kind, c_dec.sig, c_dec.oracle_fail = "oc:registry-illordered", SIG + "registry-illordered", None
            out.append(c_dec)
            # the property itself (index-based serialization round-trips once the sources are loaded) on the real code
            out.append(Case("oc:index-roundtrip-oracle", None, None, True, c_dec.desc,
                            oracle_fail=None if r == o else
                            f"index-based source serialization came back as another origin: {r!r} instead of {o!r}",
                            sig="source-index|set-registered-before-member"))
    return out


def mk_scenario(rng: random.Random, n: int | None) -> list[Case]:
    with controlled_registry():
        leaf_specs = [rand_leaf_spec(rng, k) for k in rng.sample(LEAF_KINDS, rng.choice([1, 2, 3]))]
        srcs = [build_source(sp) for sp in leaf_specs]
        if rng.random() < 0.4:
            srcs.append(build_source(alt_spec(rng, leaf_specs[0])))
        if rng.random() < 0.3:
            srcs.append(O.NO_SOURCE)
        if rng.random() < 0.3:
            srcs.append(O.SourceSet(tuple(rng.sample(srcs, min(2, len(srcs))))))
        if n is None:
            n = rng.choice([2, 2, 3, 3, 4, 5])
        if rng.random() < 0.3 and n >= 2:
            s = rng.choice(srcs)
            group = [x for x in srcs if x == s]
            members = [rand_origin(rng, group, rng.choice(["code", "generated", "xml", "base"]), 1) for _ in range(n)]
        else:
            members = [rand_origin(rng, srcs, None, 1) for _ in range(n)]
        if n >= 2 and rng.random() < 0.25:
            # the derived SourceSet is already registered (an equal one was derived before)
            O.MultiOrigin(origins=list(members))
        reg = registry()
        line = dumps([A("oc-mk"), enc_reg(reg)] + [enc_org(m, False) for m in members])
        arg = members if rng.random() < 0.7 else tuple(members)
        real, r = outcome(lambda: O.MultiOrigin(origins=arg), lambda x: [enc_reg(), enc_org(x, True)])
        fail = None
        if n < 2 and r is not None:
            fail = f"MultiOrigin accepted {n} origins"
        if n >= 2 and r is None:
            fail = f"MultiOrigin rejected {n} origins: {dumps(real)}"
        return [Case("oc:mk", line, dumps(real), n >= 2, f"MultiOrigin(origins={members!r}) registry-before={reg!r}",
                     oracle_fail=fail, sig=SIG + "mk")]


def nested_missing_cases() -> list[Case]:
    """a required key missing in a nested dict (InvalidFieldValue, not MissingField)"""
    out = []
    with controlled_registry():
        for d in ({"__type": "SourceSet", "sources": [{"__type": "FileSource"}]},):
            c = decsrc_case(d, "[nested missing key]")
            c.kind, c.sig = "oc:nested-missing", SIG + "nested-missing"
            out.append(c)
        for d in ({"__type": "Origin", "source": {"__type": "FileSource"}, "position": {}},
                  {"__type": "Origin", "source": {}, "position": {"__type": "XMLPath"}},
                  {"__type": "MultiOrigin", "origins": [{}, {"__type": "Origin", "source": {}}]}):
            c = dec_case(d, O.NO_ORIGIN, False, "[nested missing key]")
            c.kind, c.sig = "oc:nested-missing", SIG + "nested-missing"
            out.append(c)
        for d in ({"__type": "PositionSet", "positions": [{"__type": "XMLPath"}]},
                  {"__type": "CodeRange", "start": {"index": 0, "line": 1}, "end": {"index": 0, "line": 1, "column": 0}}):
            c = decpos_case(O.Position, d, "[nested missing key]")
            c.kind, c.sig = "oc:nested-missing", SIG + "nested-missing"
            out.append(c)
    return out


# ----------------------------------------------------------------------------------------- entry point

def origin_cases(rng: random.Random, tier: str, known_divergent: bool = True):
    """quick: ~200 cases, thorough: ~1500.  Every scenario is computed completely (inside `controlled_registry`) before
    its cases are yielded, so the real registry is never left swapped while the consumer runs."""
    f = 1.0 if tier == "quick" else 7.5

    def count(base: int) -> int:
        return int(base * f)

    # origins: every directed kind once, then random ones
    for k in ORIGIN_KINDS:
        yield from origin_scenario(rng, k)
    for _ in range(5):          # (equal but distinct source objects inside one multi-origin: several draws of sources / members)
        yield from origin_scenario(rng, "multi-twins")
    for _ in range(0 if tier == "quick" else 95):
        yield from origin_scenario(rng, None)
    for _ in range(1 if tier == "quick" else 3):
        yield from special_origin_dicts(rng)
    # sources
    skinds = LEAF_KINDS + ["set", "nosrc"]
    for i in range(count(len(skinds))):
        yield from source_scenario(rng, skinds[i % len(skinds)])
    for _ in range(1 if tier == "quick" else 4):
        yield from negative_source_cases(rng)
    # positions
    for i in range(count(8)):
        yield from position_cases(rng, POS_KINDS[i] if i < len(POS_KINDS) else None)
    for _ in range(1 if tier == "quick" else 3):
        yield from negative_position_cases(rng)
    # registry
    for _ in range(count(5)):
        yield from registry_scenario(rng)
    for _rep in range(3):
        for k in TWIN_KINDS:
            yield from twin_registry_scenario(rng, k)
    for _ in range(0 if tier == "quick" else 30):
        yield from twin_registry_scenario(rng, rng.choice(TWIN_KINDS))
    for _ in range(count(1)):
        yield from illordered_scenario(rng)
    # MultiOrigin construction
    yield from mk_scenario(rng, 0)
    yield from mk_scenario(rng, 1)
    for _ in range(count(10)):
        yield from mk_scenario(rng, None)
    if tier != "quick":
        yield from mk_scenario(rng, 1)
    if known_divergent:
        yield from nested_missing_cases()
