"""C19 — a rejected legacy operation changes nothing.

Histories as in C18 followed by operations generated on purpose to be rejected, the rejection
arising at every possible point (first / middle / last child, direct child or grandchild, detached
or attached siblings, every kind of receiver).  After every rejected call the observables of every
pre-existing object and the registry are compared with the snapshot taken before the call (frame
oracle on the real objects); the whole history -- including the transform visitor / transformer
operations -- is also compared with the Lean state machine (K1)."""
from __future__ import annotations

import random

import legacy_machine as M

PROPERTY = "C19"
LEAN_MODULE = "PyOak.Props.C19TransformGen"   # imports PyOak.Props.C19Transform, PyOak.Props.C19
THEOREMS = ["PyOak.Legacy.C19." + t for t in [
    "fail_frame_new", "fail_frame_attach", "detach_never_rejected", "fail_frame_replace_keys",
    "replace_rollback_frame", "fail_frame_replace", "fail_frame_rwith_precheck",
    "rwith_rollback_root", "rwith_rollback_parent", "fail_frame_rwith", "fail_frame_dup",
]] + ["PyOak.Legacy." + t for t in [
    "attach_fail_frame", "construct_fail_frame", "attachPlan_desc", "commit_restore", "reattach_frame",
    "attach_err_kind", "attach_effect", "construct_newOnly", "duplicate_all",
]] + ["PyOak.Legacy.C19T." + t for t in [
    "frameG_of_newOnly", "FrameG.frame_of_reg", "replace_local", "local_step", "localRun_frameG",
    "tvisit_fail_before_commit_frame_partial", "tvisit_fail_at_only_commit_frame_partial",
    "texec_partial_commit_fails", "tvisit_detached_partial_commit_fails",
    # Props/C19TransformGen.lean: the visit of a clone is clone-local, for every state / receiver / rule table
    "construct_detached_eff", "replace_detached_stable", "new_kidless_stable", "cloneSub_stable", "tKids_local",
    "tFields_local", "wfFor_of", "replace_step_local", "visitBody_local", "visitGo_local", "duplicate_clone_reg",
    "step_dup_clone_reg", "tvisit_fail_in_visit_frame", "fail_frame_tvisit_in_visit", "fail_frame_tvisit_in_visit_exact",
]]
# AUDIT #3 (Props/C19Rejected.lean, C19RejectedBridge.lean): the invariant survives a rejected step, one uniform
# frame theorem, histories that mix accepted and rejected operations
THEOREMS += ["PyOak.Legacy.C19." + t for t in [
    "inv_of_frame", "construct_fail_garbage", "construct_fail_inv", "replace_fail_garbage",
    "rwith_rollback_root_all", "rwith_rollback_parent_all", "fail_frameAll_rwith",
    "rejected_step", "inv_step_rejected", "fail_frame_step", "fail_frame_step_nodup", "fail_frame_step_G",
    "inv_step_any", "inv_run_mixed", "inv_run_mixed_init", "mixedRun_of_goodRun", "frame_run_rejected",
    # Props/C19RwithErr.lean: the error classes of replace_with under Inv (`internal` unreachable)
    "rwith_field_found", "rwith_err_kind_partial", "rwith_not_internal", "step_rwith_err_kind_partial",
]]
PARTIAL = [
    "rejected_step / inv_step_rejected / fail_frame_step / inv_run_mixed / frame_run_rejected cover every operation and "
    "every error except `hang` (the call does not return); for replace_with the covered rejection is "
    "ASTNodeReplaceWithError; rwith_err_kind_partial proves that under Inv its only other exits are `hang` and a registry / "
    "parent collision raised by the re-attachment of the receiver inside the roll-back (`internal` is unreachable); that "
    "this re-attachment never collides is NOT proved (rwith_err_kind, open)",
    "fail_frame_dup is stated without the garbage collection: it proves that a rejected duplicate leaves every "
    "pre-existing record and registry entry untouched and that any additional entry belongs to an object created by the "
    "rejected call; that these temporaries are gone when the call returns is the weak registry (gcNew in "
    "Handle/Legacy.lean, glue outside `step`)",
    "transform visitor / ASTTransformer.execute (Model/LegacyTransform.lean): fail_frame_tvisit_in_visit proves, for ALL "
    "states / attached receivers / rule tables (made nodes = constructor calls without children), that a transform "
    "rejected while its clone is being visited keeps Inv and the frame modulo the call's own temporaries (FrameG, the "
    "formulation of fail_frame_dup; plain Frame when the registry is unchanged); tvisit_fail_at_only_commit_frame_partial "
    "(rejected BY the final replace_with of the receiver) and tvisit_fail_before_commit_frame_partial (any receiver) "
    "carry the decidable hypothesis that the primitive steps before the commit are clone-local (LocalRun); the known "
    "findings (no roll-back across several replaced nodes) are decide-checked witnesses texec_partial_commit_fails / "
    "tvisit_detached_partial_commit_fails; frame oracle on the real objects + K1 on every run",
]
RULE = ("seeded histories (0-25 generated operations) followed by 3 operations built to be rejected, drawn from: "
        "constructor with a repeated child / one object below a detached wrapper and directly / twin ids / a child attached elsewhere / a stale child whose id is "
        "registered / an id collision under ensure_unique_id; attach of a detached tree containing such a node; "
        "replace with forbidden keys, repeated children, parent or registry collision; replace_with an attached "
        "subtree, None on a required field, a node of a class the parent does not accept, a node that cannot be "
        "attached; visitor raising at the first / middle / last leaf, removing a required child, producing a wrong "
        "class; transformer producing a wrong class after an earlier replacement -- the offending node placed "
        "first / middle / last, as direct child or wrapped 1-2 levels deep, next to attached and detached siblings, "
        "receivers attached roots, attached subtrees and detached nodes; every rejected call (documented error "
        "class) is one frame case; non-trivial when >= 4 objects exist; distinct by history / operation text")
TRUSTED = ["sha256 idealised (equality patterns), weak registry as in C18"]
ASSUMPTIONS = ["the history before the rejected call is admissible (no cycle, no object twice in a built value); the "
               "rejected call itself may repeat an object among the direct children (that is what the duplicate check "
               "rejects) but never deeper, except the directed constructor `new-dup-deep` (an attached root below a detached "
               "wrapper and directly)",
               "constructor arguments original_id / id_collision_with are left at None",
               "an exception raised by a user callback of ASTTransformer.execute is not a documented error (not generated)"]
BUDGET = {"quick": 240, "thorough": 2400}


def cases(rng: random.Random, tier: str):
    n_prim, n_tr = (150, 80) if tier == "quick" else (3000, 1600)
    yield from M.history_cases(rng, "C19", n_prim, n_tr, (0, 25), 3)


def extra_coverage():
    return {"traces_validated_against_impl": M.STATS.get("ops_compared_with_model", 0), "distribution_ops": dict(M.STATS)}
