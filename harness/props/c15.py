"""C15 — origin algebra: interval laws, hull merging, flat multi-origins, exact slices.

Tie to /repo, both mechanisms of DESIGN 1/4:
  (a) translation: `pre_build` runs harness/py2lean.py on $PYOAK_REPO/src/pyoak/origin.py and rewrites
      lean/PyOak/Gen/Origin.lean (only when the text changes); Props/C15.lean proves the laws about these generated
      definitions, so a semantic change of a kernel breaks the build => broken tie => the in-process oracles below
      are the search for a failing input (they never need the driver);
  (b) correspondence: every case runs the real code and the Lean driver (generated kernels + hand model of
      merge/concat/+/MultiOrigin/fqn/get_raw) on the same input and compares canonical observations;
      exhaustively on the grid (points 0..4: all pairs and triples of valid ranges), tuples of up to four origins of
      every kind over three sources, texts x ranges for get_raw.
"""
from __future__ import annotations

import atexit
import itertools
import random
import re
from pathlib import Path

from pyoak import origin as O

from proto import A, dumps
from run import Case
import py2lean

PROPERTY = "C15"
LEAN_MODULE = "PyOak.Props.C15All"
THEOREMS = ["PyOak.C15." + t for t in [
    # kernels (about the generated definitions)
    "point_valid_iff", "range_valid_iff", "mkPoint_accepts", "mkRange_accepts", "point_lt_iff", "point_le_iff",
    "contains_iff", "contains_refl", "contains_trans", "contains_antisymm_index", "contains_antisymm",
    "overlaps_symm", "overlaps_iff", "overlaps_touching", "overlaps_of_contains", "lt_iff", "lt_not_overlaps",
    "not_overlaps_iff", "add_contains_left", "add_contains_right", "add_least", "add_index", "add_valid",
    "rangeAdd_ok", "add_comm_index", "add_comm", "add_assoc_index", "add_assoc", "add_idem", "add_absorb_index",
    "get_code_range_eq", "empty_range_eq", "codeAdd_narrow", "codeAdd_some", "codeAdd_none", "codeAdd_other_none",
    # merge / + / concat / MultiOrigin / fqn / get_raw (hand model)
    "mkMulti_spec", "mkMulti_short", "merge_single", "merge_spec", "merge_ok", "merge_flat_spec", "merge_flat",
    "merge_flat_cases", "add_eq_merge", "add_code_same_source_overlap", "getRaw_code", "add_code_get_raw",
    "slice_getElem?", "slice_length", "add_flat", "concat_nil", "concat_cons", "concat_flat", "specStep_eq_append",
    "fqn_compose", "fqn_none", "posSet_fqn", "srcSet_fqn", "codePos_fqn", "multi_fqn",
    # Props/C15Total.lean: totality and validity preservation (no `= .ok r` hypothesis)
    "codeValidList_iff", "codeValid_leaves", "rangeWF_add", "pack_ok", "pack_codeValid", "merge_codeValid",
    "merge_valid", "add_valid_of_overlaps", "add_fuse", "add_total", "add_codeValid", "add_ok", "concat_total",
    "concat_codeValid", "concat_ok", "add_inText", "add_inText_fails",
    # Props/C15Source.lean: == on sources is an equivalence; source of a multi-origin
    "srcBeq_refl", "srcBeqList_refl", "srcBeq_symm", "srcBeqList_symm", "srcBeq_trans", "srcBeqList_trans",
    "src_eq_refl", "src_eq_symm", "src_eq_trans", "src_eq_one", "src_eq_one_set", "srcBeqList_iff", "src_eq_set",
    "mergeable_symm", "mergeable_self", "common_iff_pairwise", "commonSrc_perm", "mkMulti_common", "mkMulti_source",
    "mkMulti_common_perm", "sourceSet_keeps_duplicates", "merge_source",
    # Props/C15Concat.lean: concat as a statement about the operand list
    "add_none_right", "add_none_left", "add_mergeable", "add_unfused", "concat_live_tail", "concat_live", "merge_live",
    "concat_multi", "concat_fuseFrom", "concat_eq_merge_fuse", "fuseLive_of_not_headFusable", "fuseFrom_length",
    "fuseLive_length_lt", "fuseFrom_flat", "fuseLive_flat", "concat_eq_merge_iff", "headFusable_adj", "concat_eq_merge",
    "concat_lists_operands", "concat_lists_fused", "concat_eq_merge_adjacent_fails", "concat_inner_not_fused",
    # Props/C15Boundary.lean: nested operands; slice / toNat / Python slicing
    "merge_keeps_nonleaf", "nested_built", "nested_operand_stays_nested", "nested_none_stays", "rangeWF_nonneg",
    "accepted_range_nonneg", "slice_eq_pySlice", "pySlice_inside", "getRaw_pySlice", "getRaw_constructed",
    "add_get_raw_pySlice", "slice_negative_fails",
    # Props/C15Gen.lean: the GENERATED CodeRange.fqn bridged to the hand model
    "intStr_eq_pyIntStr", "range_fqn_generated", "range_fqn_spec", "code_fqn_generated"]]
RULE = ("exhaustive: all (index,line,column) on a small grid for point validity, all pairs of points 0..5 for range "
        "validity, all pairs (225) and triples (3375) of valid ranges over points 0..4 for the interval laws, all pairs "
        "(a+b) and triples (merge, concat) over a pool of origins of every kind (NoOrigin, CodeOrigin with "
        "touching/overlapping/nested/disjoint ranges, GeneratedCodeOrigin, XMLFileOrigin, plain Origin, flat "
        "MultiOrigin) over three sources (two of them == with different texts), all pairs and triples over a pool of "
        "fqn-twins (distinct sources with EQUAL fqn: same uri with another source_type, MemoryTextSource vs FileSource "
        "vs TextSource of one path; told to the model as different keys with the same fqn text) and of "
        "equal-but-not-identical sources (one key), 4-tuples over a reduced pool "
        "(quick) / the full pool (thorough), all texts x ranges 0..6 for get_raw; plus seeded random cases with "
        "incoherent points (equal index, different line/column: compared on indices only), big integers and more "
        "sources. Non-trivial = operands not all identical / at least two non-empty operands; distinct by request line")
TRUSTED = ["py2lean (harness/py2lean.py): Python-AST -> Lean translation of the pure kernels of origin.py, incl. the typing "
           "table, Python's reflected-comparison rule and the tie rule of min/max; validated on every run by executing the "
           "generated definitions next to the real methods on the exhaustive grid",
           "dataclass-generated __eq__ of Source subclasses (a source is identified by the key of its ==-class)"]
ASSUMPTIONS = ["laws are stated on indices unconditionally and on == under coherence (equal index => equal point): "
               "results built from points with equal index but different line/column are compared on indices only",
               "multi-origin statements are for flat operands (everything the API produces from flat operands is flat: "
               "theorems merge_flat / add_flat / concat_flat, and without assuming a result merge_valid / add_ok / concat_ok); "
               "user-built nested MultiOrigins are not generated (boundary marked by merge_keeps_nonleaf / "
               "nested_operand_stays_nested: a nested operand stays nested, in the model and in the real code)",
               "get_raw slice is stated for 0 <= start.index <= end.index (the only ranges the constructors accept: "
               "accepted_range_nonneg; there get_raw = Python's text[start:end], getRaw_pySlice; slice_negative_fails marks "
               "the outside)"]
BUDGET = {"quick": 200, "thorough": 1800}

GEN_FILES = ("PyOak/Gen/Origin.lean", "PyOak/Props/C15.lean", "PyOak/Model/Origin.lean", "PyOak/Spec/Origin.lean",
             "PyOak/Handle/Origin.lean", "PyOak/Props/C15Total.lean", "PyOak/Props/C15Source.lean",
             "PyOak/Props/C15Concat.lean", "PyOak/Props/C15Boundary.lean", "PyOak/Props/C15Gen.lean")
_state = {"target": None, "prev": None}


def pre_build(repo: Path, lean: Path) -> list[str]:
    target = Path(lean) / "PyOak" / "Gen" / "Origin.lean"
    _state["target"] = target
    _state["prev"] = target.read_text() if target.exists() else None
    return [f"translator:{f}" for f in py2lean.regenerate(Path(repo), Path(lean))]


def _restore() -> None:
    """put back the last generated file that is KNOWN to build (`.good`), else the file that was there before this run"""
    t, prev = _state["target"], _state["prev"]
    if t is None:
        return
    good = t.with_name(t.name + ".good")
    text = good.read_text() if good.exists() else prev
    if text is not None and t.read_text() != text:
        t.write_text(text)


def build_ok(lean: Path) -> None:
    t = Path(lean) / "PyOak" / "Gen" / "Origin.lean"
    good = t.with_name(t.name + ".good")
    if t.exists() and (not good.exists() or good.read_text() != t.read_text()):
        good.write_text(t.read_text())


restore_generated = _restore


def build_failure_is_tie(txt: str) -> bool:
    """the build broke on the regenerated definitions or on a theorem about them (and on nothing else)"""
    files = set(re.findall(r"error: (?:\./)?(\S+?\.lean):\d+", txt))
    if not files or not files <= set(GEN_FILES):
        return False
    # keep the shared Lean tree buildable for the other properties: put the last good generated file back at exit
    atexit.register(_restore)
    return True


# ----------------------------------------------------------------------------------------- encoding

def pt(i, l=None, c=None):
    return O.CodePoint(i, 1 if l is None else l, i if c is None else c)


def rg(a, b):
    return O.CodeRange(pt(a), pt(b))


def enc_point(p):
    return [p.index, p.line, p.column]


def enc_range(r, full=True):
    if full:
        return [enc_point(r.start), enc_point(r.end)]
    return [r.start.index, r.end.index]


class Sources:
    """keys for the ==-classes of the sources in play (0 is NO_SOURCE)"""

    def __init__(self):
        self.reps: list = []

    def key(self, s) -> int:
        if isinstance(s, O.NoSource):
            return 0
        for i, r in enumerate(self.reps):
            if r is s or r == s:
                return i + 1
        self.reps.append(s)
        return len(self.reps)

    def enc_in(self, s):
        if type(s) is O.SourceSet:
            return [A("set")] + [self.enc_in(m) for m in s.sources]
        raw = s.get_raw()
        r = None if raw is None else ([A("s"), raw] if isinstance(raw, str) else A("other"))
        return [self.key(s), s.fqn, r]

    def enc_out(self, s):
        if type(s) is O.SourceSet:
            return [A("set")] + [self.enc_out(m) for m in s.sources]
        return [A("src"), self.key(s)]


def enc_pos(p):
    t = type(p)
    if t is O.NoPosition:
        return A("nopos")
    if t is O.EntireSourcePosition:
        return A("entire")
    if t is O.XMLPath:
        return [A("xml"), p.xpath]
    if t is O.CodeRange:
        return [A("code"), enc_range(p)]
    if t is O.PositionSet:
        return [A("set")] + [enc_pos(q) for q in p.positions]
    return [A("unknown-position"), t.__name__]


def enc_in(o, S: Sources):
    t = type(o)
    if t is O.NoOrigin:
        return None
    if t is O.CodeOrigin:
        return [A("code"), False, S.enc_in(o.source), enc_range(o.position)]
    if t is O.GeneratedCodeOrigin:
        return [A("code"), True, S.enc_in(o.source), enc_range(o.position)]
    if t is O.XMLFileOrigin:
        return [A("xml"), S.enc_in(o.source), o.position.xpath]
    if t is O.Origin:
        return [A("base"), S.enc_in(o.source), enc_pos(o.position)]
    if t is O.MultiOrigin:
        return [A("multi")] + [enc_in(m, S) for m in o.origins]
    raise TypeError(t)


def enc_out(o, S: Sources):
    t = type(o)
    if t is O.NoOrigin:
        return A("NoOrigin")
    if t in (O.CodeOrigin, O.GeneratedCodeOrigin):
        return [A(t.__name__), S.enc_out(o.source), enc_range(o.position)]
    if t in (O.XMLFileOrigin, O.Origin):
        return [A(t.__name__), S.enc_out(o.source), enc_pos(o.position)]
    if t is O.MultiOrigin:
        return [A("MultiOrigin"), S.enc_out(o.source), enc_pos(o.position)] + [enc_out(m, S) for m in o.origins]
    return [A("unknown-origin"), t.__name__]


def observe(fn, S: Sources):
    """-> (canonical answer, result object or None)"""
    try:
        r = fn()
    except ValueError:
        return [A("raise"), A("ValueError")], None
    except Exception as e:  # noqa
        return [A("raise"), A(type(e).__name__)], None
    if not isinstance(r, O.Origin):
        return [A("ok"), [A("not-an-origin"), type(r).__name__]], None
    if type(r) is O.MultiOrigin:
        raw = A("multi")
    else:
        g = r.get_raw()
        raw = None if g is None else (g if isinstance(g, str) else A("other"))
    return [A("ok"), enc_out(r, S), r.fqn, raw], r


def show(o) -> str:
    t = type(o)
    if t is O.NoOrigin:
        return "NoOrigin"
    if t is O.MultiOrigin:
        return "Multi[" + ", ".join(show(m) for m in o.origins) + "]"
    return f"{t.__name__}({o.fqn})"


# ----------------------------------------------------------------------------------------- oracles (real code only)

def is_code(o) -> bool:
    return isinstance(o, O.CodeOrigin)


def leaves(o) -> list:
    if type(o) is O.NoOrigin:
        return []
    if type(o) is O.MultiOrigin:
        return list(o.origins)
    return [o]


class Hull:
    """expected fused code origin"""

    def __init__(self, source, lo, hi):
        self.source, self.lo, self.hi = source, lo, hi


def expected_listing(kind: str, ops: list) -> list:
    if kind == "merge":
        return [x for o in ops for x in leaves(o)]
    acc = leaves(ops[0])
    for b in ops[1:]:
        a = acc[0] if len(acc) == 1 else None
        if a is not None and isinstance(a, Hull) and is_code(b) and a.source == b.source \
                and b.position.start.index <= a.hi and a.lo <= b.position.end.index:
            acc = [Hull(a.source, min(a.lo, b.position.start.index), max(a.hi, b.position.end.index))]
        elif a is not None and is_code(a) and is_code(b) and a.source == b.source \
                and b.position.start.index <= a.position.end.index and a.position.start.index <= b.position.end.index:
            acc = [Hull(a.source, min(a.position.start.index, b.position.start.index),
                        max(a.position.end.index, b.position.end.index))]
        else:
            acc = acc + leaves(b)
    return acc


def origin_oracle(kind: str, ops: list, res, S: Sources) -> str | None:
    """the statement of C15 for merge_origins / concat_origins / + evaluated on the real objects"""
    if res is None:
        return "raised instead of returning an origin"
    want = expected_listing("merge" if kind == "merge" else "concat", ops)
    if kind == "merge" and len(ops) == 1:
        return None if res is ops[0] else "merge_origins(o) is not o"
    if kind == "concat" and len(ops) == 1:
        return None if res is ops[0] else "concat_origins(o) is not o"

    def same(got, exp) -> str | None:
        if isinstance(exp, Hull):
            if type(got) is not O.CodeOrigin:
                return f"expected one CodeOrigin over the hull, got {type(got).__name__}"
            if got.source is not exp.source and got.source != exp.source:
                return "fused code origin has another source"
            if (got.position.start.index, got.position.end.index) != (exp.lo, exp.hi):
                return f"fused code origin spans {got.position.fqn}, hull is {exp.lo}-{exp.hi}"
            text = exp.source.get_raw()
            if isinstance(text, str) and got.get_raw() != text[exp.lo:exp.hi]:
                return f"get_raw() {got.get_raw()!r} is not the slice {text[exp.lo:exp.hi]!r}"
            if got.fqn != f"{exp.source.fqn}::{exp.lo}-{exp.hi}":
                return f"fqn {got.fqn!r} does not compose"
            return None
        if got is exp or (type(got) is type(exp) and dumps(enc_out(got, S)) == dumps(enc_out(exp, S))):
            return None
        return f"listed {show(got)}, expected {show(exp)}"

    if not want:
        return None if type(res) is O.NoOrigin else f"nothing remains but the result is {show(res)}"
    if len(want) == 1:
        return same(res, want[0])
    if type(res) is not O.MultiOrigin:
        return f"{len(want)} non-empty operands but the result is {show(res)}"
    got = list(res.origins)
    for m in got:
        if isinstance(m, (O.MultiOrigin, O.NoOrigin)):
            return f"multi-origin contains {type(m).__name__}"
    if len(got) != len(want):
        return f"lists {len(got)} origins, expected {len(want)}"
    for g, e in zip(got, want):
        r = same(g, e)
        if r:
            return r
    srcs = [m.source for m in got]
    if all(s == srcs[0] for s in srcs[1:]):
        if res.source != srcs[0]:
            return "common source not kept"
        sfqn = srcs[0].fqn
    else:
        if type(res.source) is not O.SourceSet or len(res.source.sources) != len(srcs) \
                or any(a != b for a, b in zip(res.source.sources, srcs)):
            return "source is not the SourceSet of the members' sources in operand order"
        sfqn = "SourceSet(" + "||".join(s.fqn for s in srcs) + ")"
    if type(res.position) is not O.PositionSet or len(res.position.positions) != len(got) \
            or any(a != b for a, b in zip(res.position.positions, [m.position for m in got])):
        return "position is not the PositionSet of the members' positions in operand order"
    pfqn = "PositionSet(" + "||".join(m.position.fqn for m in got) + ")"
    if res.fqn != f"{sfqn}::{pfqn}":
        return f"fqn {res.fqn!r} != {sfqn}::{pfqn}"
    return None


def idx(r):
    return (r.start.index, r.end.index)


def pair_oracle(a, b, coherent: bool) -> str | None:
    (as_, ae), (bs, be) = idx(a), idx(b)
    if not (a in a):
        return "containment not reflexive"
    ab, ba = (b in a), (a in b)
    if ab != (as_ <= bs and be <= ae):
        return f"(b in a) = {ab} but index inclusion is {as_ <= bs and be <= ae}"
    if ab and ba:
        if idx(a) != idx(b):
            return "containment not antisymmetric (indices differ)"
        if coherent and a != b:
            return "containment not antisymmetric (a != b)"
    if a.overlaps(b) != b.overlaps(a):
        return "overlaps not symmetric"
    if (ae == bs or be == as_) and not a.overlaps(b):
        return "touching ranges do not overlap"
    if a.overlaps(b) != (bs <= ae and as_ <= be):
        return f"overlaps = {a.overlaps(b)} but the index intervals {'do' if bs <= ae and as_ <= be else 'do not'} meet"
    if (a < b) != (ae < bs):
        return f"(a < b) = {a < b} but a.end < b.start is {ae < bs}"
    try:
        h, h2 = a + b, b + a
    except Exception as e:  # noqa
        return f"a + b raised {type(e).__name__}"
    if not (a in h and b in h):
        return "hull does not contain both operands"
    if idx(h) != (min(as_, bs), max(ae, be)):
        return f"hull is {idx(h)}, expected {(min(as_, bs), max(ae, be))}"
    if idx(h) != idx(h2) or (coherent and h != h2):
        return "hull not commutative"
    if idx(a + a) != idx(a) or (coherent and (a + a) != a):
        return "hull not idempotent"
    return None


def triple_oracle(a, b, c, coherent: bool) -> str | None:
    if (b in a) and (c in b) and not (c in a):
        return "containment not transitive"
    try:
        l, r = (a + b) + c, a + (b + c)
    except Exception as e:  # noqa
        return f"hull raised {type(e).__name__}"
    if idx(l) != idx(r) or (coherent and l != r):
        return "hull not associative"
    return None


def ranswer(fn, full):
    try:
        return enc_range(fn(), full)
    except ValueError:
        return [A("raise"), A("ValueError")]
    except Exception as e:  # noqa
        return [A("raise"), A(type(e).__name__)]


def rel_case(a, b, coherent: bool) -> Case:
    flag = A("full" if coherent else "idx")
    line = dumps([A("o-rel"), flag, enc_range(a), enc_range(b)])
    try:
        real = dumps([A("ok"), a.overlaps(b), (b in a), (a < b), (a <= b), ranswer(lambda: a + b, coherent)])
    except Exception as e:  # noqa
        real = dumps([A("raise"), A(type(e).__name__)])
    return Case("range-pair", line, real, idx(a) != idx(b), f"a={a!r} b={b!r}",
                oracle_fail=pair_oracle(a, b, coherent), sig="range|pair")


def hull3_case(a, b, c, coherent: bool) -> Case:
    flag = A("full" if coherent else "idx")
    line = dumps([A("o-hull3"), flag, enc_range(a), enc_range(b), enc_range(c)])
    real = dumps([A("ok"), ranswer(lambda: (a + b) + c, coherent), ranswer(lambda: a + (b + c), coherent)])
    return Case("range-triple", line, real, len({idx(a), idx(b), idx(c)}) > 1, f"a={a!r} b={b!r} c={c!r}",
                oracle_fail=triple_oracle(a, b, c, coherent), sig="range|triple")


def point_case(i, l, c) -> Case:
    ok = True
    try:
        O.CodePoint(i, l, c)
        real = [A("ok")]
    except ValueError:
        ok = False
        real = [A("raise"), A("ValueError")]
    except Exception as e:  # noqa
        ok = None
        real = [A("raise"), A(type(e).__name__)]
    want = i >= 0 and l >= 1 and c >= 0
    fail = None if ok == want else f"CodePoint({i},{l},{c}) {'accepted' if ok else 'rejected'}, expected {'accept' if want else 'ValueError'}"
    return Case("point-valid", dumps([A("o-point"), i, l, c]), dumps(real), True, f"CodePoint({i},{l},{c})",
                oracle_fail=fail, sig="point|valid")


def range_case(p, q) -> Case:
    """p, q are valid points"""
    ok = True
    try:
        O.CodeRange(p, q)
        real = [A("ok")]
    except ValueError:
        ok = False
        real = [A("raise"), A("ValueError")]
    want = p.index <= q.index
    fail = None if ok == want else f"CodeRange {'accepted' if ok else 'rejected'} with start {p.index}, end {q.index}"
    return Case("range-valid", dumps([A("o-range"), enc_point(p), enc_point(q)]), dumps(real), True,
                f"CodeRange({p!r}, {q!r})", oracle_fail=fail, sig="range|valid")


def gcr_case(args) -> Case:
    want = args[0] >= 0 and args[1] >= 1 and args[2] >= 0 and args[3] >= 0 and args[4] >= 1 and args[5] >= 0 \
        and args[0] <= args[3]
    try:
        r = O.get_code_range(*args)
        real = [A("ok"), enc_range(r)]
        fail = None if want and (enc_range(r) == [list(args[:3]), list(args[3:])]) else "get_code_range accepted / built a wrong range"
    except ValueError:
        real = [A("raise"), A("ValueError")]
        fail = "get_code_range rejected well-formed arguments" if want else None
    return Case("get-code-range", dumps([A("o-gcr")] + list(args)), dumps(real), True, f"get_code_range{tuple(args)}",
                oracle_fail=fail, sig="range|get_code_range")


def raw_case(raw, lo, hi) -> Case:
    if raw is None:
        src, enc = O.TextSource("t", "text"), None
    elif isinstance(raw, str):
        src, enc = O.MemoryTextSource(raw, source_uri="t"), [A("s"), raw]
    else:
        src, enc = O.Source("t", "bin", _raw=raw), A("other")
    o = O.CodeOrigin(src, rg(lo, hi))
    g = o.get_raw()
    real = [A("ok"), None if g is None else (g if isinstance(g, str) else A("other"))]
    fail = None
    if isinstance(raw, str):
        if g != "".join(raw[k] for k in range(lo, min(hi, len(raw)))):
            fail = f"get_raw() = {g!r} is not text[{lo}:{hi}]"
    elif g is not None:
        fail = "get_raw() of a non-text source is not None"
    return Case("get-raw", dumps([A("o-raw"), enc, enc_range(o.position)]), dumps(real), isinstance(raw, str) and lo < hi,
                f"text={raw!r} range={lo}-{hi}", oracle_fail=fail, sig="raw|slice")


def pyslice_case(text: str, lo: int, hi: int) -> Case:
    """Python's own `text[lo:hi]` (arbitrary ints) against Model/PySlice.lean; the oracle spells the rule out"""
    g = text[lo:hi]
    n = len(text)
    a = max(lo + n, 0) if lo < 0 else min(lo, n)
    b = max(hi + n, 0) if hi < 0 else min(hi, n)
    want = "".join(text[k] for k in range(a, b))
    fail = None if g == want else f"text[{lo}:{hi}] = {g!r}, index adjustment gives {want!r}"
    return Case("py-slice", dumps([A("o-pyslice"), text, lo, hi]), dumps([A("ok"), g]), a < b,
                f"text={text!r}[{lo}:{hi}]", oracle_fail=fail, sig="raw|pyslice")


def origin_case(kind: str, ops: list, S: Sources) -> Case:
    if kind == "merge":
        fn = lambda: O.merge_origins(*ops)  # noqa
        head = "o-merge"
    elif kind == "concat":
        fn = lambda: O.concat_origins(*ops)  # noqa
        head = "o-concat"
    else:
        fn = lambda: ops[0] + ops[1]  # noqa
        head = "o-add"
    real, res = observe(fn, S)
    line = dumps([A(head)] + [enc_in(o, S) for o in ops])
    fail = origin_oracle(kind, ops, res, S)
    nontriv = sum(1 for o in ops if type(o) is not O.NoOrigin) >= 2
    return Case("origin-" + kind, line, dumps(real), nontriv, f"{kind}(" + ", ".join(show(o) for o in ops) + ")",
                oracle_fail=fail, sig="origin|" + kind)


# ----------------------------------------------------------------------------------------- generators

def make_pool():
    sa = O.MemoryTextSource("hello world", source_uri="a")
    sa2 = O.MemoryTextSource("HELLO, WORLD", source_uri="a")      # == sa, other text
    sb = O.MemoryTextSource("xyz", source_uri="b")
    srcs = [sa, sa2, sb]
    ranges = [(0, 2), (2, 4), (1, 3), (5, 6)]
    pool = [O.NO_ORIGIN]
    for s in srcs:
        for (a, b) in ranges:
            pool.append(O.CodeOrigin(s, rg(a, b)))
        pool.append(O.GeneratedCodeOrigin(s))
        pool.append(O.XMLFileOrigin(s, O.XMLPath("/r/x")))
    pool.append(O.Origin(sb, O.EntireSourcePosition()))
    pool.append(O.merge_origins(O.CodeOrigin(sa, rg(0, 2)), O.XMLFileOrigin(sb, O.XMLPath("/m"))))
    pool.append(O.MultiOrigin([O.GeneratedCodeOrigin(sa), O.CodeOrigin(sa2, rg(5, 6)), O.CodeOrigin(sa, rg(6, 7))]))
    small = [O.NO_ORIGIN, O.CodeOrigin(sa, rg(0, 2)), O.CodeOrigin(sa2, rg(2, 4)), O.CodeOrigin(sb, rg(1, 3)),
             O.CodeOrigin(sa, rg(5, 6)), O.GeneratedCodeOrigin(sa), O.XMLFileOrigin(sa, O.XMLPath("/r/x")), pool[-2]]
    return pool, small


def make_twin_pool():
    """sources that must NOT be confused although their fqn / uri texts coincide (different class, different
    source_type: the model gets different keys with the same fqn text), and sources that must be treated as one
    although they are different objects (equal, not identical; same key)"""
    from pathlib import Path
    xa = O.Source("x", "typeA")
    xb = O.Source("x", "typeB")                                   # same uri and fqn as xa, != xa
    mf = O.MemoryTextSource("<r><x/></r>", source_uri="dir/f.xml")
    ff = O.FileSource(Path("dir/f.xml"))                          # fqn "dir/f.xml" as mf, other class, != mf
    tt = O.TextSource("dir/f.xml", "<memory>")                    # same uri AND source_type as mf, other class, != mf
    e1 = O.MemoryTextSource("same text", source_uri="e")
    e2 = O.MemoryTextSource("same text", source_uri="e")          # == e1, not the same object, same text
    srcs = [xa, xb, mf, ff, tt, e1, e2]
    assert xa != xb and mf != ff and mf != tt and e1 == e2 and e1 is not e2
    assert xa.fqn == xb.fqn and mf.fqn == ff.fqn == tt.fqn
    pool = [O.NO_ORIGIN]
    for s in srcs:
        pool.append(O.XMLFileOrigin(s, O.XMLPath("/r/x")))
        pool.append(O.CodeOrigin(s, rg(0, 2)))
    pool.append(O.CodeOrigin(e2, rg(2, 4)))
    pool.append(O.GeneratedCodeOrigin(xb))
    return srcs, pool


def random_origin(rng: random.Random, srcs: list, depth=0):
    k = rng.random()
    s = rng.choice(srcs)
    if k < 0.12:
        return O.NO_ORIGIN
    if k < 0.55:
        a = rng.randint(0, 8)
        return O.CodeOrigin(s, rg(a, a + rng.choice([0, 1, 1, 2, 3])))
    if k < 0.65:
        return O.GeneratedCodeOrigin(s)
    if k < 0.78:
        return O.XMLFileOrigin(s, O.XMLPath(rng.choice(["/r", "/r/x", "/r/@a", "a||b", "x::y"])))
    if k < 0.86:
        return O.Origin(s, rng.choice([O.EntireSourcePosition(), O.NO_POSITION, O.XMLPath("/p"), rg(1, 2)]))
    if depth:
        return O.CodeOrigin(s, rg(0, 1))
    ms = [m for m in (random_origin(rng, srcs, 1) for _ in range(rng.randint(2, 4)))
          if type(m) not in (O.NoOrigin, O.MultiOrigin)]
    if len(ms) < 2:
        return O.XMLFileOrigin(s, O.XMLPath("/single"))
    return O.merge_origins(*ms) if rng.random() < 0.5 else O.MultiOrigin(ms)


def cases(rng: random.Random, tier: str):
    """every section builds only well-formed inputs; a constructor of the real code that rejects one of them is
    itself a failing input (validity <=> the constructor accepts)"""
    for section in (_validity, _intervals, _raw, _origins):
        try:
            yield from section(rng, tier == "thorough")
        except ValueError as e:
            yield Case("construct", None, None, True, f"section {section.__name__}",
                       oracle_fail=f"a well-formed point / range / origin was rejected: ValueError: {e}",
                       sig="construct|" + section.__name__)


def _validity(rng: random.Random, thorough: bool):
    # ---- validity of points and ranges (exhaustive small grid + big integers)
    for i in range(-2, 3):
        for l in range(-1, 3):
            for c in range(-2, 2):
                yield point_case(i, l, c)
    for _ in range(40 if not thorough else 400):
        yield point_case(rng.choice([-1, 0, 1]) * rng.getrandbits(rng.choice([3, 31, 70])),
                         rng.choice([-1, 1, 1]) * rng.getrandbits(rng.choice([2, 40])) + rng.choice([0, 1]),
                         rng.choice([-1, 1, 1]) * rng.getrandbits(rng.choice([2, 40])))
    for a in range(0, 6):
        for b in range(0, 6):
            yield range_case(pt(a), pt(b))
            yield range_case(pt(a, 1 + b, 0), pt(b, 1 + a, 7))
    for _ in range(60 if not thorough else 600):
        args = [rng.choice([-1, 0, 1, 2, 3, 2 ** 65]) for _ in range(6)]
        if rng.random() < 0.7:
            args = [abs(args[0]), abs(args[1]) or 1, abs(args[2]), abs(args[3]), abs(args[4]) or 1, abs(args[5])]
        yield gcr_case(args)
    e = O.EMPTY_CODE_RANGE
    yield Case("empty-range", dumps([A("o-empty")]), dumps([A("ok"), enc_range(e)]), True, "EMPTY_CODE_RANGE",
               oracle_fail=None if enc_range(e) == [[0, 1, 0], [0, 1, 0]] else "EMPTY_CODE_RANGE is not 0-0",
               sig="range|empty")


def _intervals(rng: random.Random, thorough: bool):
    # ---- interval laws: all pairs and triples of valid ranges over points 0..4
    grid = [rg(a, b) for a in range(5) for b in range(a, 5)]
    for a in grid:
        for b in grid:
            yield rel_case(a, b, True)
    for a in grid:
        for b in grid:
            for c in grid:
                yield hull3_case(a, b, c, True)
    # incoherent points: same index, different line / column (index-level comparison)
    def rpoint():
        i = rng.randint(0, 4)
        return O.CodePoint(i, rng.randint(1, 3), rng.randint(0, 2))

    def rrange():
        p, q = rpoint(), rpoint()
        return O.CodeRange(p, q) if p.index <= q.index else O.CodeRange(q, p)
    for _ in range(600 if not thorough else 20000):
        yield rel_case(rrange(), rrange(), False)
    for _ in range(600 if not thorough else 20000):
        yield hull3_case(rrange(), rrange(), rrange(), False)
    for _ in range(100 if not thorough else 2000):
        big = [rng.getrandbits(rng.choice([8, 33, 64, 80])) for _ in range(6)]
        rs = [O.CodeRange(pt(min(x, y)), pt(max(x, y))) for x, y in zip(big[::2], big[1::2])]
        yield rel_case(rs[0], rs[1], True)
        yield hull3_case(rs[0], rs[1], rs[2], True)


def _raw(rng: random.Random, thorough: bool):
    # ---- get_raw: texts x ranges
    texts = ["", "a", "ab", "hello", "héllo wörld", "a\nb\tc", "\U0001F600xy中", None, b"bytes"]
    for t in texts:
        for lo in range(0, 7):
            for hi in range(lo, 7):
                yield raw_case(t, lo, hi)
    for _ in range(50 if not thorough else 2000):
        t = "".join(rng.choice("ab \né中\U0001F600\"\\") for _ in range(rng.randint(0, 12)))
        lo = rng.randint(0, 14)
        yield raw_case(t, lo, lo + rng.randint(0, 14))
    # ---- Python slicing for arbitrary ints (negative, beyond the end, reversed): the spec `pySlice` that
    #      Props/C15Boundary.lean proves equal to the model's `slice` on every range the constructors accept
    for t in ["", "a", "abc", "héllo", "\U0001F600xy中"]:
        for lo in range(-7, 8):
            for hi in range(-7, 8):
                yield pyslice_case(t, lo, hi)
    for _ in range(100 if not thorough else 3000):
        t = "".join(rng.choice("ab \né中\U0001F600") for _ in range(rng.randint(0, 9)))
        yield pyslice_case(t, rng.choice([-1, 1]) * rng.getrandbits(rng.choice([2, 4, 70])),
                           rng.choice([-1, 1]) * rng.getrandbits(rng.choice([2, 4, 70])))


def _origins(rng: random.Random, thorough: bool):
    # ---- fqn-twins (distinct sources, equal fqn) and equal-but-not-identical sources: all pairs and triples
    twin_srcs, twins = make_twin_pool()
    ST = Sources()
    for a in twins:
        for b in twins:
            yield origin_case("add", [a, b], ST)
            yield origin_case("merge", [a, b], ST)
            yield origin_case("concat", [a, b], ST)
    ttrip = twins if thorough else twins[:1] + twins[1:5] + twins[5:9:2] + twins[11:]
    for t in itertools.product(ttrip, repeat=3):
        yield origin_case("merge", list(t), ST)
        yield origin_case("concat", list(t), ST)
    pool, small = make_pool()
    S = Sources()
    # the twins next to the ordinary pool (sources of distinct fqn)
    for a in small[1:]:
        for b in twins[1:]:
            for c in (twins[1], twins[4], small[3]):
                yield origin_case("merge", [a, b, c], S)
                yield origin_case("concat", [b, a, c], S)
    for o in pool:
        yield origin_case("merge", [o], S)
        yield origin_case("concat", [o], S)
    yield origin_case("merge", [], S)
    for a in pool:
        for b in pool:
            yield origin_case("add", [a, b], S)
            yield origin_case("merge", [a, b], S)
            yield origin_case("concat", [a, b], S)
    trip = pool if thorough else pool[:1] + pool[1:8] + pool[13:15] + pool[19:]
    for t in itertools.product(trip, repeat=3):
        yield origin_case("merge", list(t), S)
        yield origin_case("concat", list(t), S)
    quad = pool if thorough else small
    for t in itertools.product(quad, repeat=4):
        yield origin_case("merge", list(t), S)
        yield origin_case("concat", list(t), S)
    # seeded: more sources (NO_SOURCE, a source without text, a binary one), longer tuples, random ranges
    more = [O.MemoryTextSource("0123456789abcdef", source_uri="m"), O.MemoryTextSource("0123456789ABCDEF", source_uri="m"),
            O.TextSource("c", "text"), O.Source("d", "bin", _raw=b"\x00\x01"), O.NO_SOURCE,
            O.MemoryTextSource("é中\U0001F600 tail", source_uri="u")] + twin_srcs
    S2 = Sources()
    for _ in range(1500 if not thorough else 40000):
        n = rng.choice([2, 2, 3, 3, 4, 4, 5, 7])
        srcs = rng.sample(more, rng.randint(1, 3))
        ops = [random_origin(rng, srcs) for _ in range(n)]
        k = rng.choice(["merge", "concat", "concat", "add"])
        yield origin_case(k, ops[:2] if k == "add" else ops, S2)
