"""C11 — every field annotation is soundly classified as child, property, or rejected.

Real code: class definitions are generated as source text from random / enumerated type terms
(zoo_c11.py), exec'ed in a fresh module (plain and postponed annotations, several spellings),
instantiated once, then `get_child_fields` / `get_property_fields` are read.
Model: `Annot.chainOutcome` (lean/PyOak/Model/Annot.lean) on the same terms; Props/C11.lean proves
that its verdict is the documented one for every annotation of the grammar.

The observation does not distinguish rejection at class definition from rejection at the first
instantiation (the statement does not); any exception other than InvalidFieldAnnotations is `other`.
"""
from __future__ import annotations

import random

from proto import A, dumps
from run import Case
import zoo_c11 as z

PROPERTY = "C11"
LEAN_MODULE = "PyOak.Props.C11All"
THEOREMS = ["PyOak.C11." + t for t in [
    "hasNode_iff", "validProp_iff", "validChild_false_iff", "validChild_true_iff",
    "classify_eq_classifyRaw", "classify_child_iff", "classify_prop_iff", "classify_reject_iff",
    "classify_spec", "specVerdict_unique", "childShape_mentionsNode", "prop_hides_no_node",
    "classify_newtype", "classify_erase", "classify_erase_needs_base",
    "defCheck_raised_sound", "classOutcome_eq", "classOutcome_none_iff", "classOutcome_some",
    "effective_nodup", "fields_partition", "verdict_inherited", "verdict_overridden", "chainOutcome_get", "classOutcome_flatten",
    # Props/C11Shapes.lean: the rejected shapes as general theorems (any depth)
    "childShape_sub", "childShape_not_mutable", "mutable_rejected", "mutable_subterm_rejected", "mentionsMutable_iff_sub",
    "mentionsNode_iff_sub", "reject_of_bad_subterm", "classify_trichotomy", "node_never_prop", "mixed_union_rejected",
    "node_in_container_rejected", "opt_in_tuple_rejected", "nested_tuple_rejected", "optional_tuple_rejected",
    "listed_shapes_rejected",
    # Props/C11Fwd.lean: resolved vs unresolved (postponed / string) references
    "classify_mapRef", "classify_resolveFwd", "classify_deferAll", "hasFwd_resolveAll", "hasFwd_deferAll",
    "effective_map", "classOutcome_mapLevels", "classOutcome_mapRef", "classOutcome_resolveFwd", "classOutcome_deferAll",
    "chainOutcome_mapRef", "chainOutcome_resolveFwd", "defCheck_raised_iff_of_noFwd", "reject_moves_to_definition",
    "accepted_iff_resolved_passes", "defCheck_deferAll",
    # Props/C11NewType.lean: NewType erasure at any depth
    "classify_erase_weak", "ntBaseOk_noNoneNT", "noNoneNT_strictly_weaker", "classify_erase_needs_noNoneNT",
    "union_base_python_erasure", "classify_erase_of_accepted", "classify_erase_cases", "classify_erase_prop_iff",
    # Props/C11Perm.lean: order of union members
    "permStep_same", "classify_permStep", "classify_permEq", "specVerdict_permEq", "childShape_permEq",
    "classify_union_perm", "permEq_swapU", "classify_swapU", "classOutcome_permuted", "chainOutcome_permuted",
    # Props/C11Class.lean: the two passes; most derived declaration
    "defCheck_passed_accepts", "defCheck_passed_ne_none", "defCheck_passed_iff", "rejection_is_reported",
    "classOutcome_none_iff_phase", "never_silently_prop", "lookup_effective", "fieldVerdict_most_derived",
    "verdict_last_declaration", "verdict_redeclared_twice", "verdict_not_redeclared",
    # Props/C11Fields.lean: Annot <-> Accessors
    "dictSet_map", "addField_dictSet_differ", "resolve_eq_effective", "classDecl_fields", "fkind_none_iff",
    "fkind_prop_iff", "fkind_child_iff", "fkind_tuple_iff", "field_lands_in_exactly_one",
    "field_lands_in_exactly_one_of_passed"]] + ["PyOak.Annot." + t for t in [
    "PermEq.trans", "PermEq.newtype", "PermEq.vtuple", "PermEq.arg", "PermEq.member", "PermEq.coll_pointwise",
    "PermEq.union_pointwise", "PermEq.union"]]
PARTIAL: list[str] = []
RULE = ("generated frozen dataclasses deriving from ASTNode, 1-3 classes per inheritance chain (inherited and overriding "
        "fields), field annotations = type terms of depth <= 3 over {int str bool float bytes Any Literal Enum None, "
        "3 node classes, 2 node classes defined only after the annotated class, NewType, Union/Optional, tuple fixed/"
        "variadic/empty, frozenset, Sequence, Mapping, list, dict, set (bare or parameterised)}; every chain is rendered "
        "with plain and with postponed annotations and a random choice of `X | None` vs Optional/Union, builtin vs "
        "typing generics, whole-annotation vs inner quoting of forward references, and its own order of the members of "
        "every union (None first / in the middle / last, reversed, shuffled); every generated module defines fresh node "
        "classes (pyoak's predicates are lru_cached and unions that differ only in member order compare equal), and the "
        "memo tables of pyoak.typing are cleared before a random half of the cases; multiple-inheritance families (two / "
        "three node bases, diamonds, combined classes with an empty and with a non-empty body, marker subclasses, "
        "combined classes of combined classes) with child / property / invalid annotations spread over the bases, "
        "every class of the family observed for EVERY dataclass field and compared with the model on the replay "
        "of the declarations along the reversed MRO; fkind: for every named shape and random terms, a one-field class is "
        "defined and the table entry process_node_fields made for the field (rejected / property / child with "
        "FieldTypeInfo.is_collection False / True) is compared with Annot.fkind (the Acc.FKind of the accessor model); "
        "resolve: chains that name node classes defined only later are also rendered with those names bound to classes "
        "that already exist (definition-time check runs instead of being skipped): both renderings are compared with "
        "the model and with each other (Props/C11Fwd.lean chainOutcome_mapRef); thorough adds every term of depth "
        "<= 2 over 5 leaves; non-trivial = some annotation has depth >= 1; distinct by request line + spelling")
TRUSTED = ["typing.get_type_hints / get_args / get_origin / NewType.__supertype__ / issubclass on collections.abc "
           "(typing-module introspection): the term sent to the model is the term the source text was rendered from",
           "dataclasses.fields order and override-in-place semantics (modelled by Annot.effective)"]
ASSUMPTIONS = [
    "annotations outside the grammar (ClassVar, InitVar, KW_ONLY, Callable, type[...], TypeVar, Annotated, ...) are not generated",
    "None occurs only at top level or as a union member (mashumaro refuses `tuple[None, int]` at class creation)",
    "typing.Collection is not generated (mashumaro: UnserializableField at class creation)",
    "a Union that holds a NewType of int/str/bool/float/Any next to another non-None member is not generated "
    "(mashumaro raises TypeError at class creation)",
    "the base of a NewType is not a forward reference (evaluated eagerly by Python), and not a Union / None "
    "(PEP 484: a class; hypothesis ntBaseOk of classify_erase)",
    "forward references point to node classes only; with the `|` spelling and plain annotations a union that has a "
    "forward reference is written as a fully quoted annotation (`\"X\" | None` is a TypeError of Python itself)",
    "which of the two phases (class definition / first use) raises InvalidFieldAnnotations is not compared",
    "multiple inheritance: hierarchies on which dataclasses (resolved fields of every base, reversed MRO) and "
    "typing.get_type_hints (own annotations along the MRO) disagree about the type of a field are not generated "
    "(diamond whose later branch overrides a field of the common base: `A.x: int; B(A).x: Node; C(A); D(C, B)`)",
]
BUDGET = {"quick": 200, "thorough": 1800}

_phase_stats = {"reject_at_definition": 0, "reject_at_first_use": 0}

# the shapes the statement names, each checked in all 16 spellings
NAMED = [
    ("none",), ("atom", "int"), ("atom", "Any"), ("atom", "Literal"), ("atom", "Enum"), ("atom", "bytes"),
    ("node", 0), ("fwd", 0), ("nt", ("node", 0)), ("nt", ("nt", ("node", 1))), ("nt", ("atom", "int")),
    ("union", [("node", 0), ("none",)]), ("union", [("fwd", 0), ("none",)]),
    ("union", [("node", 0), ("node", 2)]), ("union", [("node", 0), ("fwd", 1), ("none",)]),
    ("union", [("nt", ("node", 0)), ("none",)]), ("union", [("node", 1), ("nt", ("node", 0))]),
    ("vtuple", ("node", 0)), ("vtuple", ("fwd", 0)), ("vtuple", ("nt", ("node", 0))),
    ("vtuple", ("union", [("node", 0), ("node", 2)])), ("vtuple", ("union", [("node", 0), ("fwd", 0)])),
    ("coll", "tuple", [("node", 0), ("fwd", 1)]), ("coll", "tuple", [("node", 0)]),
    ("coll", "tuple", [("nt", ("node", 0)), ("union", [("node", 1), ("node", 2)])]),
    ("coll", "tuple", []), ("vtuple", ("atom", "int")), ("vtuple", ("nt", ("atom", "int"))),
    ("coll", "frozenset", [("atom", "str")]), ("coll", "sequence", [("atom", "int")]),
    ("coll", "mapping", [("atom", "str"), ("vtuple", ("atom", "int"))]),
    ("union", [("atom", "int"), ("none",)]), ("union", [("atom", "int"), ("atom", "str")]),
    # a NewType derived from a NewType of a node class, below the top level
    ("vtuple", ("nt", ("nt", ("node", 0)))), ("union", [("nt", ("nt", ("node", 0))), ("none",)]),
    ("union", [("none",), ("nt", ("nt", ("nt", ("node", 1))))]), ("coll", "tuple", [("nt", ("nt", ("node", 2))), ("node", 0)]),
    ("union", [("node", 1), ("nt", ("nt", ("node", 0)))]), ("vtuple", ("union", [("nt", ("nt", ("node", 0))), ("node", 2)])),
    ("vtuple", ("nt", ("nt", ("atom", "int")))),
    # None first / in the middle of a union (typing keeps the order; `==` on unions ignores it)
    ("union", [("none",), ("node", 0)]), ("union", [("none",), ("fwd", 0)]), ("union", [("node", 0), ("none",), ("node", 2)]),
    ("union", [("none",), ("nt", ("node", 0))]), ("union", [("none",), ("atom", "int")]),
    ("union", [("atom", "int"), ("none",), ("atom", "str")]),
    # rejected shapes
    ("union", [("nt", ("nt", ("node", 0))), ("atom", "int")]), ("coll", "frozenset", [("nt", ("nt", ("node", 0)))]),
    ("coll", "sequence", [("nt", ("nt", ("node", 1)))]), ("coll", "mapping", [("atom", "str"), ("nt", ("nt", ("node", 0)))]),
    ("vtuple", ("union", [("nt", ("nt", ("node", 0))), ("none",)])), ("coll", "list", [("nt", ("nt", ("node", 0)))]),
    ("vtuple", ("nt", ("nt", ("vtuple", ("node", 0))))), ("vtuple", ("nt", ("nt", ("coll", "list", [("atom", "int")])))),
    ("vtuple", ("union", [("none",), ("node", 0)])), ("vtuple", ("union", [("none",), ("fwd", 0)])),
    ("coll", "tuple", [("node", 0), ("union", [("none",), ("node", 1)])]),
    ("vtuple", ("union", [("node", 0), ("none",), ("node", 2)])), ("coll", "tuple", [("union", [("none",), ("node", 0), ("node", 2)])]),
    ("vtuple", ("union", [("none",), ("nt", ("node", 0))])),
    ("union", [("none",), ("node", 0), ("atom", "int")]), ("union", [("none",), ("vtuple", ("node", 0))]),
    ("union", [("none",), ("coll", "list", [("atom", "int")])]), ("vtuple", ("union", [("none",), ("coll", "set", [])])),
    ("coll", "frozenset", [("union", [("none",), ("node", 0)])]),
    ("union", [("node", 0), ("atom", "int")]), ("union", [("fwd", 0), ("atom", "str"), ("none",)]),
    ("coll", "sequence", [("node", 0)]), ("coll", "frozenset", [("node", 0)]), ("coll", "frozenset", [("fwd", 0)]),
    ("coll", "mapping", [("atom", "str"), ("node", 0)]), ("coll", "list", [("node", 0)]),
    ("coll", "list", [("fwd", 0)]), ("coll", "dict", [("atom", "str"), ("node", 1)]), ("coll", "set", [("node", 0)]),
    ("vtuple", ("union", [("node", 0), ("none",)])), ("vtuple", ("union", [("fwd", 0), ("none",)])),
    ("coll", "tuple", [("node", 0), ("union", [("node", 1), ("none",)])]),
    ("vtuple", ("vtuple", ("node", 0))), ("coll", "tuple", [("coll", "tuple", [("node", 0)])]),
    ("union", [("vtuple", ("node", 0)), ("none",)]), ("union", [("vtuple", ("node", 0)), ("node", 0)]),
    ("coll", "tuple", [("node", 0), ("atom", "int")]), ("vtuple", ("nt", ("vtuple", ("node", 0)))),
    ("vtuple", ("nt", ("coll", "sequence", [("node", 0)]))), ("coll", "sequence", [("nt", ("node", 0))]),
    ("coll", "list", [("atom", "int")]), ("coll", "list", []), ("coll", "dict", []), ("coll", "set", [("atom", "str")]),
    ("vtuple", ("coll", "list", [("atom", "int")])), ("union", [("coll", "list", [("atom", "int")]), ("none",)]),
    ("coll", "mapping", [("atom", "str"), ("coll", "list", [("atom", "int")])]),
    ("nt", ("coll", "list", [("atom", "int")])), ("vtuple", ("nt", ("coll", "set", [("atom", "int")]))),
    ("coll", "frozenset", [("vtuple", ("coll", "dict", [("atom", "str"), ("atom", "int")]))]),
]


def all_spellings():
    return [z.Spelling(p, q, g, w) for p in (False, True) for q in (False, True) for g in (False, True)
            for w in (False, True)]


def abstract(t):
    """shape of a term with class indices and scalar names dropped (for signatures)"""
    k = t[0]
    if k == "atom":
        return "a"
    if k == "none":
        return "None"
    if k == "node":
        return "N"
    if k == "fwd":
        return "F"
    if k == "nt":
        return f"NT({abstract(t[1])})"
    if k == "union":
        return "U[" + ",".join(sorted({abstract(m) for m in t[1]})) + "]"
    if k == "vtuple":
        return f"tuple[{abstract(t[1])},...]"
    return f"{t[1]}[" + ",".join(abstract(m) for m in t[2]) + "]"


def one_case(levels, sp, rng, kind):
    """run one chain in one spelling: the Case plus its raw observation"""
    if rng.random() < 0.5:
        z.clear_predicate_caches()
    ch = z.Chain(levels, sp)
    order = list(range(len(levels)))
    rng.shuffle(order)                       # order of first use among the classes of the chain
    obs, phases = z.run_chain(ch, order)
    for p in phases:
        _phase_stats["reject_at_definition" if p == "def" else "reject_at_first_use"] += 1
    # the property evaluated directly on the observation (independent of the Lean model)
    fail = None
    sig_t = None
    for k, r in enumerate(obs):
        eff = ch.effective(k)
        deepest = max((t for _, t in eff), key=z.depth, default=("atom", "int"))
        if r[0] == "other":
            fail = fail or f"class {k}: exception {r[1]} instead of a classification or InvalidFieldAnnotations"
            ok_fields = [t for _, t in eff if z.spec_verdict(t) != "reject"]
            sig_t = sig_t or (max(ok_fields, key=z.depth) if ok_fields else deepest)
        elif r[0] == "ok":
            types_ = dict(eff)
            for fn, v in r[1]:
                t = types_[fn]
                if v in ("both", "neither"):
                    fail = fail or f"class {k}: field {fn} is in {v} of get_child_fields / get_property_fields"
                    sig_t = sig_t or t
                elif v == "prop" and z.mentions_node(t):
                    fail = fail or f"class {k}: field {fn}: {z.show(t)} mentions a node class and is a property"
                    sig_t = sig_t or t
                elif v != z.spec_verdict(t):
                    sig_t = sig_t or t
        elif not any(z.spec_verdict(t) == "reject" for _, t in eff):
            sig_t = sig_t or deepest
    if sig_t is None:
        sig_t = levels[-1][-1][1] if levels[-1] else ("atom", "int")
    sig = f"classify|{'postponed' if sp.postponed else 'plain'}|{abstract(sig_t)}"
    desc = f"[{sp.tag()}] " + " ;; ".join(s.strip().replace("\n", " ⏎ ") for s in ch.sources)
    nontrivial = any(z.depth(t) >= 1 for lvl in levels for _, t in lvl)
    case = Case(kind, dumps(z.request(ch)), dumps(z.canon(obs)), nontrivial, desc, oracle_fail=fail, sig=sig)
    return case, obs


def variants(levels, rng, kind, spellings=None):
    """the same chain with plain and with postponed annotations (other spelling bits random):
    two model comparisons plus the spelling-invariance oracle"""
    if spellings is None:
        bits = [rng.random() < 0.5 for _ in range(6)]
        spellings = [z.Spelling(False, bits[0], bits[1], bits[2]), z.Spelling(True, bits[3], bits[4], bits[5])]
    seen = []
    for i, sp in enumerate(spellings):
        # the first rendering keeps the member order of the term, every other one permutes the members of every
        # union (None first / last, reversed, shuffled): the verdict must not depend on it
        lv = levels if i == 0 else [[(fn, z.permute_unions(t, rng)) for fn, t in lvl] for lvl in levels]
        case, obs = one_case(lv, sp, rng, kind)
        seen.append((sp, obs, case))
        yield case
    ref_sp, ref, ref_case = seen[0]
    fail = None
    for sp, obs, _ in seen[1:]:
        if z.canon(obs) != z.canon(ref):
            fail = (f"verdict differs between spellings / union member orders {ref_sp.tag()} and {sp.tag()}: "
                    f"{dumps(z.canon(ref))} vs {dumps(z.canon(obs))}")
            break
    yield Case(kind + "/spelling-invariance", None, None, ref_case.nontrivial, ref_case.desc, oracle_fail=fail,
               sig=ref_case.sig.replace("classify|", "spelling|", 1))


def random_levels(rng, n_levels):
    names = ["f", "g", "h", "k"]
    levels = []
    declared: list[str] = []
    for lv in range(n_levels):
        fields = []
        used = set()
        for _ in range(rng.choice([1, 1, 2, 3])):
            if lv > 0 and declared and rng.random() < 0.5:
                fn = rng.choice(declared)            # override an inherited field
            else:
                fn = rng.choice(names)
            if fn in used:
                continue
            used.add(fn)
            r = rng.random()
            if lv < n_levels - 1 and r < 0.85:
                # base classes mostly valid, so that the chain gets past them
                for _ in range(30):
                    t = z.random_ty(rng, rng.choice([0, 1, 2, 3]), rng.choice(["node", "prop", "mixed"]))
                    if z.spec_verdict(t) != "reject":
                        break
                else:
                    t = ("atom", "int")
            else:
                t = z.random_ty(rng, rng.choice([0, 1, 2, 2, 3, 3]), rng.choice(["node", "node", "prop", "mixed"]))
            fields.append((fn, t))
        for fn, _ in fields:
            if fn not in declared:
                declared.append(fn)
        levels.append(fields)
    return levels


# ---------------------------------------------------------------- multiple inheritance

HIER_SHAPES = {
    # name: bases of every class (indices of earlier classes, [] = ASTNode), index of the first "combined" class
    "mi2": [[], [], [0, 1]],
    "mi2+marker": [[], [], [0, 1], [2]],
    "mi3": [[], [], [], [0, 1, 2]],
    "mi3+marker": [[], [], [], [2, 0, 1], [3]],
    "diamond": [[], [0], [0], [1, 2]],
    "diamond+marker": [[], [0], [0], [2, 1], [3], [4]],
    "chain+mi": [[], [0], [], [1, 2]],
    "marker-base": [[], [0], [], [2, 1]],
    "mi-of-mi": [[], [], [0, 1], [], [2, 3]],
    "mi-of-mi-rev": [[], [], [1, 0], [], [3, 2], [4]],
}
INVALID_FWD = [
    ("coll", "list", [("fwd", 0)]), ("union", [("fwd", 0), ("atom", "int")]), ("coll", "frozenset", [("fwd", 1)]),
    ("vtuple", ("union", [("fwd", 0), ("none",)])), ("coll", "tuple", [("fwd", 0), ("atom", "str")]),
    ("coll", "mapping", [("atom", "str"), ("fwd", 0)]), ("vtuple", ("vtuple", ("fwd", 1))),
    ("union", [("none",), ("vtuple", ("fwd", 0))]), ("coll", "sequence", [("nt", ("node", 0)), ]),
]


def _field_type(rng, want):
    """an annotation whose documented verdict is `want`"""
    if want == "invalid-late":
        # invalid, and caught only at first use: the forward reference makes the definition-time check give up
        t = rng.choice(INVALID_FWD)
        if not z.mentions_fwd(t):
            return t
        return t
    bias = {"child": "node", "prop": "prop", "reject": "mixed"}[want]
    for _ in range(200):
        t = z.random_ty(rng, rng.choice([0, 1, 1, 2, 2, 3]), bias)
        if z.spec_verdict(t) == want:
            return t
    return {"child": ("node", 0), "prop": ("atom", "int"), "reject": ("coll", "list", [("node", 0)])}[want]


def random_hier(rng):
    """(shape name, levels, bases): child / property / invalid annotations spread over the different bases; combined
    classes with an empty or a non-empty body; marker subclasses (empty body, one base)"""
    for _ in range(50):
        shape = rng.choice(sorted(HIER_SHAPES))
        bases = HIER_SHAPES[shape]
        pool = ["f", "g", "h", "k", "m", "n", "p", "q"]
        rng.shuffle(pool)
        declared: list[str] = []
        levels = []
        late_bad = rng.random() < 0.35          # one base carries an invalid annotation that only first use can see
        bad_at = rng.choice([k for k, b in enumerate(bases) if len(b) <= 1 and k < len(bases) - 1]) if late_bad else -1
        for k, bs in enumerate(bases):
            marker = len(bs) == 1 and (shape.endswith("marker") and k >= len(bases) - (2 if shape == "diamond+marker" else 1)
                                       or shape == "marker-base" and k == 1)
            combined = len(bs) >= 2
            fields = []
            if marker or (combined and rng.random() < 0.55):
                n = 0
            elif combined:
                n = rng.choice([1, 1, 2])
            else:
                n = rng.choice([1, 2, 2, 3])
            for _j in range(n):
                if declared and rng.random() < (0.45 if combined else 0.15):
                    fn = rng.choice(declared)       # same name as a field of another class: override / clash
                else:
                    fn = pool[len(declared) % len(pool)] if rng.random() < 0.8 else rng.choice(pool)
                if any(fn == x for x, _ in fields):
                    continue
                want = rng.choice(["child", "child", "prop", "prop", "reject"] if k == len(bases) - 1 or combined
                                  else ["child", "child", "prop", "prop", "prop"])
                fields.append((fn, _field_type(rng, want)))
                if fn not in declared:
                    declared.append(fn)
            if k == bad_at:
                fn = next((x for x in pool if x not in declared), "z")
                fields.append((fn, _field_type(rng, "invalid-late")))
                declared.append(fn)
                if not any(z.mentions_fwd(t) for _, t in fields):
                    fn2 = next((x for x in pool if x not in declared), "y")
                    fields.append((fn2, ("fwd", 0)))
                    declared.append(fn2)
                rng.shuffle(fields)
            levels.append(fields)
        try:
            h = z.Hier(levels, bases, z.Spelling(False, False, False, False))
        except TypeError:
            continue
        if h.coherent():
            return shape, levels, bases
    return "mi2", [[("f", ("node", 0))], [("g", ("atom", "int"))], []], HIER_SHAPES["mi2"]


def judge(eff, r, k):
    """the property evaluated directly on the observation of one class (independent of the Lean model)"""
    fail = None
    sig_t = None
    types_ = dict(eff)
    deepest = max((t for _, t in eff), key=z.depth, default=("atom", "int"))
    if r[0] == "other":
        fail = f"class {k}: exception {r[1]} instead of a classification or InvalidFieldAnnotations"
        ok_fields = [t for _, t in eff if z.spec_verdict(t) != "reject"]
        sig_t = max(ok_fields, key=z.depth) if ok_fields else deepest
    elif r[0] == "ok":
        seen = [fn for fn, _ in r[1]]
        if sorted(seen) != sorted(types_):
            fail = f"class {k}: dataclass fields {seen} but the declarations resolve to {list(types_)}"
        for fn, v in r[1]:
            t = types_.get(fn, ("atom", "int"))
            if v in ("both", "neither"):
                fail = fail or f"class {k}: field {fn} is in {v} of get_child_fields / get_property_fields"
                sig_t = sig_t or t
            elif v == "prop" and z.mentions_node(t):
                fail = fail or f"class {k}: field {fn}: {z.show(t)} mentions a node class and is a property"
                sig_t = sig_t or t
            elif v != z.spec_verdict(t):
                sig_t = sig_t or t
    elif not any(z.spec_verdict(t) == "reject" for _, t in eff):
        sig_t = deepest
    return fail, sig_t


def hier_cases(shape, levels, bases, rng):
    """one hierarchy, rendered with plain and with postponed annotations (own union member orders): one model
    comparison per class that could be defined, plus the spelling-invariance oracle"""
    bits = [rng.random() < 0.5 for _ in range(6)]
    spellings = [z.Spelling(False, bits[0], bits[1], bits[2]), z.Spelling(True, bits[3], bits[4], bits[5])]
    seen = []
    kind = "hier/" + shape
    for i, sp in enumerate(spellings):
        lv = levels if i == 0 else [[(fn, z.permute_unions(t, rng)) for fn, t in lvl] for lvl in levels]
        if rng.random() < 0.5:
            z.clear_predicate_caches()
        h = z.Hier(lv, bases, sp)
        order = list(range(len(lv)))
        rng.shuffle(order)                       # order of first use among the classes
        results, phases = z.run_hier(h, order)
        for p in phases:
            _phase_stats["reject_at_definition" if p == "def" else "reject_at_first_use"] += 1
        desc0 = f"[{sp.tag()}] " + " ;; ".join(s_.strip().replace("\n", " ⏎ ") for s_ in h.sources)
        for k in sorted(results):
            eff = h.effective(k)
            fail, sig_t = judge(eff, results[k], k)
            if sig_t is None:
                sig_t = max((t for _, t in eff), key=z.depth, default=("atom", "int"))
            body = "empty" if not lv[k] else "own"
            sig = (f"hier|{shape}|class{k}-{len(bases[k])}bases-{body}|{'postponed' if sp.postponed else 'plain'}|"
                   f"{abstract(sig_t)}")
            yield Case(kind, dumps(z.request_class(h, k)), dumps(z.canon([results[k]])),
                       True, f"class C{k}_{h.uid} of " + desc0, oracle_fail=fail, sig=sig)
        seen.append((sp, {k: z.canon([r]) for k, r in results.items()}, desc0))
    fail = None
    if seen[0][1] != seen[1][1]:
        fail = (f"verdicts differ between spellings / union member orders {seen[0][0].tag()} and {seen[1][0].tag()}: "
                f"{dumps(sorted(seen[0][1].items()))} vs {dumps(sorted(seen[1][1].items()))}")
    yield Case(kind + "/spelling-invariance", None, None, True, seen[0][2], oracle_fail=fail,
               sig=f"spelling|hier|{shape}")


_EARLY = [0]


def early_use_cases(rng, n):
    """order of first use: a class whose string annotations name a node class defined LATER in the module is used
    (instantiated / asked for its fields) before that class exists -- whatever that early use does (it may raise), the
    verdicts once the class exists are the ones of the statement: children are children, never silently properties"""
    import sys
    import types
    for _ in range(n):
        _EARLY[0] += 1
        k = _EARLY[0]
        postponed = rng.random() < 0.5
        q = (lambda t: t) if postponed else (lambda t: f'"{t}"')
        src1 = (("from __future__ import annotations\n" if postponed else "") + "from dataclasses import dataclass\nfrom typing import Optional\n"
                "from pyoak.node import ASTNode\n"
                f"@dataclass(frozen=True)\nclass EuTree{k}(ASTNode):\n    left: {q(f'Optional[EuBranch{k}]')} = None\n"
                f"    kids: {q(f'tuple[EuBranch{k}, ...]')} = ()\n    label: str = ''\n")
        src2 = f"@dataclass(frozen=True)\nclass EuBranch{k}(ASTNode):\n    v: int = 0\n"
        m = types.ModuleType(f"c11_early{k}")
        sys.modules[m.__name__] = m
        fail = None
        early = ["get_child_fields", "instantiate", "get_property_fields", "none"][k % 4]
        try:
            exec(compile(src1, m.__name__, "exec"), m.__dict__)
            T = m.__dict__[f"EuTree{k}"]
            try:
                if early == "get_child_fields":
                    T.get_child_fields()
                elif early == "instantiate":
                    T()
                elif early == "get_property_fields":
                    list(T.get_property_fields())
            except Exception:  # noqa  (the forward reference cannot be resolved yet)
                pass
            exec(compile(src2, m.__name__, "exec"), m.__dict__)
            B = m.__dict__[f"EuBranch{k}"]
            t = T(left=B(v=1), kids=(B(v=2), B(v=3)))
            cf = sorted(f.name for f in T.get_child_fields())
            pf = sorted(f.name for f in T.get_property_fields())
            kids = [type(x).__name__ for x in t.get_child_nodes()]
            if cf != ["kids", "left"] or "left" in pf or "kids" in pf or "label" not in pf:
                fail = f"after early use by {early}: child fields {cf}, properties {pf} (expected children kids, left; property label)"
            elif len(kids) != 3 or len(list(t.dfs())) != 3:
                fail = f"after early use by {early}: get_child_nodes yields {kids}"
        except Exception as e:  # noqa
            fail = f"{type(e).__name__}: {e}"[:200]
        finally:
            sys.modules.pop(m.__name__, None)
        yield Case("directed:early-use", None, None, True,
                   f"class with {'postponed' if postponed else 'string'} annotations naming a later class; early use: {early}",
                   oracle_fail=fail, sig="annot|directed|early-use")


_SHADOW = [0]


def name_shadow_cases(rng, n):
    """a string annotation in a base class names a NON-node type of the base's module; a node subclass defined elsewhere
    (another module, or inside a function) happens to carry that very name: the inherited field keeps the verdict it
    has in the base (property) -- names in annotations are resolved where the annotation was written"""
    import sys
    import types
    from pyoak.node import ASTNode
    for _ in range(n):
        _SHADOW[0] += 1
        k = _SHADOW[0]
        tname = rng.choice(["Kind", "Mode", "Tag"]) + str(k)
        postponed = rng.random() < 0.5
        target = rng.choice(["enum", "newtype", "alias"])
        decl = {"enum": f"class {tname}(enum.Enum):\n    A = 1\n    B = 2\n", "newtype": f"{tname} = NewType('{tname}', int)\n",
                "alias": f"{tname} = int\n"}[target]
        default = {"enum": f"{tname}.A", "newtype": f"{tname}(1)", "alias": "1"}[target]
        ann = tname if postponed else f'"{tname}"'
        opt = "Optional[ASTNode]" if postponed else '"Optional[ASTNode]"'
        base_src = (("from __future__ import annotations\n" if postponed else "") + "import enum\nfrom dataclasses import dataclass\n"
                    "from typing import NewType, Optional\nfrom pyoak.node import ASTNode\n" + decl +
                    f"@dataclass(frozen=True)\nclass ShBase{k}(ASTNode):\n    tag: {ann} = {default}\n    kid: {opt} = None\n")
        bm = types.ModuleType(f"c11_shadow_base{k}")
        sys.modules[bm.__name__] = bm
        fail = None
        try:
            exec(compile(base_src, bm.__name__, "exec"), bm.__dict__)
            base = getattr(bm, f"ShBase{k}")
            where = rng.choice(["module", "function"])
            sub_src = f"from dataclasses import dataclass\n@dataclass(frozen=True)\nclass {tname}(ShBase{k}):\n    extra: int = 0\n"
            sm = types.ModuleType(f"c11_shadow_sub{k}")
            sys.modules[sm.__name__] = sm
            sm.__dict__[f"ShBase{k}"] = base
            if where == "module":
                exec(compile(sub_src, sm.__name__, "exec"), sm.__dict__)
                sub = sm.__dict__[tname]
            else:
                # as inside a function body: the class lands in a local namespace, not in its module's globals
                loc: dict = {}
                exec(compile(sub_src, sm.__name__, "exec"), sm.__dict__, loc)
                sub = loc[tname]
            order = [base, sub] if rng.random() < 0.5 else [sub, base]
            seen = {}
            for c in order:
                inst = c()
                seen[c] = (sorted(f.name for f in c.get_child_fields()),
                           sorted(f.name for f in c.get_property_fields()), [type(x).__name__ for x in inst.get_child_nodes()])
            if seen[base][0] != ["kid"] or "tag" not in seen[base][1]:
                fail = f"base class: child fields {seen[base][0]}, properties {seen[base][1]}"
            elif seen[sub][0] != ["kid"] or "tag" not in seen[sub][1] or "extra" not in seen[sub][1]:
                fail = (f"inherited field 'tag' (annotation {ann} -> a non-node {target} of the base's module): in the subclass named "
                        f"{tname!r} child fields are {seen[sub][0]}, properties {seen[sub][1]} (base: property)")
        except Exception as e:  # noqa
            fail = f"{type(e).__name__}: {e}"[:200]
        finally:
            sys.modules.pop(bm.__name__, None)
            sys.modules.pop(f"c11_shadow_sub{k}", None)
        yield Case("directed:name-shadow", None, None, True,
                   f"base: tag: {ann} ({target} {tname} of the base module; {'postponed' if postponed else 'string'} annotation); "
                   f"subclass `class {tname}(ShBase)` defined in another scope", oracle_fail=fail, sig="annot|directed|name-shadow")


def observe_fkind(t, sp):
    """what `process_node_fields` stores for a single field annotated `t`: reject | prop | one | tuple
    (`FieldTypeInfo.is_collection` of a child field), or other:<exception>"""
    import builtins
    import sys
    import types as _types
    import __future__
    from pyoak.error import InvalidFieldAnnotations
    z.shared()
    ch = z.Chain([[("f", t)]], sp)
    mod = _types.ModuleType(ch.modname)
    sys.modules[ch.modname] = mod
    ns = mod.__dict__
    flags = __future__.annotations.compiler_flag if sp.postponed else 0
    try:
        try:
            exec(builtins.compile(ch.header, ch.modname, "exec", flags=flags, dont_inherit=True), ns)
            exec(builtins.compile(ch.sources[0], ch.modname, "exec", flags=flags, dont_inherit=True), ns)
            exec(builtins.compile(ch.later, ch.modname, "exec", flags=flags, dont_inherit=True), ns)
            cls = ns[ch.class_names[0]]
            cls(f=z.sample_value(t, ns, ch.uid) if z.child_shape(t) else None)
            kids = {f.name: info for f, info in cls.get_child_fields().items()}
            props = {f.name for f in cls.get_property_fields()}
            if "f" in kids and "f" in props:
                return "other:both", ch
            if "f" in kids:
                return ("tuple" if kids["f"].is_collection else "one"), ch
            return ("prop" if "f" in props else "other:neither"), ch
        except InvalidFieldAnnotations:
            return "reject", ch
        except Exception as e:  # noqa
            return "other:" + type(e).__name__, ch
    finally:
        sys.modules.pop(ch.modname, None)


def fkind_cases(rng, n_random):
    """Model/AnnotAcc.lean `fkind`: the kind of table entry (`Acc.FKind`) a field gets -- the link C11 -> C12"""
    sps = all_spellings()
    terms = [(t, "named") for t in NAMED]
    for _ in range(n_random):
        terms.append((z.random_ty(rng, rng.choice([1, 2, 2, 3]), rng.choice(["node", "node", "mixed", "prop"])), "random"))
    for i, (t, origin) in enumerate(terms):
        sp = sps[(i * 7 + 1) % 16]
        if rng.random() < 0.5:
            z.clear_predicate_caches()
        got, ch = observe_fkind(t, sp)
        fail = None
        if got.startswith("other:"):
            fail = f"{got[6:]} instead of a table entry or InvalidFieldAnnotations"
        yield Case("fkind/" + origin, dumps([A("c11-fkind"), z.sx(t)]), dumps([A("ok"), A(got)]), z.depth(t) >= 1,
                   f"[{sp.tag()}] " + ch.sources[0].strip().replace("\n", " ⏎ "), oracle_fail=fail,
                   sig=f"fkind|{abstract(t)}")


def resolve_fwd(t):
    """Spec/AnnotFwd.lean `resolveAll`: every forward reference becomes a reference to a class that already exists"""
    k = t[0]
    if k == "fwd":
        return ("node", t[1] % 3)
    if k == "nt":
        return ("nt", resolve_fwd(t[1]))
    if k == "union":
        return ("union", [resolve_fwd(m) for m in t[1]])
    if k == "vtuple":
        return ("vtuple", resolve_fwd(t[1]))
    if k == "coll":
        return ("coll", t[1], [resolve_fwd(m) for m in t[2]])
    return t


def has_dup_union(t) -> bool:
    """a union two of whose members are the same type term: Python collapses `Union[X, X]` to `X` (and `X | X` likewise) as
    soon as both are evaluated, so the written union is not the annotation the class carries -- a degenerate spelling outside
    the grammar of the property (a union lists DIFFERENT alternatives)"""
    k = t[0]
    if k == "union":
        ms = t[1]
        return any(ms[i] == ms[j] for i in range(len(ms)) for j in range(i + 1, len(ms))) or any(has_dup_union(m) for m in ms)
    if k in ("nt", "vtuple"):
        return has_dup_union(t[1])
    if k == "coll":
        return any(has_dup_union(m) for m in t[2])
    return False


def resolve_invariance_cases(rng, n):
    """Props/C11Fwd.lean `chainOutcome_mapRef` on the real code: a chain whose annotations name classes defined LATER
    (unresolvable when the class is defined: the definition-time check is skipped) and the same chain naming classes
    that already exist get the same outcome, class by class"""
    for _ in range(n):
        for _try in range(40):
            levels = random_levels(rng, rng.choice([1, 2, 2, 3]))
            if any(z.mentions_fwd(t) for lvl in levels for _, t in lvl) and \
                    not any(has_dup_union(resolve_fwd(t)) for lvl in levels for _, t in lvl):
                break        # (members that differ only by forward vs resolved reference coincide after resolution)
        else:
            levels = [[("f", ("vtuple", ("fwd", 0)))], [("g", ("coll", "list", [("fwd", 1)]))]]
        resolved = [[(fn, resolve_fwd(t)) for fn, t in lvl] for lvl in levels]
        bits = [rng.random() < 0.5 for _ in range(8)]
        c1, o1 = one_case(levels, z.Spelling(bits[0], bits[1], bits[2], bits[3]), rng, "resolve/late")
        c2, o2 = one_case(resolved, z.Spelling(bits[4], bits[5], bits[6], bits[7]), rng, "resolve/early")
        yield c1
        yield c2
        fail = None
        if z.canon(o1) != z.canon(o2):
            fail = (f"outcome differs between forward references and resolved references: {dumps(z.canon(o1))} vs "
                    f"{dumps(z.canon(o2))}")
        yield Case("resolve/invariance", None, None, c1.nontrivial, c1.desc + "  ~~  " + c2.desc, oracle_fail=fail,
                   sig=c1.sig.replace("classify|", "resolve|", 1))


def cases(rng: random.Random, tier: str):
    quick = tier == "quick"
    yield from fkind_cases(rng, 60 if quick else 1500)
    yield from resolve_invariance_cases(rng, 40 if quick else 800)
    yield from name_shadow_cases(rng, 8 if quick else 120)
    yield from early_use_cases(rng, 8 if quick else 120)
    # 1. the shapes the statement names
    sps = all_spellings()
    for i, t in enumerate(NAMED):
        if quick:
            chosen = [sps[(i * 5) % 16], sps[(i * 5 + 8) % 16], sps[(i * 7 + 3) % 16]]
            chosen = [chosen[0]] + [s for s in chosen[1:] if s.tag() != chosen[0].tag()]
        else:
            chosen = sps
        yield from variants([[("f", t)]], rng, "named", chosen)
    # 2. random single classes
    for _ in range(350 if quick else 6000):
        n = rng.choice([1, 1, 2, 3])
        fields = []
        for j in range(n):
            t = z.random_ty(rng, rng.choice([1, 2, 2, 3, 3]), rng.choice(["node", "node", "mixed", "prop"]))
            fields.append(("fgh"[j], t))
        yield from variants([fields], rng, "single")
    # 3. inheritance chains
    for _ in range(220 if quick else 4000):
        yield from variants(random_levels(rng, rng.choice([2, 2, 3])), rng, "chain")
    # 4. multiple inheritance: two or three node bases, diamonds, empty-body combined classes, marker subclasses
    for _ in range(130 if quick else 2000):
        shape, levels, bases = random_hier(rng)
        yield from hier_cases(shape, levels, bases, rng)
    # 5. exhaustive small scope
    if not quick:
        atoms = [("atom", "int"), ("none",), ("node", 0), ("node", 1), ("fwd", 0)]
        for i, t in enumerate(z.all_terms(atoms, 2)):
            case, _ = one_case([[("f", t)]], sps[i % 16], rng, "exhaustive")
            yield case


def extra_coverage():
    return {"phase_of_observed_rejections": dict(_phase_stats),
            "exhaustive_scope": "thorough tier: every term of depth <= 2 over {int, None, N0, N1, Fwd0} (unions of 2 members "
                          "(+None), tuples of <= 2, one-argument containers, str-keyed mappings), one spelling each"}
