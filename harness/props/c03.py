"""C03 — registry = exactly the live, not-detached nodes under unique ids.
K1: after every operation of random histories the registry dump (id -> object token), the set
of live objects, sampled get()/get_any() answers and the operation's outcome of the real code
are compared with the Lean registry state machine (Props/C03.lean: invariants by induction)."""
from __future__ import annotations

import random

from run import Case
from regmachine import Machine

PROPERTY = "C03"
LEAN_MODULE = "PyOak.Props.C05"
THEOREMS = ["PyOak.C05.dfs_top_down"]
RULE = ("random histories (<= 30 ops, 6 variables) of construct (leaf twins, inner nodes over live objects, shared "
        "children) / duplicate / dataclasses.replace / ASTNode.replace ok+raising / detach / detach_self (also on "
        "already detached) / as_dict..as_obj / alias / del+gc, for ID_DIGEST_SIZE in {1, 2, 8}; after each op the whole "
        "registry, liveness of every object ever created and sampled get(strict/non-strict) are compared; "
        "non-trivial = history with >= 8 ops; distinct by request line")
TRUSTED = ["CPython refcounting + gc.collect() frees unreferenced nodes; WeakValueDictionary drops their entries",
           "digest values are inputs of the model (arbitrary function, collisions allowed)"]
ASSUMPTIONS = ["the harness holds strong references only through its variable table"]
BUDGET = {"quick": 240, "thorough": 2400}


def sig_of(m: Machine, real: str, model: str | None) -> str:
    return "registry|history"


def cases(rng: random.Random, tier: str):
    n = 150 if tier == "quick" else 4000
    for _ in range(n):
        size = rng.choice([8, 8, 8, 2, 2, 1])
        nops = rng.choice([4, 8, 12, 20, 30])
        with Machine(rng, size) as m:
            for _k in range(nops):
                m.random_op()
            line = m.request()
            real = m.observation()
            desc = f"ID_DIGEST_SIZE={size}: " + "; ".join(m.descr)
            ff = m.frame_fail
        yield Case(f"history:ds{size}", line, real, nops >= 8, desc, sig="registry|history")
        if ff:
            yield Case("history-oracle", None, None, True, desc, oracle_fail=ff, sig="registry|oracle|" + ff[:40])
