"""C03 — registry = exactly the live, not-detached nodes under unique ids.
K1: after every operation of random histories the registry dump (id -> object token), the set
of live objects, sampled get()/get_any() answers and the operation's outcome of the real code
are compared with the Lean registry state machine (Props/C03.lean: invariants by induction)."""
from __future__ import annotations

import random

from run import Case
from regmachine import Machine
from kernels_tie import optional_registry as optional_obligation  # noqa: F401  (registry functions of node.py regenerated: optional bridge)

PROPERTY = "C03"
LEAN_MODULE = "PyOak.Props.C03All"      # C03 + C03Extra (AUDIT #7 additions)
THEOREMS = ["PyOak.C03." + t for t in [
    "freshId_free", "id_fresh_is_base", "pNew_inv", "pDetachSelf_inv", "pRestore_inv", "pForceId_inv", "pForceId_LR",
    "gc_inv", "gc_regLive", "gc_liveRegistered", "inv_step", "regLive_step", "inv_run", "regLive_run",
    "liveRegistered_step_partial", "liveRegistered_step", "liveRegistered_run", "replace_fail_frame",
    "replace_fail_raised", "get_sound", "asObj_evicts_live"]]
# Props/C03Extra.lean (AUDIT.md C03 §4 / top-10 #7): lookup completeness, distinct ids, detach unregisters the subtree
THEOREMS += ["PyOak.C03." + t for t in [
    "lookup_complete", "lookup_only_own_class", "lookup_unique", "registered_ids_distinct", "live_ids_distinct",
    "detach_unregisters", "detach_not_returned"]]
PARTIAL = ["liveRegistered_step for as_obj carries the decidable hypothesis noClash (no forced serialized id is occupied at "
           "the moment it is forced); the excluded point is the known finding F19 (theorem asObj_evicts_live is its "
           "decide-checked witness) and is replayed on the real code in every run"]
RULE = ("random histories (<= 30 ops, 6 variables) of construct (leaf twins, inner nodes over live objects, shared "
        "children) / duplicate / dataclasses.replace / ASTNode.replace ok+raising / detach / detach_self (also on "
        "already detached) / as_dict..as_obj / alias / del+gc, for ID_DIGEST_SIZE in {1, 2, 8}; after each op the whole "
        "registry, liveness of every object ever created and sampled get(strict/non-strict) are compared; "
        "non-trivial = history with >= 8 ops; distinct by request line")
TRUSTED = ["CPython refcounting + gc.collect() frees unreferenced nodes; WeakValueDictionary drops their entries",
           "digest values are inputs of the model (arbitrary function, collisions allowed)"]
ASSUMPTIONS = ["the harness holds strong references only through its variable table"]
BUDGET = {"quick": 240, "thorough": 2400}


def sig_of(m: Machine, real: str, model: str | None) -> str:
    return "registry|history"


def f19_corpus():
    """known finding F19, replayed on the real code: ID_DIGEST_SIZE=1, a parent whose own base digest equals the id of
    its (earlier detached) child is serialized; as_obj in an empty registry forces the parent's id over the live child"""
    import gc
    import pyoak.config as pconfig
    from pyoak.node import NODE_REGISTRY, ASTNode
    import zoo
    old = pconfig.ID_DIGEST_SIZE
    pconfig.ID_DIGEST_SIZE = 1
    msg = None
    found = False
    try:
        for v in range(3000):
            gc.collect()
            NODE_REGISTRY.clear()
            c = zoo.Leaf(v=v)
            c.detach_self()
            p = zoo.Un(c)
            if p.id != c.id:
                del c, p
                continue
            found = True
            d = p.as_dict()
            del c, p
            gc.collect()
            NODE_REGISTRY.clear()
            p2 = zoo.Un.as_obj(d)
            kid = p2.arg
            if ASTNode.get_any(kid.id) is not kid:
                msg = (f"ID_DIGEST_SIZE=1: p = Un(Leaf(v={v})) serialized with p.id == child.id; Un.as_obj(p.as_dict()) in an "
                       f"empty registry leaves the live, never detached child unreachable by lookup under its id")
            del p2, kid, d
            break
    finally:
        pconfig.ID_DIGEST_SIZE = old
        gc.collect()
        NODE_REGISTRY.clear()
    yield Case("corpus:F19", None, None, True, msg or f"F19 witness search: collision found={found}, no eviction observed",
               oracle_fail=msg, sig="live-not-registered|op=asobj|ds=1")


def directed_registry_cases(rng, n):
    """short fixed-shape histories around twins, shared children and multiple inheritance; evaluated with the
    statement itself (every live, never detached node is returned under its id; detached ones are not)"""
    import gc
    from pyoak.node import NODE_REGISTRY, ASTNode
    import zoo
    for _ in range(n):
        gc.collect()
        NODE_REGISTRY.clear()
        v = rng.randint(0, 3)
        fail = None
        # (a) a leaf shared by two trees; detach one tree, create a twin of the leaf (it takes the freed id), detach the other
        leaf = zoo.Leaf(v=v)
        t1, t2 = zoo.Un(leaf), zoo.Tup((leaf, zoo.Leaf(v=v + 1)))
        t1.detach()
        twin = zoo.Leaf(v=v)
        t2.detach()
        if ASTNode.get_any(twin.id) is not twin:
            fail = "a live, never detached twin was evicted by detach() of a tree that does not contain it"
        elif ASTNode.get_any(leaf.id) is leaf:
            fail = "a detached node is still returned"
        # (b) multiple inheritance: children stored in the second base's field are detached with the tree
        if fail is None:
            a, b = zoo.Leaf(v=10 + v), zoo.Leaf(v=20 + v)
            both = zoo.MBoth(lv=v, lk=a, rv=v, rk=b)
            wrap = zoo.Un(both) if rng.random() < 0.5 else both
            wrap.detach()
            for x in (a, b, both):
                if ASTNode.get_any(x.id) is x:
                    fail = f"detached {type(x).__name__} below a multiply-inheriting node is still returned by the registry"
        # (c) detach the same tree twice while a twin tree was created in between
        if fail is None:
            p = zoo.Bin(zoo.Leaf(v=30 + v), zoo.Leaf(v=40 + v))
            p.detach()
            q = zoo.Bin(zoo.Leaf(v=30 + v), zoo.Leaf(v=40 + v))
            p.detach()
            for x in [q] + q.children:
                if ASTNode.get_any(x.id) is not x:
                    fail = "detaching an already detached tree evicted a live twin tree"
        # (e) an inner node already left the registry (detach_self, or replaced by a new node) before an ancestor is
        #     detach()ed: "detached nodes are not returned" holds for EVERY node of the detached tree
        if fail is None:
            l1, l2 = zoo.Leaf(v=70 + v), zoo.Leaf(v=80 + v)
            inner = zoo.Bin(l1, l2)
            mid = zoo.Un(inner) if rng.random() < 0.5 else zoo.Tup((zoo.Leaf(v=90 + v), inner))
            top = zoo.Un(mid)
            how = rng.choice(["detach_self", "replace"])
            if how == "detach_self":
                inner.detach_self()
            else:
                newer = inner.replace(left=zoo.Leaf(v=75 + v))     # `inner` itself still sits in the old tree
            (top if rng.random() < 0.5 else mid).detach()
            for x in (l1, l2, inner, mid):
                if ASTNode.get_any(x.id) is x:
                    fail = (f"a {type(x).__name__} of a detach()ed tree is still returned by lookup (an inner node had left the "
                            f"registry before by {how})")
        # (f) "a node created while no registered node has the same class, origin and comparable content gets the same id
        #     every time": content that is an init=False comparable property (computed before the base initialiser runs)
        if fail is None:
            from props.c01 import Derived
            gc.collect()
            NODE_REGISTRY.clear()
            alone = Derived(text="bb")
            id0 = alone.id
            del alone
            gc.collect()
            other = Derived(text="a")          # other comparable content (value = 1), alive
            again = Derived(text="bb")
            if again.id != id0:
                fail = (f"Derived(text='bb') (comparable value=2) gets id {again.id} next to a live Derived(text='a') (value=1) "
                        f"but {id0} when created alone: no registered node has the same comparable content")
            del other, again
        # (g) ids of nodes whose string properties are built from the digest framing itself (escape character, closing bracket,
        #     the separator between two properties): all contents differ, all nodes are alive at once, so no id may carry a
        #     collision suffix ("a node created while no registered node has the same ... comparable content gets the same id")
        if fail is None and _ == 0:
            from props.c01 import framing_tokens
            gc.collect()
            NODE_REGISTRY.clear()
            toks = framing_tokens("):b=<class 'str'>(")
            alive = [zoo.Two(a=x, b=y) for x in toks for y in toks]
            suff = [n for n in alive if "_" in n.id]
            if suff:
                fail = (f"Two(a={suff[0].a!r}, b={suff[0].b!r}) got the suffixed id {suff[0].id} although no registered node has the "
                        f"same content ({len(suff)} of {len(alive)} nodes)")
            del alive, suff
        # (d) a live child in a field typed as a union of unrelated classes (non-first member) below an unregistered
        #     parent: deserializing the parent's payload re-uses the child and never evicts it
        if fail is None:
            kid = zoo.Bin(zoo.Leaf(v=50 + v), zoo.Leaf(v=60 + v))
            par = zoo.UnionKid(kid)
            d = par.as_dict()
            par.detach_self()
            back = zoo.UnionKid.as_obj(d)
            if back.c is not kid:
                fail = "a still registered child was not re-used by deserialization (union-typed field)"
            elif ASTNode.get_any(kid.id) is not kid:
                fail = "deserialization evicted a live, registered child from the registry"
            del back, par, kid
        yield Case("directed", None, None, True, f"shared leaf / MBoth / double detach / union-typed child with v={v}", oracle_fail=fail,
                   sig="registry|directed|" + (fail or "")[:40])
    gc.collect()
    NODE_REGISTRY.clear()


def takeover_cases(rng, n):
    """ID_DIGEST_SIZE=1: a node A is serialized and dropped; a DIFFERENT node B whose digest collides takes over the freed
    id; A's payload is read back while B is alive.  Whatever the library answers, B (live, never detached) must still be
    returned under its id, and ids of simultaneously registered nodes must be pairwise different."""
    import gc
    import pyoak.config as pconfig
    from pyoak.node import NODE_REGISTRY, ASTNode
    import zoo
    old = pconfig.ID_DIGEST_SIZE
    pconfig.ID_DIGEST_SIZE = 1
    try:
        for _ in range(n):
            gc.collect()
            NODE_REGISTRY.clear()
            va = rng.randrange(10 ** 6)
            deep = rng.random() < 0.5
            a = zoo.Un(zoo.Leaf(v=va)) if deep else zoo.Leaf(v=va)
            aid = a.id
            d = a.as_dict()
            del a
            gc.collect()
            NODE_REGISTRY.clear()
            b = None
            for vb in range(va + 1, va + 4000):
                cand = zoo.Leaf(v=vb, s="other")
                if cand.id == aid:
                    b = cand
                    break
                del cand
            if b is None:
                continue
            gc.collect()
            back = (zoo.Un if deep else zoo.Leaf).as_obj(d)
            fail = None
            if ASTNode.get_any(b.id) is not b:
                fail = "a live, never detached node is no longer returned under its id after as_obj of an unrelated payload carrying the same id"
            else:
                live = [o for o in (b, back) + ((back.arg,) if deep and back is not b and hasattr(back, "arg") else ())]
                reg = [o for o in live if NODE_REGISTRY.get(o.id) is o]
                ids = [o.id for o in {id(o): o for o in reg}.values()]
                if len(set(ids)) != len(ids):
                    fail = "two simultaneously registered nodes share an id"
            yield Case("directed:takeover", None, None, True,
                       f"ID_DIGEST_SIZE=1: A={'Un(Leaf' if deep else 'Leaf'}(v={va})) serialized and dropped; B=Leaf(v={vb}, s='other') "
                       f"takes id {aid}; as_obj(A's payload) while B is alive", oracle_fail=fail, sig="registry|directed|takeover")
            del b, back, d
    finally:
        pconfig.ID_DIGEST_SIZE = old
        gc.collect()
        NODE_REGISTRY.clear()


def suffixed_payload_cases(rng, n):
    """a payload whose id carries a collision suffix (the second / third of several content-identical nodes was serialized)
    is read back when the base id is free again: the node is registered under exactly ONE id, the serialized one; the base
    id stays free (a later identical construction gets it); after detach() the node is not returned under any id"""
    import gc
    from pyoak.node import NODE_REGISTRY, ASTNode
    import zoo
    for _ in range(n):
        gc.collect()
        NODE_REGISTRY.clear()
        v = rng.randrange(10 ** 6)
        deep = rng.random() < 0.5
        mk = (lambda: zoo.Un(zoo.Leaf(v=v))) if deep else (lambda: zoo.Leaf(v=v))
        twins = [mk() for _k in range(rng.choice([2, 3]))]
        base = twins[0].id
        last = twins[-1]
        payload, lid = last.as_dict(), last.id
        cls = type(last)
        del twins, last
        gc.collect()
        NODE_REGISTRY.clear()
        fail = None
        back = cls.as_obj(payload)
        keys = [k for k, o in list(NODE_REGISTRY.items()) if o is back]
        if back.id != lid:
            fail = f"id {back.id}, serialized {lid}"
        elif keys != [lid]:
            fail = f"the node read back (id {lid}) is registered under {keys}"
        elif ASTNode.get_any(base) is not None and base != lid:
            fail = f"the free base id {base} returns a node after as_obj of a payload with id {lid}"
        else:
            fresh = mk()
            if fresh.id != base:
                fail = f"a fresh identical construction gets id {fresh.id}; the base id {base} was free"
            del fresh
            back.detach()
            if any(o is back for o in list(NODE_REGISTRY.values())):
                fail = fail or "after detach() the node is still registered under some id"
        yield Case("directed:suffixed-payload", None, None, True,
                   f"{'Un(Leaf' if deep else 'Leaf'}(v={v})) x{lid.count('_') + 1 if '_' in lid else 1}: payload with id {lid} read back with base id {base} free",
                   oracle_fail=fail, sig="registry|directed|suffixed-payload")
        del back, payload


def failed_replace_release_cases(rng, n):
    """"nodes no longer referenced anywhere are not returned and are not kept alive by the library": a node whose replace()
    was rejected (unknown field, non-init field) and which the program then drops is gone at once -- no cyclic garbage
    collection is needed (the automatic collector is switched off for the scenario)"""
    import gc
    import weakref
    from pyoak.node import ASTNode
    import zoo
    for k in range(n):
        gc.collect()
        was = gc.isenabled()
        gc.disable()
        try:
            x = zoo.Un(zoo.Leaf(v=rng.randrange(10 ** 6))) if k % 2 else zoo.Leaf(v=rng.randrange(10 ** 6))
            xid, wr = x.id, weakref.ref(x)
            bad = [{"nonexistent": 1}, {"cnt": 3}, {"id": "zz"}][k % 3]
            try:
                x.replace(**bad)
                rejected = False
            except Exception:  # noqa
                rejected = True
            del x
            fail = None
            if rejected and wr() is not None:
                fail = "a node dropped after a rejected replace() is still alive (kept by the library until a cyclic collection)"
            elif rejected and ASTNode.get_any(xid) is not None:
                fail = "a node dropped after a rejected replace() is still returned by get_any"
        finally:
            if was:
                gc.enable()
        yield Case("directed:failed-replace-release", None, None, True, f"replace(**{bad}) rejected, node dropped, no gc pass",
                   oracle_fail=fail, sig="registry|directed|failed-replace-release")


def cases(rng: random.Random, tier: str):
    yield from suffixed_payload_cases(rng, 6 if tier == "quick" else 100)
    yield from failed_replace_release_cases(rng, 6 if tier == "quick" else 60)
    yield from f19_corpus()
    yield from directed_registry_cases(rng, 10 if tier == "quick" else 200)
    yield from takeover_cases(rng, 6 if tier == "quick" else 100)
    # operations that fail part-way (a replace() rejected by the class' own validation AFTER the new node was registered,
    # a transform that raises later): "each node that is still referenced and has not itself been detached or replaced away
    # is returned by lookup under its id" also afterwards -- the directed fail-part-way scenarios of C10, registry part
    from props.c10 import directed_cases as _c10_directed
    for c in _c10_directed(rng, 8 if tier == "quick" else 100):
        if c.kind in ("directed:late-failing-replace", "directed:falsy-twin"):
            c.sig = "registry|" + c.sig
            yield c
    n = 150 if tier == "quick" else 4000
    for _ in range(n):
        size = rng.choice([8, 8, 8, 2, 2, 1])
        nops = rng.choice([4, 8, 12, 20, 30])
        with Machine(rng, size) as m:
            for _k in range(nops):
                m.random_op()
            line = m.request()
            real = m.observation()
            desc = f"ID_DIGEST_SIZE={size}: " + "; ".join(m.descr)
            ff = m.frame_fail
            lr = m.lr_fail
        yield Case(f"history:ds{size}", line, real, nops >= 8, desc, sig="registry|history")
        if ff:
            yield Case("history-oracle", None, None, True, desc, oracle_fail=ff, sig="registry|oracle|" + ff[:40])
        yield Case("live-registered-oracle", None, None, nops >= 8, desc, oracle_fail=lr[1] if lr else None,
                   sig=lr[0] if lr else "live-not-registered")
