"""C02 — `==` is content equality plus origin equality at every position.
K1: real a == b, b == a, a != b vs. the model's eqImpl; oracle: the statement evaluated on the
specs by the harness; reflexivity / symmetry / transitivity / != / non-node / hash constancy
checked on the real objects."""
from __future__ import annotations

import random

from proto import A, dumps
from run import Case
import zoo
from props.c01 import mutate, fresh_keys

from kernels_tie import optional_eq as optional_obligation  # noqa: F401  (`_eq_fn` regenerated from node.py: optional bridge)

PROPERTY = "C02"
LEAN_MODULE = "PyOak.Props.C02All"
THEOREMS = ["PyOak.C02." + t for t in ["eq_total", "eq_iff", "eq_refl", "eq_symm", "eq_trans", "ne_eq_not",
                                       "eq_other_class", "aligned", "keys_agree"]]
# additions (AUDIT item #6): the equivalence laws without any hypothesis (any digest, any trees)
THEOREMS += ["PyOak.C02." + t for t in ["eq_comm", "ne_comm", "eq_symm_any", "eq_trans_any", "eq_equivalence",
                                        "eq_of_nodeEq", "zipOrigins_comm", "zipOrigins_trans"]]
RULE = ("pairs/triples of zoo trees: copies whose origin differs at exactly one position (root, child, grandchild, "
        "deeper; inside tuples and single fields; no-origin, code, generated and multi origins), content mutants, "
        "content-equal twins; non-trivial = tree >= 3 nodes; distinct by both descriptions")
TRUSTED = ["origin equality is dataclass equality of the origin objects (keys assigned by the harness via ==)",
           "blake2b idealised as injective"]
ASSUMPTIONS = []
BUDGET = {"quick": 240, "thorough": 2400}


def fqn_twin(rng, o):
    """an origin that is != o but has the same fqn (other class, or same indexes with other line/column)"""
    from pyoak.origin import (EMPTY_CODE_RANGE, CodeOrigin, CodePoint, CodeRange, GeneratedCodeOrigin, MultiOrigin)
    if isinstance(o, GeneratedCodeOrigin):
        return CodeOrigin(o.source, EMPTY_CODE_RANGE)
    if isinstance(o, CodeOrigin):
        r = o.position
        if r == EMPTY_CODE_RANGE and rng.random() < 0.5:
            return GeneratedCodeOrigin(o.source)
        return CodeOrigin(o.source, CodeRange(CodePoint(r.start.index, r.start.line + 1, r.start.column),
                                              CodePoint(r.end.index, r.end.line + 1, r.end.column)))
    if isinstance(o, MultiOrigin):
        return MultiOrigin([fqn_twin(rng, o.origins[0]) or o.origins[0]] + list(o.origins[1:]))
    return None


def change_origin_at(rng, spec, min_depth=0):
    pos = [p for p in zoo.spec_positions(spec) if len(p[0]) >= min_depth] or list(zoo.spec_positions(spec))
    path, s = rng.choice(pos)
    _, c, p, k, o, key = s
    no = fqn_twin(rng, o) if rng.random() < 0.4 else None
    if no is None or zoo.struct_eq(no, o):
        for _ in range(10):
            no = zoo.gen_origin(rng)
            if not zoo.struct_eq(no, o):
                break
    return zoo.spec_replace(spec, path, ("node", c, p, k, no, key)), len(path)


def origins_agree(a, b, ma=None, mb=None) -> bool:
    ma = {} if ma is None else ma
    mb = {} if mb is None else mb
    def res(s, m):
        if s[0] == "ref":
            return m[s[1]]
        m[s[5]] = s
        return s
    a, b = res(a, ma), res(b, mb)
    if not zoo.struct_eq(a[4], b[4]):
        return False
    for name, x in a[3].items():
        y = b[3].get(name)
        if isinstance(x, list):
            if not isinstance(y, list) or len(x) != len(y) or not all(origins_agree(c, d, ma, mb) for c, d in zip(x, y)):
                return False
        elif x is not None:
            if y is None or isinstance(y, list) or not origins_agree(x, y, ma, mb):
                return False
    return True


class _Agreeable:
    def __eq__(self, other):
        return True

    def __ne__(self, other):
        return False

    __hash__ = None


_AGREEABLE = _Agreeable()


class _Handle:
    """a non-node handle that compares equal to whatever carries the same id"""
    def __init__(self, id_):
        self.id = id_

    def __eq__(self, other):
        return getattr(other, "id", None) == self.id

    __hash__ = None


def _twin_class():
    """a class factory: every call makes a NEW node class with the same name and the same fields"""
    import dataclasses

    @dataclasses.dataclass(frozen=True)
    class EqTwin(zoo.Expr):
        v: int = 0
    return EqTwin


def directed_cases(rng, n):
    """(1) one tree holds the SAME object at two positions, the other two separate content-equal nodes there, and an origin
    differs below one of them (== compares positions, not objects); (2) nodes of two different classes that carry the same
    class name and the same content (a subclass keeping its parent's name; a class factory called twice)"""
    from props.c01 import _ShadeBase, Shade
    for _ in range(n):
        o = [zoo.gen_origin(rng) for _ in range(4)]
        while type(o[3]) is type(o[2]) and o[3] == o[2]:
            o[3] = zoo.gen_origin(rng)

        def inner(changed: bool, depth: int):
            x = zoo.Bin(zoo.Leaf(v=1, origin=o[0]), zoo.Leaf(v=2, origin=o[3] if changed else o[2]), origin=o[1])
            for _d in range(depth):
                x = zoo.Un(x, origin=o[1])
            return x
        depth = rng.choice([0, 1, 2])
        for which in ("none", "first", "second"):
            shared = inner(False, depth)
            a = zoo.Bin(shared, shared, origin=o[0])
            b = zoo.Bin(inner(which == "first", depth), inner(which == "second", depth), origin=o[0])
            want = which == "none"
            got = (a == b, b == a, a != b, b != a)
            fail = None
            if got != (want, want, not want, not want):
                fail = (f"(a == b, b == a, a != b, b != a) = {got}, expected {(want, want, not want, not want)}: a holds one object at "
                        f"both positions, b two separate equal nodes; origin changed below the {which} one")
            yield Case("directed:shared-vs-separate", None, None, True,
                       f"a=Bin(x, x) with x shared (wrapped {depth}x), b=Bin(x1, x2) separate copies, origin of a grandchild changed in: {which}",
                       oracle_fail=fail, sig="eq|directed|shared-vs-separate")
            del shared, a, b
        # (3) two distinct objects with the SAME id (the id encodes only the node's own content / origin and its direct
        #     children's): a replace() that keeps the id, or a rebuild after detach; origins differ at depth >= 2
        oa, ob = zoo.gen_origin(rng), zoo.gen_origin(rng)
        while type(oa) is type(ob) and oa == ob:
            ob = zoo.gen_origin(rng)
        mk = lambda og: zoo.Un(zoo.Leaf(v=5, origin=og), origin=o[1])  # noqa
        old = zoo.Un(mk(oa), origin=o[0])
        how = rng.choice(["replace", "detach-rebuild"])
        if how == "replace":
            new = old.replace(arg=mk(ob))
        else:
            old.detach()
            new = zoo.Un(mk(ob), origin=o[0])
        third = zoo.Un(mk(oa), origin=o[0])
        got = (old == new, new == old, old != new, old == third, third == new)
        fail = None
        if got != (False, False, True, True, False):
            fail = (f"(old == new, new == old, old != new, old == copy, copy == new) = {got}, expected (False, False, True, True, False): "
                    f"same id: {old.id == new.id}; the origins of the grandchildren differ")
        yield Case("directed:same-id-other-origin", None, None, True,
                   f"old=Un(Un(Leaf@A)); new by {how} with Leaf@B below an equal child (ids equal: {old.id == new.id})",
                   oracle_fail=fail, sig="eq|directed|same-id-other-origin")
        del old, new, third
        v = rng.randint(0, 3)
        b0, s0 = _ShadeBase(v=v), Shade(v=v)
        first, second = _twin_class(), _twin_class()
        f1, f2 = first(v=v), second(v=v)
        fail = None
        if (b0 == s0) or (s0 == b0) or not (b0 != s0):
            fail = "a node == a node of ANOTHER class that carries the same class name (subclass keeping its parent's name)"
        elif f2 is not None and ((f1 == f2) or (f2 == f1)):
            fail = "a node == a node of ANOTHER class with the same qualified name (class factory called twice)"
        elif not (b0 == _ShadeBase(v=v)) or not (s0 == Shade(v=v)):
            fail = "== is False within one class"
        yield Case("directed:same-name-classes", None, None, True, f"Shade(v={v}) vs same-named subclass; class factory twins",
                   oracle_fail=fail, sig="eq|directed|same-name-classes")
        del first, second, f1, f2


def deep_chain_cases(rng):
    """trees nested deeper than the interpreter's recursion limit (built bottom-up): `==` / `!=` / `hash` still give their
    verdict (the comparison walks both trees with the library's iterative traversal)"""
    import sys
    depth = sys.getrecursionlimit() * 2 + rng.randint(0, 100)
    o1, o2 = zoo.gen_origin(rng), zoo.gen_origin(rng)
    while type(o1) is type(o2) and zoo.struct_eq(o1, o2):
        o2 = zoo.gen_origin(rng)

    def chain(leaf_origin):
        n = zoo.Leaf(v=1, origin=leaf_origin)
        for i in range(depth):
            n = zoo.Un(n) if i % 3 else zoo.Opt(n)
        return n
    a, twin, other = chain(o1), chain(o1), chain(o2)
    fail = None
    try:
        if not (a == twin) or (a != twin) or not (twin == a):
            fail = "two deep chains with equal content and origins are not =="
        elif (a == other) or not (a != other) or (other == a):
            fail = "two deep chains whose deepest origins differ are =="
        elif not (a == a) or hash(a) != hash(a):
            fail = "== is not reflexive / hash is not constant on a deep chain"
    except Exception as e:  # noqa
        fail = f"comparison of chains of depth {depth} raised {type(e).__name__}"
    yield Case("directed:deep-chain", None, None, True, f"three Un/Opt chains of depth {depth} over Leaf(v=1)", oracle_fail=fail,
               sig="eq|directed|deep-chain")


def cases(rng: random.Random, tier: str):
    yield from deep_chain_cases(rng)
    yield from directed_cases(rng, 10 if tier == "quick" else 150)
    n = 250 if tier == "quick" else 6000
    for _ in range(n):
        g = zoo.Gen(rng, origins=True)
        a = g.tree(rng.choice([1, 2, 4, 8, 16, 30]))
        sa = zoo.to_spec(a)
        sb = fresh_keys(sa, 10**4)
        k = rng.random()
        kind = "twin"
        if k < 0.14:
            # the same origins at other positions: move an origin to the next position (in pre-order) that has none,
            # with only origin-less positions in between — the sequence of non-empty origins stays the same
            pos = [(p, x) for p, x in zoo.spec_positions(sb) if len(p) >= 1]
            cands = []
            for i, (p1, s1) in enumerate(pos):
                if s1[4] is zoo.NO_ORIGIN:
                    continue
                for j in range(i + 1, len(pos)):
                    if pos[j][1][4] is zoo.NO_ORIGIN:
                        cands.append((i, j))
                        if rng.random() < 0.5:
                            break
                    else:
                        break
            if cands:
                i, j = rng.choice(cands)
                (p1, s1), (p2, s2) = pos[i], pos[j]
                # replace the deeper path first so that the other path stays valid
                for pth, sp, org in sorted([(p1, s1, s2[4]), (p2, s2, s1[4])], key=lambda e: -len(e[0])):
                    cur = sb
                    for step in pth:
                        cur = cur[3][step[0]] if step[1] is None else cur[3][step[0]][step[1]]
                    sb = zoo.spec_replace(sb, pth, cur[:4] + (org,) + cur[5:])
                kind = "origin-moved"
        elif k < 0.55:
            sb, depth = change_origin_at(rng, sb)
            kind = f"origin@depth{min(depth, 4)}"
        elif k < 0.8:
            try:
                sb, mk = mutate(rng, sb)
                kind = "content:" + mk.split(":")[0]
            except Exception:
                pass
        try:
            b = zoo.build(sb)
        except Exception:
            continue
        want = zoo.spec_content_eq(sa, sb) and origins_agree(sa, sb)
        toks, orgs = zoo.Tokens(), zoo.OrgTable()
        ta, tb = zoo.enc_tree(a, toks, orgs), zoo.enc_tree(b, toks, orgs)
        env = [zoo.class_table(), orgs.sexp()]
        desc = f"a={zoo.show(a)} b={zoo.show(b)} kind={kind}"
        h0 = hash(a)
        try:
            ab, ba = (a == b), (b == a)
            nab = (a != b)
            real = dumps([A("ok"), ab, ba])
            oracle = None
            if ab != want:
                oracle = f"a == b is {ab}, statement says {want}"
            elif ba != ab:
                oracle = "== is not symmetric"
            elif nab == ab:
                oracle = "!= is not the negation of =="
            elif not (a == a) or (a != a):
                oracle = "== is not reflexive"
            elif (a == 5) or (a == None) or (a == "x") or not (a != 5):  # noqa: E711
                oracle = "comparison with a non-node is not False"
            elif (a == _AGREEABLE) or not (a != _AGREEABLE) or (a == _Handle(a.id)) or not (a != _Handle(a.id)):
                # a non-node whose own __eq__ would say yes (a handle comparing by id, unittest.mock.ANY):
                # "comparing with a non-node is False" — the node decides, it does not defer to the other operand
                oracle = "comparison with a non-node (that has a permissive __eq__) is not False"
            elif hash(a) != h0 or hash(a) != hash(a):
                oracle = "hash changed"
        except Exception as e:  # noqa
            real = dumps([A("raise"), A(type(e).__name__)])
            oracle = f"== raised {type(e).__name__}"
        yield Case("pair:" + kind.split("@")[0].split(":")[0], dumps([A("node-eq")] + env + [[A("tree"), ta], [A("tree2"), tb]]),
                   real, zoo.size(a) >= 3, desc, oracle_fail=oracle, sig=f"eq|{kind.split('@')[0].split(':')[0]}|want={want}")
        # histories: comparisons must not depend on earlier comparisons, on replace() keeping an id, or on
        # ids being re-used by later nodes after garbage collection
        if rng.random() < 0.5 and zoo.size(a) >= 3:
            import gc
            try:
                s1 = fresh_keys(sa, 3 * 10**4)
                x = zoo.build(s1)
                _warm = (a == x), (x == a)
                # (A) rebuild the twin with one deep origin changed, after the first twin died
                s2, depth = change_origin_at(rng, fresh_keys(sa, 4 * 10**4), min_depth=2)
                want2 = origins_agree(sa, s2)
                del x
                gc.collect()
                y = zoo.build(s2)
                bad = ((a == y) != want2) or ((y == a) != want2) or ((a != y) == want2)
                yield Case("history:rebuild", None, None, True, desc + f" then twin rebuilt with an origin changed at depth {depth}",
                           oracle_fail="== after an earlier comparison of an equal pair (ids re-used) is wrong" if bad else None,
                           sig="eq|history|rebuild")
                # (B) replace() a child by a content-equal one whose descendant has another origin: ids may be kept
                kl = [(nm, coll, ns) for nm, coll, ns in zoo.kid_lists(a) if ns]
                if kl:
                    nm, coll, ns = rng.choice(kl)
                    i = rng.randrange(len(ns))
                    cs = zoo.to_spec(ns[i])
                    cs2, d2 = change_origin_at(rng, fresh_keys(cs, 5 * 10**4), min_depth=1)
                    want3 = origins_agree(cs, cs2)
                    c2 = zoo.build(cs2)
                    new = tuple(ns[:i]) + (c2,) + tuple(ns[i + 1:]) if coll else c2
                    twin = zoo.build(fresh_keys(sa, 6 * 10**4))
                    _warm = (a == twin)
                    a2 = a.replace(**{nm: new})
                    bad = ((a2 == twin) != want3) or ((twin == a2) != want3)
                    yield Case("history:replace", None, None, True, desc + f" then a.replace({nm}=<content-equal child, origin changed at depth {d2}>)",
                               oracle_fail="== after replace() kept the id of a compared node is wrong" if bad else None,
                               sig="eq|history|replace")
                    del a2, twin, c2
            except Exception as e:  # noqa
                yield Case("history", None, None, False, desc, oracle_fail=f"history scenario raised {type(e).__name__}: {e}",
                           sig="eq|history|raised")
        # hash(node) is constant for the node's lifetime, also across a replace() rejected after registration
        if rng.random() < 0.1:
            x = zoo.PickyLate(v=rng.randint(0, 3), note=rng.choice(["", "n"]))
            h0, bag = hash(x), {x: 1}
            try:
                x.replace(note="bad")
            except RuntimeError:
                pass
            bad = hash(x) != h0 or x not in bag
            yield Case("hash-after-rejected-replace", None, None, True, f"PickyLate(v={x.v}).replace(note='bad') raises",
                       oracle_fail="hash(node) changed / node no longer found in a dict" if bad else None,
                       sig="eq|hash|rejected-replace")
            del x, bag
        # transitivity on a triple
        sc = fresh_keys(sa, 2 * 10**4)
        if rng.random() < 0.4:
            sc, _ = change_origin_at(rng, sc)
        try:
            c = zoo.build(sc)
            bad = (a == b) and (b == c) and not (a == c)
            bad2 = (a == c) and (c == b) and not (a == b)
            yield Case("triple", None, None, zoo.size(a) >= 3, desc + f" c={zoo.show(c)}",
                       oracle_fail="== is not transitive" if (bad or bad2) else None, sig="eq|transitivity")
        except Exception:
            pass
