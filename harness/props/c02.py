"""C02 — `==` is content equality plus origin equality at every position.
K1: real a == b, b == a, a != b vs. the model's eqImpl; oracle: the statement evaluated on the
specs by the harness; reflexivity / symmetry / transitivity / != / non-node / hash constancy
checked on the real objects."""
from __future__ import annotations

import random

from proto import A, dumps
from run import Case
import zoo
from props.c01 import mutate, fresh_keys

PROPERTY = "C02"
LEAN_MODULE = "PyOak.Props.C02"
THEOREMS = ["PyOak.C02." + t for t in ["eq_total", "eq_iff", "eq_refl", "eq_symm", "eq_trans", "ne_eq_not",
                                       "eq_other_class", "aligned", "keys_agree"]]
RULE = ("pairs/triples of zoo trees: copies whose origin differs at exactly one position (root, child, grandchild, "
        "deeper; inside tuples and single fields; no-origin, code, generated and multi origins), content mutants, "
        "content-equal twins; non-trivial = tree >= 3 nodes; distinct by both descriptions")
TRUSTED = ["origin equality is dataclass equality of the origin objects (keys assigned by the harness via ==)",
           "blake2b idealised as injective"]
ASSUMPTIONS = []
BUDGET = {"quick": 240, "thorough": 2400}


def change_origin_at(rng, spec):
    pos = list(zoo.spec_positions(spec))
    path, s = rng.choice(pos)
    _, c, p, k, o, key = s
    for _ in range(10):
        no = zoo.gen_origin(rng)
        if not (type(no) is type(o) and no == o):
            break
    return zoo.spec_replace(spec, path, ("node", c, p, k, no, key)), len(path)


def origins_agree(a, b, ma=None, mb=None) -> bool:
    ma = {} if ma is None else ma
    mb = {} if mb is None else mb
    def res(s, m):
        if s[0] == "ref":
            return m[s[1]]
        m[s[5]] = s
        return s
    a, b = res(a, ma), res(b, mb)
    if not (type(a[4]) is type(b[4]) and a[4] == b[4]):
        return False
    for name, x in a[3].items():
        y = b[3].get(name)
        if isinstance(x, list):
            if not isinstance(y, list) or len(x) != len(y) or not all(origins_agree(c, d, ma, mb) for c, d in zip(x, y)):
                return False
        elif x is not None:
            if y is None or isinstance(y, list) or not origins_agree(x, y, ma, mb):
                return False
    return True


def cases(rng: random.Random, tier: str):
    n = 250 if tier == "quick" else 6000
    for _ in range(n):
        g = zoo.Gen(rng, origins=True)
        a = g.tree(rng.choice([1, 2, 4, 8, 16, 30]))
        sa = zoo.to_spec(a)
        sb = fresh_keys(sa, 10**4)
        k = rng.random()
        kind = "twin"
        if k < 0.55:
            sb, depth = change_origin_at(rng, sb)
            kind = f"origin@depth{min(depth, 4)}"
        elif k < 0.8:
            try:
                sb, mk = mutate(rng, sb)
                kind = "content:" + mk.split(":")[0]
            except Exception:
                pass
        try:
            b = zoo.build(sb)
        except Exception:
            continue
        want = zoo.spec_content_eq(sa, sb) and origins_agree(sa, sb)
        toks, orgs = zoo.Tokens(), zoo.OrgTable()
        ta, tb = zoo.enc_tree(a, toks, orgs), zoo.enc_tree(b, toks, orgs)
        env = [zoo.class_table(), orgs.sexp()]
        desc = f"a={zoo.show(a)} b={zoo.show(b)} kind={kind}"
        h0 = hash(a)
        try:
            ab, ba = (a == b), (b == a)
            nab = (a != b)
            real = dumps([A("ok"), ab, ba])
            oracle = None
            if ab != want:
                oracle = f"a == b is {ab}, statement says {want}"
            elif ba != ab:
                oracle = "== is not symmetric"
            elif nab == ab:
                oracle = "!= is not the negation of =="
            elif not (a == a) or (a != a):
                oracle = "== is not reflexive"
            elif (a == 5) or (a == None) or (a == "x") or not (a != 5):  # noqa: E711
                oracle = "comparison with a non-node is not False"
            elif hash(a) != h0 or hash(a) != hash(a):
                oracle = "hash changed"
        except Exception as e:  # noqa
            real = dumps([A("raise"), A(type(e).__name__)])
            oracle = f"== raised {type(e).__name__}"
        yield Case("pair:" + kind.split("@")[0].split(":")[0], dumps([A("node-eq")] + env + [[A("tree"), ta], [A("tree2"), tb]]),
                   real, zoo.size(a) >= 3, desc, oracle_fail=oracle, sig=f"eq|{kind.split('@')[0].split(':')[0]}|want={want}")
        # transitivity on a triple
        sc = fresh_keys(sa, 2 * 10**4)
        if rng.random() < 0.4:
            sc, _ = change_origin_at(rng, sc)
        try:
            c = zoo.build(sc)
            bad = (a == b) and (b == c) and not (a == c)
            bad2 = (a == c) and (c == b) and not (a == b)
            yield Case("triple", None, None, zoo.size(a) >= 3, desc + f" c={zoo.show(c)}",
                       oracle_fail="== is not transitive" if (bad or bad2) else None, sig="eq|transitivity")
        except Exception:
            pass
