"""C13 — runtime type checking accepts exactly the well-typed constructions.

K1 (a): `pyoak.typing.is_instance(value, annotation)` on an (annotation, value) matrix vs. the Lean
model `isInstance` (Props/C13.lean proves it equal to the conformance relation of the statement
outside the listed don't-care points).
K1 (b): constructions of generated node classes mixing conforming and non-conforming fields, with
`config.RUNTIME_TYPE_CHECK` on and off: success / `InvalidTypes.invalid_fields` (as a sorted list of
names) vs. the model's `construct`; in-process oracle: the node built with the switch off is the
same as the one built with it on.  The generated classes carry every dataclass flag combination
(init / init=False + default, compare / compare=False, positional / kw_only, defaults used or
overridden); a quarter of them come as pairs of SAME-NAMED classes with unrelated annotations that
are constructed alternately (so nothing may be remembered per class name), and the Field objects
in `invalid_fields` must be the very objects of `dataclasses.fields(cls)`."""
from __future__ import annotations

import dataclasses
import itertools
import random

import pyoak.config as pconfig
from pyoak.error import InvalidTypes
from pyoak.node import ASTNode
from pyoak.origin import NO_ORIGIN
from pyoak.typing import is_instance

from proto import A, dumps
from run import Case
import zoo
import zoo_c13 as z

PROPERTY = "C13"
LEAN_MODULE = "PyOak.Props.C13All"
THEOREMS = ["PyOak.C13." + t for t in [
    "isInstance_eq_conforms", "isInstance_iff_conforms", "isInstance_union", "bool_conforms_bool_not_int",
    "int_conforms_float", "isInstance_newtype", "isInstance_tupleFix", "isInstance_tupleVar", "isInstance_none",
    "invalid_fields_exact", "construct_on", "construct_on_error_nonempty", "construct_off", "construct_same",
    "id_fields_never_invalid"]]
# additions (AUDIT item #8): the sound half without any don't-care hypothesis
THEOREMS += ["PyOak.C13." + t for t in [
    "conforms_imp", "conformsAny_imp", "conformsZip_imp", "construct_ok_of_conforms", "checkRuntimeTypes_sublist",
    "checkRuntimeTypes_subset", "construct_error_sound", "construct_error_witness", "invalid_fields_exact_checked",
    "construct_on_checked", "field_reported_iff", "isInstance_lit", "conforms_lit", "lit_exact"]]
RULE = ("(annotation, value) pairs: annotations drawn from the accepted grammar (scalars, Any, None, Literal, Enum, "
        "NewType at any depth, Union/Optional/| spellings, fixed/variadic/empty/bare tuples, frozenset, Sequence, "
        "Mapping, node and origin classes; typing and builtin spellings; depth <= 3), values = for each annotation two "
        "values built to conform, their one-point damages (bool<->int, int->float/str/None, length +-1, rotated, "
        "tuple<->list, wrong class / enum, damaged element at a random depth) and random pool values (both booleans, "
        "0/1, floats incl. integral ones, strings, bytes, None, members of two enums sharing a member name, nodes of "
        "every zoo class, origins, tuples/lists/frozensets/dicts of these); thorough additionally enumerates all "
        "annotations of depth <= 2 over 8 atoms x a fixed value pool; constructions: generated node classes "
        "(1-6 own fields, child and property fields, every dataclass flag combination: init / init=False with default, "
        "compare / compare=False, positional / kw_only with or without default, defaults used or overridden, optional "
        "inheritance; a quarter of them as PAIRS of same-named classes with unrelated annotations, constructed "
        "alternately in both orders) with every field independently conforming or damaged, switch on and off; the "
        "Field objects of InvalidTypes.invalid_fields must be the very objects of dataclasses.fields(cls); non-trivial = annotation of depth >= 1 or a "
        "container value (matrix), >= 2 fields (constructions); distinct by request line")
TRUSTED = ["CPython isinstance() per (value kind, plain class), iteration of str/bytes, == between bool/int/float, "
           "typing.get_origin/get_args normal forms (Union flattening, Literal de-duplication) are modelled",
           "classes are identified by name: the names used in annotations are pairwise distinct"]
ASSUMPTIONS = ["don't-care (DESIGN 4.1): a bool offered for float; a Literal member that is == to the value without "
               "being of the same kind (True/1, 1.0/1); type[...] annotations; such pairs are answered (dontcare) by "
               "both sides and only the agreement on the don't-care set itself is compared",
               "values handed to child fields with the switch off are nodes / None / tuples or lists of nodes (anything "
               "else makes the id computation fail, which is not type validation)",
               "NewType over node classes is not generated (classification of such fields belongs to C11)"]
BUDGET = {"quick": 200, "thorough": 1800}


# ------------------------------------------------------------------ matrix

def _obs_isinst(v, ty, ann):
    if z.dont_care(v, ty):
        return dumps([A("dontcare")])
    try:
        r = is_instance(v, ann)
    except Exception:  # the statement names no exception here: the checker must answer
        return dumps([A("raise")])
    if r is True or r is False:
        return dumps([A("ok"), r])
    return dumps([A("ok"), A(f"non-bool:{type(r).__name__}")])


def _matrix_case(v, ty, ann, toks, kind="isinst"):
    line = dumps([A("isinst"), z.enc_val(v, toks), z.enc_ty(ty)])
    real = _obs_isinst(v, ty, ann)
    nontriv = z.ty_depth(ty) >= 1 or z.vkind(v) in ("tuple", "list", "frozenset", "dict")
    return Case(kind, line, real, nontriv, f"is_instance({z.show_val(v)}, {z.show_ty(ty)})",
                sig=f"is_instance|{z.vkind(v)}:{z.shape(ty)}")


def _values_for(vals: z.Values, ty, rng, n_conf=2, n_rand=3):
    out = []
    for _ in range(n_conf):
        c = vals.conforming(ty)
        if c is z.GIVE_UP:
            continue
        out.append(c)
        out.append(vals.near_miss(c))
        if rng.random() < 0.5:
            out.append(vals.near_miss(vals.near_miss(c)))
    for _ in range(n_rand):
        out.append(vals.any_value(2))
    out.append(vals.atom())
    return out


def _matrix_random(rng, n_types):
    vals = z.Values(rng)
    toks = z.ObjTokens()
    for _ in range(n_types):
        ty = z.gen_ty(rng, rng.choice([0, 1, 1, 2, 2, 3]))
        while ty[0] == "nt":       # pyoak unwraps a top-level NewType before it calls is_instance (see constructions)
            ty = ty[2]
        ann = z.render(ty)
        for v in _values_for(vals, ty, rng):
            yield _matrix_case(v, ty, ann, toks)


EXH_ATOMS = [("int",), ("float",), ("bool",), ("str",), ("none",), ("any",), ("lit", (1, "a")), ("cls", "Leaf")]


def _exh_types():
    atoms = EXH_ATOMS

    def level(prev_nonatom, allprev):
        out = []
        for t in prev_nonatom:
            out += [("tv", t, True), ("fset", t, True), ("seq", t, True), ("nt", f"NTx{next(z._nt_counter)}", t)]
        return out

    d1 = []
    for t in atoms:
        d1 += [("tv", t, True), ("fset", t, True), ("seq", t, True), ("nt", f"NTx{next(z._nt_counter)}", t)]
    for a, b in itertools.combinations(atoms, 2):
        d1.append(("u", (a, b), "bar"))
    d1.append(("tf", (), True))
    for a in atoms:
        d1.append(("tf", (a,), True))
    for a in atoms:
        for b in atoms:
            d1.append(("tf", (a, b), True))
    for k in (("str",), ("int",)):
        for v in atoms:
            d1.append(("map", k, v, True))
    d2 = level(d1, None)
    for a in atoms:
        for t in d1:
            d2.append(("u", (a, t), "union"))
            d2.append(("tf", (a, t), True))
            d2.append(("tf", (t, a), False))
    for t in d1:
        d2.append(("map", ("str",), t, False))
    return [t for t in atoms + d1 + d2 if t[0] != "nt"]   # top-level NewType: see constructions


def _exh_values(vals: z.Values):
    leaf = vals.nodes[zoo.Leaf]
    bin_ = vals.nodes[zoo.Bin]
    base = [True, False, 0, 1, 2, 1.5, "a", "", None, leaf, bin_, z.Color.RED]
    small = [False, 1, "a", None, leaf]
    out = list(base) + [b"a"]
    out += [(), []] + [(a,) for a in small] + [[a] for a in small]
    out += [(a, b) for a in small for b in small] + [[a, b] for a in small[:3] for b in small[:3]]
    out += [(1, "a", 1), ((1,),), ((1,), 1), (1, (1, "a")), ([1],), (frozenset([1]),), ({"a": 1},)]
    out += [frozenset(), frozenset([1]), frozenset(["a"]), frozenset([False]), frozenset([1, "a"]), frozenset([(1,)]),
            frozenset([None, leaf])]
    out += [{}, {"a": 1}, {"a": "a"}, {1: 1}, {"a": False}, {"a": None}, {"a": (1,)}, {"a": [1]}, {"a": 1, "b": "a"},
            {"a": {"a": 1}}, {"a": frozenset([1])}, {"a": leaf}]
    return out


def _matrix_exhaustive(rng):
    vals = z.Values(rng)
    toks = z.ObjTokens()
    values = _exh_values(vals)
    encs = [z.enc_val(v, toks) for v in values]
    for ty in _exh_types():
        ann = z.render(ty)
        ety = z.enc_ty(ty)
        sty = z.show_ty(ty)
        shp = z.shape(ty)
        deep = z.ty_depth(ty) >= 1
        for v, ev in zip(values, encs):
            line = dumps([A("isinst"), ev, ety])
            yield Case("isinst-exh", line, _obs_isinst(v, ty, ann), deep,
                       f"is_instance({z.show_val(v)}, {sty})", sig=f"is_instance|{z.vkind(v)}:{shp}")


# ------------------------------------------------------------------ constructions

def _safe_child_value(v, ty) -> bool:
    """with the switch off the rest of __post_init__ must be able to walk the child fields: a single child
    field holds a node or None, a tuple child field an iterable of nodes"""
    if ty[0] in ("tv", "tf"):
        return type(v) in (tuple, list) and all(isinstance(x, ASTNode) for x in v)
    return v is None or isinstance(v, ASTNode)


def _gen_field_value(vals, ty, rng, child: bool, want_ok: bool):
    for _ in range(8):
        c = vals.conforming(ty)
        if c is z.GIVE_UP:
            c = None
        v = c if want_ok else (vals.near_miss(c) if rng.random() < 0.8 else vals.any_value(1))
        if z.dont_care(v, ty):
            continue
        if child and not _safe_child_value(v, ty):
            continue
        return v
    return () if child and ty[0] in ("tv", "tf") else None


def _build(cls, args, kwargs, gate: bool):
    old = pconfig.RUNTIME_TYPE_CHECK
    pconfig.RUNTIME_TYPE_CHECK = gate
    try:
        try:
            return cls(*args, **kwargs), dumps([A("ok")])
        except InvalidTypes as e:
            names = sorted(f.name for f in e.invalid_fields)
            # the reported fields are fields *of the class being built* (the very Field objects of
            # dataclasses.fields(cls)), each at most once
            own = {f.name: f for f in dataclasses.fields(cls)}
            foreign = sorted({f.name for f in e.invalid_fields if own.get(f.name) is not f})
            if foreign:
                return None, dumps([A("raise"), A("InvalidTypes"), [A("not-fields-of-the-class")] + foreign] + names)
            return None, dumps([A("raise"), A("InvalidTypes")] + names)
        except Exception as e:  # noqa
            return None, dumps([A("raise"), A("other:" + type(e).__name__)])
    finally:
        pconfig.RUNTIME_TYPE_CHECK = old


def _same_node(a, b) -> str | None:
    if type(a) is not type(b):
        return "classes differ"
    if a.content_id != b.content_id:
        return "content_id differs"
    for f in dataclasses.fields(a):
        if f.name in ("id", "content_id"):
            continue
        x, y = object.__getattribute__(a, f.name), object.__getattribute__(b, f.name)
        if x is not y:
            return f"field {f.name} holds another object"
    return None


STATS = {"classes": 0, "class_definitions_refused": 0, "refusal_kinds": {}, "same_named_pairs": 0,
         "fields_by_flags": {}}


def extra_coverage():
    return {"constructions": STATS}


class _Plan:
    """a generated node class (optionally with a generated base class) as the harness knows it"""

    def __init__(self, cls, fields):
        self.cls = cls
        self.fields = fields      # dicts: name ty init child compare kw_only has_default default


def _flags_text(f) -> str:
    fl = [k for k, on in (("init=False", not f["init"]), ("compare=False", not f["compare"]),
                          ("kw_only", f["kw_only"]), ("default", f["init"] and f["has_default"])) if on]
    return f" [{', '.join(fl)}]" if fl else ""


def _gen_plan(rng, vals, names):
    """names: class names, base first.  Every flag combination of a dataclass field occurs: init / init=False with
    a default, compare / compare=False, positional / kw_only (with or without default)."""
    fid = itertools.count()
    p_ok = rng.choice([1.0, 0.8, 0.6, 0.3])
    cls = ASTNode
    fields = []
    for cname in names:
        lv = []
        for _k in range(rng.randint(1, 4) if len(names) == 1 else rng.randint(1, 3)):
            child = rng.random() < 0.35
            ty = z.gen_child_ty(rng) if child else z.gen_ty(rng, rng.choice([0, 1, 1, 2]), nodes=False, origin=False)
            if not child and rng.random() < 0.15:
                ty = ("nt", f"NTf{next(z._nt_counter)}", ty)      # top-level NewType (unwrapped by pyoak)
            f = {"name": f"f{next(fid)}", "ty": ty, "child": child,
                 "init": rng.random() < (0.85 if child else 0.7),
                 "compare": rng.random() < (0.8 if child else 0.55),
                 "kw_only": rng.random() < 0.35, "has_default": False, "default": None}
            if not f["init"]:
                f["kw_only"] = False
                f["has_default"] = True
            elif f["kw_only"] and rng.random() < 0.5:
                f["has_default"] = True
            if f["has_default"]:
                v = _gen_field_value(vals, ty, rng, child, rng.random() < p_ok)
                if not z._hashable(v):          # dataclasses refuse list / dict / set defaults
                    v = _gen_field_value(vals, ty, rng, child, True)
                    if not z._hashable(v):
                        v = () if child and ty[0] in ("tv", "tf") else None
                f["default"] = v
            lv.append(f)
        # positional required fields first (dataclass rule), the rest keeps its order
        lv.sort(key=lambda f: 0 if (f["init"] and not f["kw_only"]) else 1)
        try:
            cls = z.make_node_class_flags(cname, [(f["name"], z.render(f["ty"]), f["init"], f["compare"], f["kw_only"],
                                                   f["has_default"], f["default"]) for f in lv], base=cls)
        except Exception as e:  # noqa  (class definition is not the subject of C13)
            STATS["class_definitions_refused"] += 1
            STATS["refusal_kinds"][type(e).__name__] = STATS["refusal_kinds"].get(type(e).__name__, 0) + 1
            return None
        STATS["classes"] += 1
        fields += lv
    return _Plan(cls, fields), p_ok


def _construct_cases(rng, vals, toks, plan, p_ok, note=""):
    """one construction of the planned class with fresh values, switch on and off"""
    cls = plan.cls
    values, args, kwargs = {}, [], {}
    positional = rng.random() < 0.3
    for f in plan.fields:
        if not f["init"]:
            values[f["name"]] = f["default"]
            continue
        if f["has_default"] and rng.random() < 0.5:
            values[f["name"]] = f["default"]       # left to the default
            continue
        v = _gen_field_value(vals, f["ty"], rng, f["child"], rng.random() < p_ok)
        values[f["name"]] = v
        if positional and not f["kw_only"] and len(args) == len([g for g in plan.fields[:plan.fields.index(f)]
                                                                if g["init"] and not g["kw_only"]]):
            args.append(v)
        else:
            kwargs[f["name"]] = v
    bad_origin = rng.random() < 0.06
    org = 5 if bad_origin else rng.choice([NO_ORIGIN, z.CODE_ORIGIN])
    kwargs["origin"] = org
    fields_sx = [["id", A("str"), [A("s"), ""]], ["content_id", A("str"), [A("s"), ""]],
                 ["origin", [A("cls"), "Origin"], z.enc_val(org, toks)]]
    dc = False
    for f in plan.fields:
        fields_sx.append([f["name"], z.enc_ty(f["ty"]), z.enc_val(values[f["name"]], toks)])
        key = _flags_text(f).strip() or "[plain]"
        STATS["fields_by_flags"][key] = STATS["fields_by_flags"].get(key, 0) + 1
        dc = dc or z.dont_care(values[f["name"]], f["ty"])
    desc = (note + f"class {cls.__name__}(" + "; ".join(
        f"{f['name']}: {z.show_ty(f['ty'])}{_flags_text(f)} = {z.show_val(values[f['name']])}"
        for f in plan.fields) + f"; origin = {z.show_val(org)})" + (f" positional={len(args)}" if args else ""))
    nontriv = len(plan.fields) >= 2
    node_on, real_on = _build(cls, args, kwargs, True)
    if dc:
        real_on = dumps([A("dontcare")])
    yield Case("construct-on", dumps([A("construct"), True, [A("fields")] + fields_sx]), real_on, nontriv,
               "RUNTIME_TYPE_CHECK=True " + desc, sig="construct|on")
    if bad_origin:
        return          # without validation a non-origin makes the id computation fail: not type validation
    node_off, real_off = _build(cls, args, kwargs, False)
    yield Case("construct-off", dumps([A("construct"), False, [A("fields")] + fields_sx]), real_off, nontriv,
               "RUNTIME_TYPE_CHECK=False " + desc, sig="construct|off")
    if node_on is not None and node_off is not None:
        yield Case("construct-same", None, None, nontriv, desc, oracle_fail=_same_node(node_on, node_off),
                   sig="construct|same-node")


def _constructions(rng, n):
    vals = z.Values(rng)
    toks = z.ObjTokens()
    for _ in range(n):
        k = next(z._cls_counter)
        names = [f"C13Gen{k}"] if rng.random() < 0.7 else [f"C13Gen{k}B", f"C13Gen{k}"]
        if rng.random() < 0.75:
            r = _gen_plan(rng, vals, names)
            if r is None:
                continue
            plan, p_ok = r
            for _j in range(rng.choice([1, 1, 2])):
                yield from _construct_cases(rng, vals, toks, plan, p_ok)
            continue
        # two node classes with the SAME names (a class factory called twice in one module: pyoak allows that)
        # and unrelated annotations, constructed alternately in both orders
        r1, r2 = _gen_plan(rng, vals, names), _gen_plan(rng, vals, names)
        if r1 is None or r2 is None:
            continue
        STATS["same_named_pairs"] += 1
        order = [r1, r2, r1, r2] if rng.random() < 0.5 else [r2, r1, r2]
        for i, (plan, p_ok) in enumerate(order):
            tag = "first" if plan is r1[0] else "second"
            yield from _construct_cases(rng, vals, toks, plan, p_ok,
                                        note=f"[{tag} of two same-named classes, construction #{i + 1}] ")
    assert pconfig.RUNTIME_TYPE_CHECK is False


def _history_cases(rng, n):
    """the switch alone decides: with checking enabled an ill-typed construction raises InvalidTypes with exactly the
    non-conforming fields WHATEVER happened before — earlier successful / rejected constructions, serialization round
    trips, deserialization calls that failed part-way (a nested node missing a required key, a corrupt document)"""
    import zoo
    from pyoak.error import InvalidTypes
    old = pconfig.RUNTIME_TYPE_CHECK
    pconfig.RUNTIME_TYPE_CHECK = True
    try:
        kinds = ["failed-as_obj-nested", "failed-as_obj-top", "failed-from_json", "roundtrip", "rejected-construction",
                 "failed-as_obj-twice"]
        for it in range(n):
            good = zoo.Bin(zoo.Leaf(v=1, s="a"), zoo.Un(zoo.Leaf(v=2)))
            before = kinds[it % len(kinds)]
            try:
                d = good.as_dict()
                good.detach()
                if before.startswith("failed-as_obj-nested") or before == "failed-as_obj-twice":
                    del d["right"]["arg"]["id"]
                    for _k in range(2 if before == "failed-as_obj-twice" else 1):
                        try:
                            zoo.Bin.as_obj(d)
                        except Exception:  # noqa
                            pass
                elif before == "failed-as_obj-top":
                    try:
                        zoo.Bin.as_obj({"__type": "Bin", "id": "x", "left": 5})
                    except Exception:  # noqa
                        pass
                elif before == "failed-from_json":
                    try:
                        zoo.Bin.from_json('{"__type": "Bin", "id": "q", "content_id": "q", "origin": {}, "left": {"__type": "Leaf"}}')
                    except Exception:  # noqa
                        pass
                elif before == "roundtrip":
                    zoo.Bin.as_obj(d)
                else:
                    try:
                        zoo.Leaf(v="not an int")
                    except InvalidTypes:
                        pass
            except Exception as e:  # noqa
                yield Case("history", None, None, True, f"prelude {before} raised {type(e).__name__}", oracle_fail=None, sig="construct|history")
                continue
            fail = None
            try:
                zoo.Leaf(v="five", s=7, flag=True)
                fail = "an ill-typed construction (v='five', s=7) succeeded although RUNTIME_TYPE_CHECK is True"
            except InvalidTypes as e:
                got = sorted(f.name for f in e.invalid_fields)
                if got != ["s", "v"]:
                    fail = f"invalid_fields = {got}, expected ['s', 'v']"
            except Exception as e:  # noqa
                fail = f"raised {type(e).__name__} instead of InvalidTypes"
            if fail is None:
                try:
                    zoo.Leaf(v=3, s="ok", flag=False)
                except Exception as e:  # noqa
                    fail = f"a well-typed construction raised {type(e).__name__}"
            yield Case("history", None, None, True, f"after [{before}]: Leaf(v='five', s=7, flag=True) with RUNTIME_TYPE_CHECK=True",
                       oracle_fail=fail, sig="construct|history")
    finally:
        pconfig.RUNTIME_TYPE_CHECK = old


def cases(rng: random.Random, tier: str):
    yield from _history_cases(rng, 12 if tier == "quick" else 200)
    if tier == "quick":
        yield from _matrix_random(rng, 3000)
        yield from _constructions(rng, 1500)
    else:
        yield from _matrix_random(rng, 20000)
        yield from _constructions(rng, 6000)
        yield from _matrix_exhaustive(rng)
