"""C09 — visitor dispatch and transformation: real ASTNode.accept / ASTTransformVisitor vs. the Lean
model (Model/Visitor.lean), which Props/C09.lean proves equal to the bottom-up rewrite
specification (Spec/Visitor.lean) and to satisfy the identity clauses of the statement.

Visitor classes are generated with type() from a rule table (every visit_* method placed at random in
the class body, an ASTVisitor base class, a plain rule mixin before/after the visitor base, attached to the
class after creation, or attached to the instance; methods possibly only for base *node* classes, strict and non-strict).
The output tree is compared structurally with identity tokens: objects that existed before the
call print as `(old token)`, objects created by the call as `(new k …)` (numbered by first
occurrence).  After every call (also when a method raised) every field of every input object
is re-read and compared by identity with the snapshot taken before the call.

Further theorem files (aggregate Props/C09All.lean): Props/C09Rw.lean (model = the independent pure rewrite `Rw` of
Spec/Rewrite.lean up to identities; the protocol handler also compares the two on every request), Props/C09Dispatch.lean
(decision table for the node's OWN class under `Head.ownMro`, checked by the handler on every node; no fuel error;
raise propagates), Props/C09Fresh.lean (created objects have new, pairwise distinct identities; unchanged subtrees with
a semantic hypothesis)."""
from __future__ import annotations

import dataclasses
import random
import sys
import types

from pyoak.node import ASTNode
from pyoak.visitor import ASTTransformVisitor, ASTVisitor

from proto import A, dumps
from run import Case
import zoo
import zoo_c09

sys.setrecursionlimit(20000)

PROPERTY = "C09"
LEAN_MODULE = "PyOak.Props.C09All"
THEOREMS = ["PyOak.C09." + t for t in [
    "dispatch_strict", "dispatch_eq_nearest", "dispatch_nearest", "dispatch_generic", "dispatch_skips_last",
    "transform_eq_spec", "unchanged_identity", "unchanged_tree_returns_itself", "quiet_same",
    "generic_result_same_or_new", "changed_ancestors_new", "counter_mono",
    "removed_dropped_in_order", "anyChanged_of_removed", "removed_single_none", "unchanged_field_kept",
    "input_untouched",
    # Props/C09Rw.lean: the model against the independent pure rewrite Rw (Spec/Rewrite.lean)
    "T_strip", "transform_strip", "transform_strip'", "transform_strip_noReplace", "coh_of_all", "Rw_err",
    "Rw_nodes_removed", "Rw_single_removed", "Ex.T_strip_needs_coh", "Ex.T_strip_needs_fresh",
    # Props/C09Dispatch.lean: own class / decision table, errors, raise clause
    "dispatch_own", "action_own", "dispatch_own_has", "dispatch_own_strict_none", "dispatch_own_base",
    "dispatch_own_generic", "T_err", "transform_no_fuel", "transform_err", "raise_propagates",
    "transform_raise_propagates", "raise_no_result",
    # Props/C09Fresh.lean: created objects are new identities; unchanged subtrees, semantic hypothesis
    "new_uids", "transform_new_uids", "new_ne_input", "replaceBy_in_table", "changed_ancestors_new_rw",
    "unchanged_semantic", "transform_unchanged_semantic", "Ex.unchanged_semantic_fails"]]
RULE = ("seeded zoo trees (single/optional/union/variadic/fixed-tuple child fields, shared objects, falsy nodes, "
        "tuples of length 0-14) x rule tables {class name -> default action + per-object overrides} with actions "
        "generic/keep/rewrite-property/replace-by-node/remove/raise, strict and non-strict, methods for base "
        "classes (Expr, Leaf, ASTNode, object) and own classes, spread over two visitor classes; scenario kinds: "
        "no-op, removal at first/middle/last tuple position, removal in optional and in required single fields, "
        "class-wide rules, a raise placed after earlier changes, random mixes; dispatch cases: every zoo class "
        "(plus deeper subclass chains) x random method-name sets x strict; every visit_* method is placed at random in the class body / an "
        "ASTVisitor base class / a plain rule mixin before or after the visitor base / attached to the class after "
        "creation / attached to the instance (types.MethodType); visitor CLASSES are re-used: one class per "
        "method-name set (pooled across cases), `strict` / rule table per instance, instances with both strictness "
        "values run right after each other on the same tree in both orders (and the first again, for dispatch), "
        "so that results must not depend on what was visited before; 30% of the cases use a fresh class with a "
        "class-level strict; a transform case is non-trivial when "
        "the tree has >= 3 nodes and the rule table is not empty; distinct by request line; exhaustive small scope: "
        "for small trees (2-4 node objects) EVERY assignment of one of the six actions to every node object "
        "(4 trees quick, 120 thorough)")
TRUSTED = ["visit_<Class> methods are modelled as pure functions of the node object they are given (action table)",
           "dataclasses.replace: new object, init fields copied by reference, non-init fields recomputed "
           "(zoo: constant defaults), no type check unless RUNTIME_TYPE_CHECK",
           "object identity of new nodes: the model numbers new objects with a counter, both sides are renumbered "
           "by first occurrence in the output"]
ASSUMPTIONS = ["visit_* attributes are callables (statement's don't-care otherwise)",
               "the exception class is not observed (the statement names none); visitor.py does not wrap exceptions",
               "a removal in a REQUIRED single field yields a node holding None there (no runtime type check): "
               "modelled as the code does it, nothing more is claimed"]
BUDGET = {"quick": 200, "thorough": 1800}


class Boom(Exception):
    pass


_RAISES = [0]
_RAISE_KINDS = (Boom, StopIteration, KeyError, AttributeError, TypeError, LookupError, StopAsyncIteration)


# ------------------------------------------------------------------ actions

GENERIC, KEEP, REMOVE, RAISE = ("generic",), ("keep",), ("remove",), ("raise",)

PROP_VALUES = {
    "v": lambda r: zoo.gen_int(r),
    "s": lambda r: zoo.gen_str(r),
    "flag": lambda r: r.random() < 0.5,
    "tag": lambda r: r.choice(["", "t", "zz"]),
    "n": lambda r: r.randint(0, 5),
    "a": lambda r: zoo.gen_str(r),
    "b": lambda r: zoo.gen_str(r),
    "name": lambda r: zoo.gen_str(r),
    "extra": lambda r: tuple(zoo.gen_str(r) for _ in range(r.randint(0, 2))),
    "cnt": lambda r: r.randint(0, 9),          # init=False: dataclasses.replace raises ValueError
    "hidden": lambda r: r.randint(0, 3),
    "o": lambda r: r.choice([None, 0, 5]),
    "nosuch": lambda r: 1,                      # no such field: TypeError
}


def _flags(name: str, cls: type | None):
    for c in ([cls] if cls is not None else []) + zoo.ALL_CLASSES:
        for f in dataclasses.fields(c):
            if f.name == name:
                return bool(f.compare), bool(f.init)
    return True, True


def enc_act(act, toks: zoo.Tokens):
    if act[0] in ("generic", "keep", "remove", "raise"):
        return A(act[0])
    if act[0] == "rewrite":
        _, name, val, cls = act
        cmp_, init = _flags(name, cls)
        return [A("rewrite"), [name, str(type(val)), zoo.stable_text(val), zoo.enc_val(val), cmp_, init]]
    if act[0] == "replace":
        return [A("replace"), toks.by_id[id(act[1])]]
    raise AssertionError(act)


def show_act(act, toks):
    if act[0] == "rewrite":
        return f"rewrite({act[1]}={act[2]!r})"
    if act[0] == "replace":
        return f"replace(by #{toks.by_id[id(act[1])]}:{zoo.show(act[1])[:60]})"
    return act[0]


def perform(visitor, node, act):
    k = act[0]
    if k == "generic":
        return visitor.generic_visit(node)
    if k == "keep":
        return node
    if k == "remove":
        return None
    if k == "raise":
        # the exception classes cycle: a visitor method may fail with anything, e.g. with the StopIteration of a bare
        # `next(...)`, a KeyError / AttributeError / TypeError of its own lookups -- all of them propagate
        _RAISES[0] += 1
        raise _RAISE_KINDS[_RAISES[0] % len(_RAISE_KINDS)]()
    if k == "replace":
        return act[1]
    if k == "rewrite":
        new = visitor.generic_visit(node)
        return dataclasses.replace(new, **{act[1]: act[2]})
    raise AssertionError(act)


PLACES = ["own", "vbase", "mixin_before", "mixin_after", "class_late", "instance"]


def build_visitor_class(methods: dict, root, shared_ns: dict, rng: random.Random, kw: dict, name: str = "V"):
    """A visitor class whose `visit_*` functions (`methods`: attribute name -> function) live in every place
    `getattr(visitor, name)` can find them: the class body, an ASTVisitor base class, a plain rule MIXIN (not
    an ASTVisitor subclass) before / after the visitor base in the bases list, attached to the class after
    its creation, attached to the instance (bound with types.MethodType; see `instantiate`).  `shared_ns`
    (strict, __init__, generic_visit ...) goes to the visitor base or the class body."""
    ns: dict = {p: {} for p in PLACES}
    places = {}
    for mname, fn in methods.items():
        places[mname] = rng.choice(PLACES)
        ns[places[mname]][mname] = fn
    own, vb = dict(ns["own"]), dict(ns["vbase"])
    for k, v in shared_ns.items():
        (vb if rng.random() < 0.5 else own)[k] = v
    vbase = type(name + "Base", (root,), vb, **kw)
    bases: list = []
    if ns["mixin_before"]:
        bases.append(type("RulesA", (), ns["mixin_before"]))
    bases.append(vbase)
    if ns["mixin_after"]:
        bases.append(type("RulesB", (), ns["mixin_after"]))
    cls = type(name, tuple(bases), own, **kw)
    for mname, fn in ns["class_late"].items():
        setattr(cls, mname, fn)
    cls._c09_instance_methods = dict(ns["instance"])
    cls._c09_places = places
    return cls


def instantiate(cls, *args):
    v = cls(*args)
    for mname, fn in cls._c09_instance_methods.items():
        setattr(v, mname, types.MethodType(fn, v))
    return v


def make_visitor(table: dict, strict: bool, toks: zoo.Tokens, rng: random.Random):
    """table: class name -> (default act, {token: act}).  Methods are placed by `build_visitor_class`."""

    def mk(cname, dflt, per):
        def method(self, node):
            return perform(self, node, per.get(toks.by_id.get(id(node)), dflt))

        method.__name__ = "visit_" + cname
        method.__annotations__ = {"node": cname}
        return method

    methods = {"visit_" + c: mk(c, *table[c]) for c in table}
    shared = {}
    if strict or rng.random() < 0.5:
        shared["strict"] = strict
    kw = {"validate": True} if rng.random() < 0.3 else {}
    return build_visitor_class(methods, ASTTransformVisitor, shared, rng, kw)


# Visitor CLASSES reused across cases: a class is determined by the set of class names it has visit_
# methods for; what a method does (the rule table), the token table and `strict` are per-INSTANCE state
# (`strict` is a plain attribute of ASTVisitor: setting it in __init__ is ordinary use).  Instances of
# one class with different strictness and different rule tables visit different trees in the same
# process, in both orders: the outcome of a visit must not depend on what was visited before
# (process-level caches keyed by visitor class / node class are exposed this way).
_POOL: dict[tuple, type] = {}


def pooled_visitor_class(names, rng: random.Random):
    key = tuple(sorted(names))
    cls = _POOL.get(key)
    if cls is not None:
        return cls

    def mk(cname):
        def method(self, node):
            dflt, per = self._table[cname]
            return perform(self, node, per.get(self._toks.by_id.get(id(node)), dflt))

        method.__name__ = "visit_" + cname
        method.__annotations__ = {"node": cname}
        return method

    def init(self, strict, table, toks):
        self.strict = strict
        self._table = table
        self._toks = toks

    methods = {"visit_" + c: mk(c) for c in key}
    shared = {"__init__": init}
    if rng.random() < 0.3:
        # a class-level default that every instance overrides
        shared["strict"] = rng.random() < 0.5
    kw = {"validate": True} if rng.random() < 0.3 else {}
    cls = build_visitor_class(methods, ASTTransformVisitor, shared, rng, kw, name="P")
    _POOL[key] = cls
    return cls


# ------------------------------------------------------------------ observation

def snapshot(objs):
    return [(o, [(f.name, object.__getattribute__(o, f.name)) for f in dataclasses.fields(o)]) for o in objs]


def snapshot_ok(snap) -> str | None:
    for o, fields in snap:
        for name, val in fields:
            try:
                now = object.__getattribute__(o, name)
            except AttributeError:
                return f"field {name} of {type(o).__name__} disappeared"
            if now is not val:
                return f"field {name} of input object {type(o).__name__} was modified"
    return None


def canon_out(res, toks: zoo.Tokens, orgs: zoo.OrgTable):
    seen: dict[int, int] = {}

    def go(n):
        if not isinstance(n, ASTNode):
            return [A("not-a-node"), type(n).__name__]
        t = toks.by_id.get(id(n))
        if t is not None:
            return [A("old"), t]
        if id(n) in seen:
            return [A("newref"), seen[id(n)]]
        k = len(seen)
        seen[id(n)] = k
        cls = type(n)
        props = [A("p")]
        for f in zoo.prop_fields(cls):
            v = object.__getattribute__(n, f.name)
            props.append([f.name, str(type(v)), zoo.stable_text(v)])
        kids = [A("k")]
        for name, coll in zoo.CHILD_FIELDS[cls]:
            v = object.__getattribute__(n, name)
            if coll:
                flag = True if type(v) is tuple else A(type(v).__name__)
                kids.append([name, flag] + [go(c) for c in v])
            else:
                kids.append([name, False] + ([] if v is None else [go(v)]))
        return [A("new"), k, cls.__name__, orgs.key(object.__getattribute__(n, "origin")), props, kids]

    return A("none") if res is None else go(res)


# ------------------------------------------------------------------ rule tables

BASE_NAMES = ["Expr", "ASTNode", "object", "DataClassSerializeMixin"]


def _mro_names(n):
    return [k.__name__ for k in type(n).__mro__]


def _rule_class(rng, n, strict):
    m = _mro_names(n)
    if strict:
        return m[0] if rng.random() < 0.85 else rng.choice(m)
    k = rng.random()
    if k < 0.5:
        return m[0]
    if k < 0.9:
        return rng.choice(m[: m.index("ASTNode") + 1])
    return rng.choice(m)


def _rewrite_for(rng, n):
    cls = type(n)
    fs = zoo.prop_fields(cls)
    pool = [f.name for f in fs if f.name in PROP_VALUES and f.init]
    k = rng.random()
    if pool and k < 0.88:
        name = rng.choice(pool)
    elif k < 0.94:
        name = "nosuch"
    else:
        name = "cnt"
    return ("rewrite", name, PROP_VALUES[name](rng), cls)


def _random_act(rng, n, all_nodes, extras):
    k = rng.random()
    if k < 0.30:
        return REMOVE
    if k < 0.55:
        return _rewrite_for(rng, n)
    if k < 0.75:
        q = rng.random()
        if q < 0.6 and extras:
            return ("replace", rng.choice(extras))
        if q < 0.7:
            return ("replace", n)  # by itself: no change
        return ("replace", rng.choice(all_nodes))
    if k < 0.85:
        return KEEP
    if k < 0.90:
        return RAISE
    return GENERIC


def _add(table, cname, tok, act):
    if cname not in table:
        table[cname] = (GENERIC, {})
    table[cname][1][tok] = act


def gen_case(rng: random.Random, tier: str):
    budget = rng.choice([1, 2, 3, 5, 8, 12, 20, 40] if tier == "quick" else [1, 2, 3, 5, 8, 12, 20, 40, 120, 300])
    g = zoo.Gen(rng, origins=rng.random() < 0.3)
    root = g.tree(budget)
    # replacement nodes: small fresh trees
    g2 = zoo.Gen(rng, origins=False)
    extras = [g2.tree(rng.choice([1, 1, 2, 4])) for _ in range(rng.randint(0, 3))]
    toks = zoo.Tokens()
    orgs = zoo.OrgTable()
    seen: set = set()
    tree_sx = zoo.enc_tree(root, toks, orgs, seen)
    extras_sx = [zoo.enc_tree(e, toks, orgs, seen) for e in extras]
    ctr = len(toks.objs)
    pos = list(zoo.positions(root))
    all_nodes = [root] + [p[0] for p in pos]
    strict = rng.random() < 0.4
    table: dict = {}
    scen = rng.choice(["noop", "random", "random", "random", "remove_tuple", "remove_tuple", "remove_single",
                       "classwide", "raise_late", "deep_change"])

    def tok(n):
        return toks.by_id[id(n)]

    if scen == "noop":
        for c in rng.sample(["Leaf", "Expr", "Bin", "Tup", "ASTNode", "object"], rng.randint(0, 3)):
            table[c] = (GENERIC, {})
        if all_nodes and rng.random() < 0.5:
            n = rng.choice(all_nodes)
            _add(table, _rule_class(rng, n, strict), tok(n), rng.choice([KEEP, GENERIC, ("replace", n)]))
    elif scen == "remove_tuple":
        tups = {}
        for c, p, f, i in pos:
            if i is not None:
                tups.setdefault((id(p), f), []).append((c, i))
        if tups:
            elems = tups[rng.choice(list(tups))]
            where = rng.choice(["first", "middle", "last", "all", "two"])
            if where == "first":
                victims = [elems[0][0]]
            elif where == "last":
                victims = [elems[-1][0]]
            elif where == "middle":
                victims = [elems[len(elems) // 2][0]]
            elif where == "all":
                victims = [e[0] for e in elems]
            else:
                victims = [e[0] for e in rng.sample(elems, min(2, len(elems)))]
            scen += "_" + where
            for vv in victims:
                _add(table, _mro_names(vv)[0] if rng.random() < 0.7 else _rule_class(rng, vv, strict), tok(vv), REMOVE)
        else:
            scen = "random"
    elif scen == "remove_single":
        singles = [(c, p, f) for c, p, f, i in pos if i is None]
        if singles:
            c, p, f = rng.choice(singles)
            required = f in ("arg", "left", "right", "z")
            scen += "_required" if required else "_optional"
            _add(table, _mro_names(c)[0] if rng.random() < 0.7 else _rule_class(rng, c, strict), tok(c), REMOVE)
        else:
            scen = "random"
    elif scen == "classwide":
        for c in rng.sample(["Leaf", "Leaf2", "Expr", "Bin", "Tup", "Un", "Falsy", "FalsyKid", "ASTNode", "object",
                             "Mixed", "Opt", "Names", "PropZoo", "Two"], rng.randint(1, 4)):
            k = rng.random()
            if k < 0.3:
                act = REMOVE
            elif k < 0.5:
                act = KEEP
            elif k < 0.7:
                name = rng.choice(["v", "s", "flag", "tag", "n", "name"])
                act = ("rewrite", name, PROP_VALUES[name](rng), None)
            elif k < 0.85 and extras:
                act = ("replace", rng.choice(extras))
            elif k < 0.9:
                act = RAISE
            else:
                act = GENERIC
            table[c] = (act, {})
    elif scen == "deep_change":
        # one change at a deepest position: every ancestor must be new, everything else the same object
        if pos:
            depth = {id(root): 0}
            best = None
            for c, p, f, i in pos:
                depth[id(c)] = depth.get(id(p), 0) + 1
                if best is None or depth[id(c)] >= depth[id(best)]:
                    best = c
            _add(table, _mro_names(best)[0], tok(best), rng.choice([REMOVE, _rewrite_for(rng, best)] +
                                                                  ([("replace", extras[0])] if extras else [])))
        else:
            scen = "random"
    if scen in ("random", "raise_late"):
        for _ in range(rng.choice([1, 1, 2, 3, 5])):
            n = rng.choice(all_nodes[1:]) if len(all_nodes) > 1 and rng.random() < 0.85 else rng.choice(all_nodes)
            _add(table, _rule_class(rng, n, strict), tok(n), _random_act(rng, n, all_nodes, extras))
        if rng.random() < 0.3:
            c = rng.choice(BASE_NAMES + ["Leaf"])
            if c not in table:
                table[c] = (rng.choice([GENERIC, KEEP]), {})
        if scen == "raise_late" and all_nodes:
            n = all_nodes[-1] if rng.random() < 0.5 else rng.choice(all_nodes)
            _add(table, _mro_names(n)[0], tok(n), RAISE)

    yield from run_case(rng, root, extras, toks, orgs, tree_sx, extras_sx, ctr, table, strict, scen)


def run_case(rng, root, extras, toks, orgs, tree_sx, extras_sx, ctr, table, strict, scen):
    n_nodes = 1 + sum(1 for _ in zoo.positions(root))
    rules_sx = [A("rules")] + [[c, enc_act(d, toks)] + [[t, enc_act(a, toks)] for t, a in per.items()]
                               for c, (d, per) in table.items()]
    rules_txt = "; ".join(f"visit_{c}: default {show_act(d, toks)}" +
                          "".join(f", on #{t}:{type(toks.objs[t]).__name__} {show_act(a, toks)}"
                                  for t, a in per.items())
                          for c, (d, per) in table.items())
    nontriv = n_nodes >= 3 and bool(table)
    if rng.random() < 0.3:
        # a fresh visitor class, strictness as a class attribute
        V = make_visitor(table, strict, toks, rng)
        runs = [(strict, lambda: instantiate(V), "class-attr")]
    else:
        # a pooled (re-used) class; one instance per strictness, the generated one first, then the other
        P = pooled_visitor_class(table.keys(), rng)
        runs = [(strict, lambda: instantiate(P, strict, table, toks), "instance-attr"),
                (not strict, lambda: instantiate(P, not strict, table, toks), "instance-attr, same class right after "
                                                                  f"an instance with strict={strict}")]
    placed = (V if len(runs) == 1 else P)._c09_places
    for st, make, how in runs:
        snap = snapshot(list(toks.objs))
        try:
            vis = make()
            res = vis.transform(root) if rng.random() < 0.7 else vis.visit(root)
            real = dumps([A("ok"), canon_out(res, toks, orgs)])
        except Exception:  # noqa
            real = dumps([A("raise")])
        bad = snapshot_ok(snap)
        line = dumps([A("transform"), zoo.class_table(), orgs.sexp(), [A("tree"), tree_sx], [A("extra")] + extras_sx,
                      [A("strict"), st], [A("ctr"), ctr], rules_sx])
        desc = f"{zoo.show(root)} strict={st} ({how}) rules={rules_txt} methods-at={placed}"
        yield Case(scen, line, real, nontriv, desc, sig=f"transform|{scen.split('_')[0]}")
        if bad:
            yield Case("purity", None, None, nontriv, desc, oracle_fail=bad, sig="transform|input-modified")


def exhaustive_cases(rng: random.Random, n_trees: int):
    """small scope: every assignment of an action to every node object of a small tree"""
    import itertools
    done = 0
    while done < n_trees:
        g = zoo.Gen(rng, origins=False, long_tuples=False, share=0.15)
        root = g.tree(rng.choice([2, 3, 4, 5]))
        nodes = []
        for n in [root] + [p[0] for p in zoo.positions(root)]:
            if all(n is not m for m in nodes):
                nodes.append(n)
        if not 2 <= len(nodes) <= 4:
            continue
        done += 1
        extra = zoo.Leaf(v=99)
        strict = rng.random() < 0.5
        per_node = []
        for n in nodes:
            per_node.append([GENERIC, KEEP, REMOVE, _rewrite_for(rng, n), ("replace", extra), RAISE])
        for combo in itertools.product(*per_node):
            toks = zoo.Tokens()
            orgs = zoo.OrgTable()
            seen: set = set()
            tree_sx = zoo.enc_tree(root, toks, orgs, seen)
            extras_sx = [zoo.enc_tree(extra, toks, orgs, seen)]
            ctr = len(toks.objs)
            table: dict = {}
            for n, act in zip(nodes, combo):
                _add(table, _mro_names(n)[0], toks.by_id[id(n)], act)
            yield from run_case(rng, root, [extra], toks, orgs, tree_sx, extras_sx, ctr, table, strict, "exhaustive")


# ------------------------------------------------------------------ dispatch

def dispatch_cases(rng: random.Random, n_sets: int):
    insts = [(c, zoo_c09.sample(c)) for c in zoo_c09.DISPATCH_CLASSES]
    all_names = sorted({k.__name__ for c, _ in insts for k in c.__mro__})
    for _ in range(n_sets):
        names = rng.sample(all_names, rng.choice([0, 1, 1, 2, 3, 5]))
        names += rng.sample([c.__name__ for c, _ in insts], rng.choice([0, 2, 4]))
        if rng.random() < 0.5 and "Leaf" not in names:
            names.append(rng.choice(["Leaf", "Expr", "ASTNode", "object"]))
        names = list(dict.fromkeys(names))
        shared = {"generic_visit": lambda self, node: "generic"}
        methods = {"visit_" + c: (lambda cc: lambda self, node: cc)(c) for c in names}
        per_instance = rng.random() < 0.75
        if per_instance:
            # one visitor class, `strict` set per instance; the order of the strictness values alternates
            # and the first one is visited again at the end (history independence)
            def init(self, strict):
                self.strict = strict

            shared["__init__"] = init
            V = build_visitor_class(methods, ASTVisitor, shared, rng, {}, name="DV")
            first = rng.random() < 0.5
            plan = [(first, lambda st=first: instantiate(V, st)), (not first, lambda st=not first: instantiate(V, st)),
                    (first, lambda st=first: instantiate(V, st))]
        else:
            plan = []
            for strict in (False, True):
                sh2 = dict(shared)
                if strict or rng.random() < 0.5:
                    sh2["strict"] = strict
                V2 = build_visitor_class(methods, ASTVisitor, sh2, rng, {}, name="DV")
                plan.append((strict, lambda V2=V2: instantiate(V2)))
        for step, (strict, make) in enumerate(plan):
            for cls, inst in insts:
                vis = None
                try:
                    vis = make()
                    got = vis.visit(inst)
                    real = dumps([A("ok"), A("generic") if got == "generic" else got])
                except Exception:  # noqa
                    real = dumps([A("raise")])
                line = dumps([A("dispatch"), [A("strict"), strict], [A("names")] + names,
                              [A("mro")] + [k.__name__ for k in cls.__mro__], [A("cls"), cls.__name__]])
                yield Case("dispatch_strict" if strict else "dispatch", line, real, bool(names),
                           f"visit({cls.__name__}()) strict={strict} "
                           f"({'instance attribute, step %d of %s' % (step, [p[0] for p in plan]) if per_instance else 'class attribute'}) "
                           f"methods-at={getattr(type(vis), '_c09_places', None)}",
                           sig=f"dispatch|strict={strict}")


@dataclasses.dataclass(frozen=True)
class C09Two(zoo.Expr):
    """two tuple-valued child fields and a single one"""
    xs: tuple[zoo.Expr, ...] = ()
    ys: tuple[zoo.Expr, ...] = ()
    z: zoo.Expr | None = None


zoo.CHILD_FIELDS[C09Two] = [("xs", True), ("ys", True), ("z", False)]


class _DropRepl(ASTTransformVisitor):
    """Leaf(v) with v in `drop` is removed, with v in `repl` is replaced by Leaf(v + 100), v == `boom` raises (when armed)"""

    def __init__(self, drop, repl, boom=None):
        super().__init__()
        self.drop, self.repl, self.boom, self.armed = set(drop), set(repl), boom, True

    def visit_Leaf(self, node):
        if self.armed and node.v == self.boom:
            raise StopIteration("boom")
        if node.v in self.drop:
            return None
        if node.v in self.repl:
            return dataclasses.replace(node, v=node.v + 100)
        return node


def two_fields_cases(rng):
    """(1) a node with TWO tuple-valued child fields: removals / replacements in the first field must not shift what happens
    in the second (each field is rewritten on its own, in order); (2) the SAME visitor instance is used again on the same
    tree after one of its methods raised: the second run is a complete bottom-up rewrite"""
    L = lambda v: zoo.Leaf(v=v)  # noqa
    plans = [({2}, {7}), ({1, 2}, {5}), ({3}, set()), (set(), {4, 6}), ({1, 5, 6}, {2}), ({2, 4}, {4 + 100})]
    for k, (drop, repl) in enumerate(plans):
        xs, ys = (L(1), L(2), L(3)), (L(4), L(5), L(6), L(7))
        node = C09Two(xs=xs, ys=ys, z=L(2) if k % 2 else None)
        root = zoo.Un(node)
        want = lambda items: [(x.v + 100) if x.v in repl else x.v for x in items if x.v not in drop]  # noqa
        fail = None
        for reuse in (False, True):
            vis = _DropRepl(drop, repl, boom=6 if reuse else None)
            try:
                if reuse:
                    try:
                        vis.transform(root)
                        fail = fail or "the raising method did not propagate its exception"
                    except StopIteration:
                        pass
                    vis.armed = False
                res = vis.transform(root)
                got = res.arg if isinstance(res, zoo.Un) else None
                if not isinstance(got, C09Two):
                    fail = fail or f"result is {zoo.show(res) if res is not None else None}"
                elif [x.v for x in got.xs] != want(xs) or [x.v for x in got.ys] != want(ys):
                    fail = fail or (f"xs={[x.v for x in got.xs]} ys={[x.v for x in got.ys]}, the bottom-up rewrite gives xs={want(xs)} "
                                    f"ys={want(ys)}" + (" (same visitor instance, second run after a raise)" if reuse else ""))
                elif any(g is not o for g, o in zip([x for x in got.xs if x.v < 100], [x for x in xs if x.v not in drop and x.v not in repl])):
                    fail = fail or "an untouched tuple item is not the very same object"
                elif (got.z is None) != (node.z is None or node.z.v in drop):
                    fail = fail or "single field z handled wrongly"
                elif [x.v for x in node.xs] != [1, 2, 3] or [x.v for x in node.ys] != [4, 5, 6, 7]:
                    fail = fail or "the input node was modified"
            except Exception as e:  # noqa
                fail = fail or f"transform raised {type(e).__name__}: {e}"[:160]
        yield Case("directed:two-tuple-fields", None, None, True, f"C09Two(xs=(1,2,3), ys=(4,5,6,7)) drop={sorted(drop)} replace={sorted(repl)}",
                   oracle_fail=fail, sig="transform|directed|two-tuple-fields")


def cases(rng: random.Random, tier: str):
    yield from two_fields_cases(rng)
    yield from dispatch_cases(rng, 25 if tier == "quick" else 400)
    n = 2500 if tier == "quick" else 60000
    for _ in range(n):
        yield from gen_case(rng, tier)
    yield from exhaustive_cases(rng, 4 if tier == "quick" else 120)
