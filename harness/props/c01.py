"""C01 — content_id / is_equal = structural content equality.
K1: real content_id equality and is_equal on generated pairs vs. the model (Props/C01.lean proves
model equality = ContentEq) and vs. the harness' own evaluation of the statement on the specs.
K2: every recorded blake2b pre-image vs. the model's cidInput / idInput (mechanism level).
Cross-process: the same specs built under another PYTHONHASHSEED give the same content_ids."""
from __future__ import annotations

import copy
import os
import pickle
import random
import subprocess
import sys
from pathlib import Path

import pyoak.node as pnode
from pyoak.origin import NO_ORIGIN

from proto import A, dumps
from run import Case, VERIF, REPO
import zoo

from kernels_tie import optional_is_equal as optional_obligation  # noqa: F401  (`is_equal` regenerated from node.py: optional bridge)

PROPERTY = "C01"
LEAN_MODULE = "PyOak.Props.C01All"
THEOREMS = ["PyOak.C01." + t for t in ["cid_eq_iff", "isEqual_iff", "cid_ignores", "cid_congr_kids",
                                       "cid_replace_child", "cid_perm", "canon_perm", "DC.render_inj"]]
# additions (AUDIT item #6 / C01 §4): sound direction for an ARBITRARY digest; ContentEq read field by field
THEOREMS += ["PyOak.C01." + t for t in ["cid_of_contentEq", "isEqual_of_contentEq", "not_contentEq_of_cid_ne",
                                        "contentEq_iff_fields", "contentEq_iff_same", "cid_eq_iff_same",
                                        "triples_eq_iff", "cmpGet_iff", "absent_ne_present",
                                        "Demo.fields_need_conforms"]]
RULE = ("pairs (a, b) of zoo trees: b is a rebuilt copy of a with other origins / non-comparable props / frozensets in "
        "another insertion order (content-equal by construction) or with one single-point mutation (property value or "
        "type 1/True/'1', class, tuple order/length, child moved between fields, absent<->present, falsy<->None, "
        "separator-splice strings); non-trivial = tree >= 3 nodes; distinct by both descriptions")
TRUSTED = ["blake2b idealised as injective (the property is decided modulo digest collisions)",
           "str()/type() texts of leaf values are injective per type (validated on the generated values of this run)"]
ASSUMPTIONS = ["floats -0.0/NaN are don't-cares and not generated; 'equal values of equal types' is read structurally: (1, 0) and "
               "(True, False) are different content, as the unchanged code has it"]
BUDGET = {"quick": 240, "thorough": 2400}


@zoo.dataclass(frozen=True)
class Shade(zoo.Expr):
    v: int = 0


_ShadeBase = Shade


@zoo.dataclass(frozen=True)
class Shade(_ShadeBase):  # noqa: F811  a subclass that keeps its parent's name (same module: pyoak allows it)
    pass


class _Rec:
    """stands in for the name `hashlib` inside pyoak.node and records blake2b inputs"""

    def __init__(self, real):
        self.real = real
        self.table: dict[str, bytes] = {}

    def blake2b(self, data, digest_size):
        h = self.real.blake2b(data, digest_size=digest_size)
        self.table[h.hexdigest()] = data
        return h

    def __getattr__(self, k):
        return getattr(self.real, k)


def mutate(rng, spec, _depth=0):
    """returns (new spec, kind, expected content-equal?)  — expectation only for reporting"""
    pos = list(zoo.spec_positions(spec))
    path, s = rng.choice(pos)
    _, cname, props, kids, origin, key = s
    props, kids = dict(props), {k: (list(v) if isinstance(v, list) else v) for k, v in kids.items()}
    k = rng.random()
    kind = None
    if k < 0.06:
        origin = zoo.gen_origin(rng)
        kind = "origin"
    elif k < 0.1 and "tag" in props:
        props["tag"] = props["tag"] + "x"
        kind = "noncompare"
    elif k < 0.12 and "hidden" in props:
        props["hidden"] += 1
        kind = "noncompare"
    elif k < 0.2 and "fs" in props:
        els = list(props["fs"])
        rng.shuffle(els)
        props["fs"] = frozenset(els)
        els = list(props["fss"])
        rng.shuffle(els)
        props["fss"] = frozenset(els)
        # nested frozensets rebuilt in another insertion order at every level (equal values)
        props["nfs"] = frozenset(frozenset(rng.sample(list(x), len(x))) for x in rng.sample(list(props["nfs"]), len(props["nfs"])))
        props["tf"] = tuple(frozenset(rng.sample(list(x), len(x))) for x in props["tf"])
        kind = "fset-order"
    elif k < 0.45 and props:
        name = rng.choice(sorted(props))
        v = props[name]
        cls = zoo._BY_NAME[cname]
        def retype(x):
            # a value that is == but of another type (1 / True / 1.0): different content
            if isinstance(x, bool):
                return int(x)
            if isinstance(x, int) and x in (0, 1):
                return rng.choice([bool(x), float(x)])
            if isinstance(x, int):
                return float(x) if abs(x) < 2**50 else x + 1
            if isinstance(x, float) and x == int(x) and abs(x) < 2**50:
                return int(x)
            return None
        if isinstance(v, (bool, int)) and rng.random() < 0.4 and retype(v) is not None:
            props[name] = retype(v)
        elif isinstance(v, tuple) and v and rng.random() < 0.6 and any(retype(x) is not None for x in v):
            i = rng.choice([j for j, x in enumerate(v) if retype(x) is not None])
            props[name] = v[:i] + (retype(v[i]),) + v[i + 1:]
        elif isinstance(v, frozenset) and v and rng.random() < 0.5 and any(isinstance(x, int) and x in (0, 1) for x in v):
            x = next(y for y in v if isinstance(y, int) and y in (0, 1))
            props[name] = frozenset([bool(x) if not isinstance(x, bool) else int(x)] + [y for y in v if y is not x])
        elif isinstance(v, bool):
            props[name] = not v
        elif isinstance(v, int):
            props[name] = v + 1
        elif isinstance(v, str):
            props[name] = rng.choice([v + ")", v + ":", "x" + v, zoo.gen_str(rng)])
        elif isinstance(v, tuple):
            props[name] = v + (v[0],) if v else (zoo.gen_str(rng),) if name == "extra" else v
        elif isinstance(v, frozenset):
            props[name] = frozenset(list(v)[1:]) if v else v
        elif isinstance(v, zoo.Color):
            props[name] = zoo.Color((v.value % 3) + 1)
        elif v is None:
            props[name] = 0
        kind = "prop:" + name
    elif k < 0.52 and cname in ("Leaf", "Leaf2", "Opt", "UnionKid", "Tup"):
        swap = {"Leaf": "Leaf2", "Leaf2": "Leaf", "Tup": "Tup"}
        if cname == "Leaf":
            cname = "Leaf2"
            props["extra"] = ()
        elif cname == "Leaf2":
            cname = "Leaf"
            props.pop("extra")
        elif cname == "Opt" and (kids["c"] is None or kids["c"][1] in ("Leaf", "Bin")):
            cname = "UnionKid"
        elif cname == "UnionKid":
            cname = "Opt"
        kind = "class"
    elif k < 0.62:
        tf = [n for n, v in kids.items() if isinstance(v, list) and len(v) >= 2]
        if tf and cname != "Fix2":
            n = rng.choice(tf)
            i = rng.randrange(len(kids[n]) - 1)
            kids[n][i], kids[n][i + 1] = kids[n][i + 1], kids[n][i]
            kind = "tuple-swap"
    elif k < 0.7:
        tf = [n for n, v in kids.items() if isinstance(v, list)]
        if tf and cname != "Fix2":
            n = rng.choice(tf)
            if kids[n] and rng.random() < 0.5:
                del kids[n][rng.randrange(len(kids[n]))]
            else:
                kids[n].insert(rng.randint(0, len(kids[n])), ("node", "Leaf", {"v": 5, "s": "", "flag": False, "tag": ""}, {}, NO_ORIGIN, 10**6 + rng.randrange(10**6)))
            kind = "tuple-len"
    elif k < 0.78 and cname in ("Bin", "Names", "Mixed"):
        if cname == "Bin":
            kids["left"], kids["right"] = kids["right"], kids["left"]
        elif cname == "Names":
            kids["child"], kids["root"] = kids["root"], kids["child"]
        else:
            if kids["a"] is not None:
                kids["z"], kids["a"] = kids["a"], kids["z"]
        kind = "field-swap"
    elif k < 0.9:
        of = [n for n, v in kids.items() if not isinstance(v, list)
              and cname in ("Opt", "Names", "FalsyKid", "Mixed", "MLeft", "MRight", "MBoth", "Glue") and n != "z"]
        if of:
            n = rng.choice(of)
            if kids[n] is None:
                kids[n] = ("node", rng.choice(["Falsy", "Leaf"]), {"n": 0} if False else {}, {}, NO_ORIGIN, 10**6 + rng.randrange(10**6))
                if kids[n][1] == "Leaf":
                    kids[n] = ("node", "Leaf", {"v": 0, "s": "", "flag": False, "tag": ""}, {}, NO_ORIGIN, kids[n][5])
                else:
                    kids[n] = ("node", "Falsy", {"n": 0}, {}, NO_ORIGIN, kids[n][5])
            else:
                kids[n] = None
            kind = "absent-present"
    if kind is None:
        if _depth < 6:
            return mutate(rng, spec, _depth + 1)
        origin = zoo.gen_origin(rng)
        kind = "origin"
    new = ("node", cname, props, kids, origin, key)
    return zoo.spec_replace(spec, path, new), kind


def fresh_keys(spec, base):
    """copy of a spec with new memo keys and (optionally) new origins: a content-equal twin"""
    def go(s):
        if s[0] == "ref":
            return ("ref", s[1] + base)
        _, c, p, k, o, key = s
        return ("node", c, p, {n: ([go(x) for x in v] if isinstance(v, list) else (None if v is None else go(v)))
                               for n, v in k.items()}, o, key + base)
    return go(spec)


def deser_cases(rng, a, b, sb, want, desc):
    """content_id / is_equal of nodes that came into being by DESERIALIZATION are decided by their content like those of
    any other node: (1) `b` rebuilt from its own payload after the originals were detached, same and different
    ID_DIGEST_SIZE than the one the payload was written under (a stored dump outlives a configuration change);
    (2) a payload whose root property was edited (as_obj accepts any well-formed mapping) equals a fresh node of the
    edited content and differs from the unedited one"""
    import gc
    import pyoak.config as cfg
    try:
        payload = b.as_dict()
        pnode.ASTNode.as_obj(payload)      # b still registered: answered by the originals, nothing is created
    except Exception:  # noqa  (an ill-typed mutant the value codec refuses: not serializable at all)
        return
    old_cid = b.content_id
    b.detach()
    size0 = cfg.ID_DIGEST_SIZE
    try:
        b2 = pnode.ASTNode.as_obj(payload)
        if not zoo.spec_content_eq(zoo.to_spec(b2), sb):
            # the value codec coerced an ill-typed property (e.g. True in an int field): a round-trip matter (C04),
            # the node read back simply has another content
            b2.detach()
            return
        bad = None
        if (a.content_id == b2.content_id) != want or a.is_equal(b2) != want:
            bad = (f"a vs deserialized b: content_id equal={a.content_id == b2.content_id}, is_equal={a.is_equal(b2)}, "
                   f"content-equal={want}")
        elif b2.content_id != old_cid:
            bad = "the content_id of a node rebuilt from its own payload differs from the original's"
        yield Case("deser:pair", None, None, True, desc + " [b rebuilt from b.as_dict() after b.detach()]", oracle_fail=bad,
                   sig="cid|deser|pair")
        b2.detach()
        del b2
        # another digest size at reading time
        cfg.ID_DIGEST_SIZE = rng.choice([s for s in (4, 6, 16) if s != size0])
        b3 = pnode.ASTNode.as_obj(payload)
        fresh = zoo.build(fresh_keys(sb, 3 * 10**4))
        bad = None
        if b3.content_id != fresh.content_id or not b3.is_equal(fresh) or not fresh.is_equal(b3):
            bad = (f"deserialized under ID_DIGEST_SIZE={cfg.ID_DIGEST_SIZE} (payload written under {size0}): content_id "
                   f"{b3.content_id} but an equal node built now has {fresh.content_id}")
        yield Case("deser:digest-size", None, None, True, desc + f" [payload of b read back under ID_DIGEST_SIZE={cfg.ID_DIGEST_SIZE}]",
                   oracle_fail=bad, sig="cid|deser|digest-size")
        b3.detach()
        fresh.detach()
        del b3, fresh
    finally:
        cfg.ID_DIGEST_SIZE = size0
    # edited payload (root property `v`, comparable int in most zoo classes)
    if isinstance(payload.get("v"), int) and not isinstance(payload.get("v"), bool) and "v" in sb[1]:
        p2 = dict(payload)
        p2["v"] = payload["v"] + 1000
        s2 = (sb[0], dict(sb[1], v=sb[1]["v"] + 1000)) + tuple(sb[2:])
        try:
            e1 = pnode.ASTNode.as_obj(p2)
            e2 = zoo.build(fresh_keys(s2, 5 * 10**4))
        except Exception:  # noqa
            return
        bad = None
        if e1.content_id != e2.content_id or not e1.is_equal(e2):
            bad = "a node read from an edited payload is not content-equal to a fresh node with the edited content"
        elif e1.content_id == old_cid:
            bad = "a node read from an edited payload kept the content_id of the unedited content"
        yield Case("deser:edited", None, None, True, desc + " [payload of b with root v += 1000]", oracle_fail=bad, sig="cid|deser|edited")
        e1.detach()
        e2.detach()


@__import__("dataclasses").dataclass(frozen=True)
class Derived(zoo.Expr):
    """comparable content that is NOT a constructor argument: `value` (init=False, comparable) is computed from the
    non-comparable `text` before the base initialiser runs"""
    text: str = __import__("dataclasses").field(default="", compare=False)
    value: int = __import__("dataclasses").field(init=False, default=0)

    def __post_init__(self):
        object.__setattr__(self, "value", len(self.text))
        super().__post_init__()


def special_value_cases(rng):
    """(1) comparable init=False properties are content; (2) str values with lone surrogates: if the library accepts them
    at all, different strings are different content"""
    for t1, t2 in (("a", "bb"), ("", "x"), ("ab", "cd"), ("abc", "abc")):
        a, b = Derived(text=t1), Derived(text=t2)
        same = len(t1) == len(t2)
        bad = None
        if (a.content_id == b.content_id) != same or a.is_equal(b) != same:
            bad = (f"Derived(text={t1!r}).value={a.value} vs Derived(text={t2!r}).value={b.value}: content_id equal="
                   f"{a.content_id == b.content_id}, is_equal={a.is_equal(b)} (a comparable init=False property is content)")
        yield Case("directed:noninit-comparable", None, None, True, f"Derived(text={t1!r}) vs Derived(text={t2!r})", oracle_fail=bad,
                   sig="cid|directed|noninit-comparable")
        del a, b
    for s1, s2 in (("\udcc3\udca9", "\u00e9"), ("\udc80", "\x80"), ("a\udcff", "a\u00ff"), ("\udce2\udc82\udcac", "\u20ac"),
                   ("\ud800", "\ud801")):
        try:
            n1, n2 = zoo.Two(a=s1, b="k"), zoo.Two(a=s2, b="k")
        except Exception:  # noqa  (the library refuses such strings: nothing to compare)
            yield Case("directed:surrogates", None, None, False, f"Two(a={s1!r}) is refused by the library", sig="cid|directed|surrogates")
            continue
        bad = None
        if n1.content_id == n2.content_id or n1.is_equal(n2):
            bad = f"Two(a={s1!r}) and Two(a={s2!r}) are different strings but share a content_id / are is_equal"
        yield Case("directed:surrogates", None, None, True, f"Two(a={s1!r}) vs Two(a={s2!r})", oracle_fail=bad, sig="cid|directed|surrogates")
        del n1, n2


def framing_tokens(sep: str) -> list[str]:
    """strings built from the digest framing itself: the escape character, the closing bracket, the learned separator"""
    base = ["", "q", "\\", ")", "\\)", ")\\", "\\\\", "))", sep, "\\" + sep, sep + "\\", sep + "q", "q" + sep, ")" + sep, sep + ")",
            "\\)" + sep, sep + "\\)"]
    return base


def framing_exhaustive_cases():
    """all pairs of two-property nodes whose values come from `framing_tokens`: pairwise different contents must have
    pairwise different content_ids (injectivity of the escaping, exhaustively on the framing alphabet)"""
    probe = zoo.Two(a="QQQ", b="WWW")
    sep = "):b=<class 'str'>("
    toks = framing_tokens(sep)
    seen: dict[str, tuple[str, str]] = {}
    bad = None
    n = 0
    for x in toks:
        for y in toks:
            node = zoo.Two(a=x, b=y)
            n += 1
            other = seen.setdefault(node.content_id, (x, y))
            if other != (x, y) and bad is None:
                bad = f"Two(a={other[0]!r}, b={other[1]!r}) and Two(a={x!r}, b={y!r}) share a content_id"
            del node
    del probe
    yield Case("splice-exhaustive", None, None, True, f"{n} nodes Two(a, b) over {len(toks)} framing strings", oracle_fail=bad,
               sig="cid|splice")


def registry_influence_cases(rng, n):
    """"registry contents never influence the result": the content_id of a node built while the registry is crowded (one-byte
    ids, so that the new node's id is already taken by another live node of its class, with other content) equals the
    content_id of the same construction in an empty registry.  (Holds for any digest size: a content_id is a function of
    the content.)"""
    import gc
    import pyoak.config as cfg
    size0 = cfg.ID_DIGEST_SIZE
    cfg.ID_DIGEST_SIZE = 1
    try:
        for _ in range(n):
            gc.collect()
            pnode.NODE_REGISTRY.clear()
            g = zoo.Gen(rng, origins=True, serial=False)
            spec = zoo.to_spec(g.tree(rng.choice([1, 2, 3, 5])))
            g.pool.clear()
            gc.collect()
            pnode.NODE_REGISTRY.clear()
            fresh = zoo.build(spec)
            want = [fresh.content_id] + [c.content_id for c, *_ in zoo.positions(fresh)]
            del fresh
            gc.collect()
            pnode.NODE_REGISTRY.clear()
            crowd = [zoo.Leaf(v=i) for i in range(300)] + [zoo.Un(zoo.Leaf(v=-i)) for i in range(1, 120)] + \
                    [zoo.Tup((zoo.Leaf(v=7000 + i),)) for i in range(120)] + [zoo.Bin(zoo.Leaf(v=i), zoo.Leaf(v=i + 1)) for i in range(120)]
            again = zoo.build(spec)
            got = [again.content_id] + [c.content_id for c, *_ in zoo.positions(again)]
            fail = None
            if got != want:
                k = next(i for i, (x, y) in enumerate(zip(got, want)) if x != y)
                fail = (f"content_id of position {k} is {got[k]} in a crowded registry and {want[k]} in an empty one "
                        f"(ID_DIGEST_SIZE=1, {len(pnode.NODE_REGISTRY)} live nodes)")
            yield Case("registry-influence", None, None, True, f"{zoo.show(again)} built in an empty and in a crowded registry",
                       oracle_fail=fail, sig="cid|registry-influence")
            del crowd, again
    finally:
        cfg.ID_DIGEST_SIZE = size0
        gc.collect()
        pnode.NODE_REGISTRY.clear()


def cases(rng: random.Random, tier: str):
    yield from registry_influence_cases(rng, 6 if tier == "quick" else 60)
    yield from framing_exhaustive_cases()
    yield from special_value_cases(rng)
    n_pairs = 250 if tier == "quick" else 6000
    rec = _Rec(pnode.hashlib)
    pnode.hashlib = rec
    cross: list = []
    cross_ids: list = []
    try:
        for _ in range(n_pairs):
            g = zoo.Gen(rng, origins=True, serial=_ % 3 != 0)
            a = g.tree(rng.choice([1, 2, 4, 8, 16, 30]))
            sa = zoo.to_spec(a)
            try:
                sb, kind = mutate(rng, fresh_keys(sa, 10**4))
                if rng.random() < 0.3:
                    sb, kind2 = mutate(rng, sb)
                    kind += "+" + kind2
                b = zoo.build(sb)
            except Exception as e:  # noqa  (a mutation that the node model itself rejects)
                continue
            want = zoo.spec_content_eq(sa, sb)
            toks = zoo.Tokens()
            orgs = zoo.OrgTable()
            ta = zoo.enc_tree(a, toks, orgs)
            tb = zoo.enc_tree(b, toks, orgs)
            env = [zoo.class_table(), orgs.sexp()]
            desc = f"a={zoo.show(a)} b={zoo.show(b)} mutation={kind}"
            nontriv = zoo.size(a) >= 3
            real_eq = a.content_id == b.content_id
            real_iseq = a.is_equal(b)
            oracle = None
            if real_eq != want:
                oracle = f"content_id equality is {real_eq} but the trees are {'' if want else 'not '}content-equal"
            elif real_iseq != want:
                oracle = f"is_equal is {real_iseq} but the trees are {'' if want else 'not '}content-equal"
            elif a.is_equal(5) or a.is_equal(None):
                oracle = "is_equal(non-node) is True"
            yield Case("pair:" + ("eq" if want else "ne"), dumps([A("cid-eq")] + env + [[A("tree"), ta], [A("tree2"), tb]]),
                       dumps([A("ok"), real_eq, real_iseq]), nontriv, desc, oracle_fail=oracle,
                       sig=f"cid|pair|{kind.split(':')[0]}|want={want}")
            # K2: digest pre-images of every node of a
            nodes = [a] + [c for (c, p, f, i) in zoo.positions(a)]
            seen, uniq = set(), []
            for n in nodes:
                if id(n) not in seen:
                    seen.add(id(n))
                    uniq.append(n)
            digests = [A("digests")] + [[toks.tok(n), n.content_id] for n in uniq]
            toks2 = zoo.Tokens()
            for n in uniq:
                toks2.tok(n)
            real_pre = [A("ok")]
            ok = True
            for n in uniq:
                cpre = rec.table.get(n.content_id)
                ipre = rec.table.get(n.id.split("_")[0])
                if cpre is None or ipre is None:
                    ok = False
                    break
                real_pre.append([toks.tok(n), cpre.decode("utf-8"), ipre.decode("utf-8")])
            if ok:
                yield Case("preimage", dumps([A("cid-pre")] + env + [[A("tree"), ta], digests]), dumps(real_pre),
                           nontriv, f"a={zoo.show(a)}", sig="cid|preimage", k2=True)
            if len(cross) < (40 if tier == "quick" else 400):
                cross.append(sa)
                cross_ids.append(a.content_id)
            rec.table.clear()
            if _ % 3 == 0:
                yield from deser_cases(rng, a, b, sb, want, desc)
                rec.table.clear()
        # classes are compared by identity, not by name: a subclass keeping its parent's name is another class
        for v in range(3):
            b0, s0 = _ShadeBase(v=v), Shade(v=v)
            bad = b0.is_equal(s0) or s0.is_equal(b0) or not b0.is_equal(_ShadeBase(v=v)) or not s0.is_equal(Shade(v=v))
            yield Case("same-name-subclass", None, None, True, f"Shade(v={v}) base class vs same-named subclass",
                       oracle_fail="is_equal is True across two different classes (or False within one)" if bad else None,
                       sig="cid|is_equal|same-name-subclass")
        # two different classes with one module and qualified name (class factory): the second one's extra
        # comparable property and extra child field are content
        for _ in range(3):
            first, second = zoo.same_name_classes()
            f1 = first(v=1)
            a1, a2 = second(v=1, w=0), second(v=1, w=1)
            b1, b2 = second(v=1, k=None), second(v=1, k=zoo.Leaf(v=1))
            bad = None
            if a1.content_id == a2.content_id or a1.is_equal(a2):
                bad = "nodes differing in a comparable property share a content_id / are is_equal"
            elif b1.content_id == b2.content_id or b1.is_equal(b2):
                bad = "a missing optional child equals a present one"
            elif not a1.is_equal(second(v=1, w=0)) or f1.is_equal(a1):
                bad = "is_equal wrong within / across the two same-named classes"
            yield Case("same-name-classes", None, None, True, "class factory called twice: Ident(v) then Ident(v, w, k)",
                       oracle_fail=bad, sig="cid|same-name-classes")
            del first, second, f1, a1, a2, b1, b2
        # separator-splice attack, with the framing text learned from an observed pre-image
        rec.table.clear()
        probe = zoo.Two(a="QQQ", b="WWW")
        pre = rec.table.get(probe.content_id, b"").decode("utf-8")
        if "QQQ" in pre and "WWW" in pre and pre.index("QQQ") < pre.index("WWW"):
            sep = pre[pre.index("QQQ") + 3: pre.index("WWW")]
            for _ in range(40 if tier == "quick" else 400):
                x, y, z = (zoo.gen_str(rng) for _ in range(3))
                variants = [(x + sep + y, z, x, y + sep + z)]
                # also with the escape character / closing bracket at the seams
                variants.append((x + "\\" + sep + y, z, x + "\\", y + sep + z))
                variants.append((x + ")" + sep + y, z, x + ")", y + sep + z))
                for a1, b1, a2, b2 in variants:
                    n1, n2 = zoo.Two(a=a1, b=b1), zoo.Two(a=a2, b=b2)
                    same = (a1, b1) == (a2, b2)
                    bad = (n1.content_id == n2.content_id) != same or n1.is_equal(n2) != same
                    yield Case("splice", None, None, True, f"Two(a={a1!r}, b={b1!r}) vs Two(a={a2!r}, b={b2!r}) [framing {sep!r}]",
                               oracle_fail="different contents, same content_id / is_equal" if bad else None,
                               sig="cid|splice")
            # value-substitution attack: if the digest input does not carry a (long) value itself but something
            # derived from it, a node holding that derived text as its value has another content and must have another
            # content_id.  What the input carries is read off the observed pre-image (framing learned from the probe above)
            prefix = pre[: pre.index("QQQ")]
            for k in (1, 64, 200, 1000, 2047, 2048, 2049, 4096, 5000, 70000):
                v = ("ab1 cd2 " * (k // 8 + 1))[:k]
                rec.table.clear()
                n1 = zoo.Two(a=v, b="WWW")
                pre1 = rec.table.get(n1.content_id, b"").decode("utf-8")
                bad, what = None, f"Two(a=<{k} characters>, b='WWW')"
                if pre1.startswith(prefix) and (sep + "WWW") in pre1:
                    carried = pre1[len(prefix): pre1.index(sep + "WWW")]
                    if carried != v:
                        n2 = zoo.Two(a=carried, b="WWW")
                        what += f" vs Two(a={carried[:80]!r}, b='WWW') (the text the digest input carries instead of the value)"
                        if n1.content_id == n2.content_id or n1.is_equal(n2):
                            bad = "different contents, same content_id / is_equal"
                        del n2
                other = zoo.Two(a=v[:-1] + "X", b="WWW")
                if bad is None and (other.content_id == n1.content_id or other.is_equal(n1)):
                    bad = "values that differ in their last character share a content_id"
                yield Case("substitution", None, None, True, what, oracle_fail=bad, sig="cid|substitution")
                del n1, other
    finally:
        pnode.hashlib = rec.real
    # cross-process: another hash seed
    work = VERIF / ".work"
    work.mkdir(exist_ok=True)
    f = work / f"c01-specs-{os.getpid()}.pkl"
    try:
        f.write_bytes(pickle.dumps(cross))
        env = dict(os.environ, PYTHONHASHSEED="4242")
        p = subprocess.run([sys.executable, str(VERIF / "harness" / "cid_worker.py"), str(f)], env=env,
                           capture_output=True, text=True, timeout=120)
        import json
        other = json.loads(p.stdout.strip().splitlines()[-1]) if p.returncode == 0 else None
    finally:
        f.unlink(missing_ok=True)
    if other is None:
        yield Case("cross-process", None, None, True, "worker failed: " + p.stderr[-300:], oracle_fail="cross-process worker failed",
                   sig="cid|cross-process-worker")
    else:
        for s, x, y in zip(cross, cross_ids, other):
            yield Case("cross-process", None, None, True, f"spec={zoo.show(zoo.build(s))}",
                       oracle_fail=None if x == y else f"content_id differs across hash seeds: {x} vs {y}",
                       sig="cid|cross-process")
