"""C04 — serialization round-trips trees exactly in dict / JSON / MessagePack / YAML.
Oracle on the real code (the property itself): for every generated tree, format, option set and
liveness pattern of the originals (all alive, none, random subtrees, a fresh process) the
deserialized tree is compared position by position with a snapshot of the original.
K1: histories of as_dict .. as_obj / drops / twins run against the Lean registry machine
(re-use by id, re-creation, forced ids)."""
from __future__ import annotations

import gc
import json
import os
import pickle
import random
import subprocess
import sys
import weakref

from pyoak.node import NODE_REGISTRY
from pyoak.origin import (SOURCE_OPTIMIZED_SERIALIZATION_KEY, NO_ORIGIN, CodeOrigin, MemoryTextSource, MultiOrigin, Source, XMLFileOrigin, XMLPath,
                          get_code_range, merge_origins)
from pyoak.serialize import SerializationOption

from run import Case, VERIF
from props.c04_origin_cases import origin_cases
from props.c04_value_cases import value_cases, STATS as VC_STATS
from regmachine import Machine
import zoo

PROPERTY = "C04"
LEAN_MODULE = "PyOak.Props.C04All"
THEOREMS = ["PyOak.C04." + t for t in ['deser_reuse', 'deser_reuse_all', 'deserKids_reuse', 'deser_fresh_ids', 'deser_root_created', 'Realizes.registered', 'deser_shared', 'deser_shared_later', 'deser_persist', 'deser_never_overwrites_live']] + ["PyOak.C04O." + t for t in [
    'source_roundtrip', 'source_index_same_registry', 'load_roundtrip', 'source_index_roundtrip', 'position_roundtrip',
    'origin_roundtrip', 'origin_roundtrip_any_registry', 'origin_index_roundtrip', 'singletons_roundtrip',
    'load_needs_empty_registry', 'load_needs_order', 'index_needs_load', 'index_needs_registered',
    'beq_refl', 'beq_symm', 'beq_trans']] + ["PyOak.C04V." + t for t in [
    'dec_enc', 'enc_jsonLike', 'enc_null', 'enc_injective_on_type', 'union_rt', 'atom_rt', 'dec_fset_perm',
    'dec_enc_fset_perm', 'basic_unions_rt', 'enum_before_int_fails', 'int_before_enum_fails', 'path_before_str_fails',
    'str_before_path_leaks', 'str_last_enum_leaks', 'str_first_enum_ok', 'literal_int_bool_fails', 'enum_before_bool_fails',
    'nested_fails', 'illtyped_bool_in_int', 'encNode_keys', 'encNode_postNode']]
# Props/C04Ser.lean, C04RoundTrip.lean, C04Reach.lean (AUDIT.md top-10 #1): serializer `RState.serOf` on the registry
# machine (Model/RegistrySer.lean, a conservative extension) and the end-to-end `deser (ser u)` statements
THEOREMS += ["PyOak.C04." + t for t in [
    'roundtrip_alive', 'roundtrip_registered', 'roundtrip_alive_step', 'deserAux_keys', 'clash_free', 'noClash_of_acyclic',
    'deser_persist_acyclic', 'acyclic_serOf', 'idInj_of_live', 'roundtrip_fresh', 'Good.new', 'image_inj', 'roundtrip_iso',
    'roundtrip_fresh_process', 'deser_total', 'covered_heap', 'live_in_heap', 'wf_step', 'wf_run',
    'roundtrip_alive_history', 'roundtrip_fresh_history']]
RULE = ("zoo trees (all property kinds incl. unicode strings, 64-bit ints, floats, enums, paths, literals, tuples, "
        "optionals; every origin kind incl. XML, generated, multi-origins over several sources, No* singletons; shared "
        "subtrees; ids with collision suffixes because registered twins exist outside the tree) x 4 formats x "
        "{default, SORT_KEYS} x liveness of the originals {all, none, random subtrees, fresh process}; "
        "non-trivial = tree >= 3 nodes; distinct by (tree, format, options, liveness); "
        "value codec: fresh node classes with one property of a generated annotation (int, float, bool, str, None, "
        "Literal, Enum, Path, Optional, unions of those in every member order, tuple[T, ...], tuple[A, B], frozenset[T], "
        "nested to depth 3) x conforming values (and ~15% values of another shape): as_dict()[field] and as_obj vs the "
        "Lean packer / unpacker, the whole node layout, and the round trip in the four formats wherever Ty.rt holds")
TRUSTED = ["orjson, msgpack, PyYAML: assumed to decode what they encode (exercised, not verified)",
           "mashumaro's generated to_dict/from_dict: for property values of the annotation universe of Model/ValueCodec.lean "
           "the generated packers / unpackers are MODELLED (C04V.dec_enc) and compared with the real code on every run; "
           "for child fields and anything outside that universe (Mapping, Any, NamedTuple, dataclass-valued properties) "
           "they are assumed"]
ASSUMPTIONS = ["SKIP_CLASS and the AST_TEST dialect destroy information by design and are not round-tripped",
               "a position below a reused registered ancestor may be the original object (accepted either way)",
               "value codec: values conform to their annotation (bool is not int, int is not float: mashumaro coerces those), "
               "ints within 64 bits and finite floats where JSON / MessagePack are involved (orjson refuses wider ints and "
               "writes inf / nan as null), annotation inside the decidable side condition Ty.rt (the annotations outside it "
               "that do fail are listed as known findings F31-F33)"]
BUDGET = {"quick": 240, "thorough": 2400}
FORMATS = ["dict", "json", "msgpack", "yaml"]
_XSRC = MemoryTextSource("<a><b/></a>", source_uri="mem.xml")


def rich_origin(rng):
    k = rng.random()
    if k < 0.55:
        return zoo.gen_origin(rng)
    if k < 0.7:
        return XMLFileOrigin(_XSRC, XMLPath(rng.choice(["/a", "/a/b", "/a/b/@x"])))
    if k < 0.85:
        return merge_origins(zoo.gen_origin(rng), zoo.gen_origin(rng), zoo.gen_origin(rng))
    o1 = CodeOrigin(zoo._SRC[0], get_code_range(0, 1, 0, 2, 1, 2))
    o2 = XMLFileOrigin(_XSRC, XMLPath("/a"))
    return MultiOrigin((o1, o2)) if rng.random() < 0.5 else MultiOrigin([o2, o1, NO_ORIGIN])


_FRESH_SRC = [0]


def earlier_calls(rng, a):
    """calls that happened BEFORE the round trip under test and must not influence it: the first serialization that ever
    involves this tree's (fresh) sources is made with other options; a (de)serialization call with options fails part-way"""
    k = rng.choice(["skip-class-first", "index-first", "failed-deser", "failed-deser-index", "explorer-first"])
    try:
        if k == "skip-class-first":
            a.as_dict(serialization_options={SerializationOption.SKIP_CLASS: True})
            a.to_json(serialization_options={SerializationOption.SKIP_CLASS: True, SerializationOption.SORT_KEYS: True})
        elif k == "index-first":
            a.as_dict(serialization_options={SOURCE_OPTIMIZED_SERIALIZATION_KEY: True})
        elif k == "explorer-first":
            from pyoak.node import AST_SERIALIZE_DIALECT_KEY, ASTSerializationDialects
            a.as_dict(serialization_options={AST_SERIALIZE_DIALECT_KEY: rng.choice(list(ASTSerializationDialects))})
        elif k == "failed-deser":
            bad = rng.choice(["null", "[1, 2]", "{\"__type\": \"Leaf\"}", "{"])
            try:
                type(a).from_json(bad, serialization_options={SerializationOption.SKIP_CLASS: True, SOURCE_OPTIMIZED_SERIALIZATION_KEY: True})
            except Exception:  # noqa
                pass
        else:
            # an index-based payload read while its source table is not loaded: refused part-way
            d = a.as_dict(serialization_options={SOURCE_OPTIMIZED_SERIALIZATION_KEY: True})

            def bump(x):
                if isinstance(x, dict):
                    return {kk: (vv + 10 ** 6 if kk == "idx" and isinstance(vv, int) else bump(vv)) for kk, vv in x.items()}
                if isinstance(x, (list, tuple)):
                    return [bump(y) for y in x]
                return x
            d = bump(d)
            d["id"] = "no-such-id"
            try:
                type(a).as_obj(d, serialization_options={SOURCE_OPTIMIZED_SERIALIZATION_KEY: True})
            except Exception:  # noqa
                pass
    except Exception:  # noqa  (the earlier call itself may legitimately fail; only its after-effects matter)
        pass
    return k


def serialize(n, fmt, opts):
    kw = {"serialization_options": opts} if opts else {}
    if fmt == "dict":
        return n.as_dict(**kw)
    if fmt == "json":
        return n.to_json(**kw)
    if fmt == "msgpack":
        return n.to_msgpck(**kw)
    return n.to_yaml(**kw)


def deserialize(cls, fmt, payload):
    if fmt == "dict":
        return cls.as_obj(payload)
    if fmt == "json":
        return cls.from_json(payload)
    if fmt == "msgpack":
        return cls.from_msgpck(payload)
    return cls.from_yaml(payload)


def snapshot(root):
    """pre-order list of (class name, id, content_id, {prop: value}, origin, share key)"""
    nodes = [root] + [c for c, *_ in zoo.positions(root)]
    first = {}
    snap = []
    for i, n in enumerate(nodes):
        first.setdefault(id(n), i)
        snap.append((type(n).__name__, n.id, n.content_id,
                     {f.name: getattr(n, f.name) for f in zoo.prop_fields(type(n))}, n.origin, first[id(n)]))
    return snap


def check_positions(snap, b, originals):
    """originals: list of weakrefs aligned with snap (None in a fresh process)"""
    nodes = [b] + [c for c, *_ in zoo.positions(b)]
    if len(nodes) != len(snap):
        return f"result has {len(nodes)} positions, original had {len(snap)}"
    seen = {}
    for i, (n, (cname, nid, cid, props, origin, share)) in enumerate(zip(nodes, snap)):
        if share in seen and seen[share] is not n:
            return f"position {i}: a node that was one shared object came back as two objects"
        seen[share] = n
        o = originals[i]() if originals is not None else None
        if o is not None and NODE_REGISTRY.get(nid) is o:
            if n is not o:
                return f"position {i}: original still registered but another object was returned"
            continue
        if o is not None and n is o:
            continue   # below a reused ancestor (accepted)
        if type(n).__name__ != cname:
            return f"position {i}: class {type(n).__name__} != {cname}"
        if n.id != nid:
            return f"position {i}: id {n.id} != {nid}"
        if n.content_id != cid:
            return f"position {i}: content_id differs"
        if NODE_REGISTRY.get(n.id) is not n:
            return f"position {i}: new node is not registered under its id"
        for k, v in props.items():
            w = getattr(n, k)
            if not zoo.val_eq(v, w):
                return f"position {i}: property {k} {w!r} != {v!r}"
        if not (type(n.origin) is type(origin) and n.origin == origin):
            return f"position {i}: origin {n.origin!r} != {origin!r}"
        if origin is NO_ORIGIN and n.origin is not NO_ORIGIN:
            return f"position {i}: NoOrigin singleton not preserved"
    return None


_STD_CLASSES: dict = {}


def _std_class(kind):
    """a node class with one comparable and one non-comparable property of a standard-library scalar type, and a
    child (classes are created once per kind: the serializer compiles code per class)"""
    import dataclasses as _dc
    import datetime as _dt
    import decimal
    import fractions
    import uuid
    from typing import Optional as _Opt
    ty = {"naive-datetime": _dt.datetime, "aware-datetime": _dt.datetime, "utc-datetime": _dt.datetime, "date": _dt.date,
          "time": _dt.time, "aware-time": _dt.time, "timedelta": _dt.timedelta, "decimal": decimal.Decimal, "uuid": uuid.UUID,
          "fraction": fractions.Fraction, "bytes": bytes}[kind]
    if ty not in _STD_CLASSES:
        name = "Std_" + ty.__name__
        ns = {"__annotations__": {"x": ty, "kid": _Opt[zoo.Expr], "y": _Opt[ty]},
              "kid": None, "y": _dc.field(default=None, compare=False), "__module__": __name__}
        _STD_CLASSES[ty] = _dc.dataclass(frozen=True)(type(name, (zoo.Expr,), ns))
    return _STD_CLASSES[ty]


def _std_value(rng, kind):
    import datetime as _dt
    import decimal
    import fractions
    import uuid
    us = rng.choice([0, 1, 250000, 999999, rng.randrange(10 ** 6)])
    if kind.endswith("datetime"):
        base = _dt.datetime(rng.choice([1, 1970, 2024, 9999]), rng.randint(1, 12), rng.randint(1, 28), rng.randint(0, 23),
                            rng.randint(0, 59), rng.randint(0, 59), us)
        if kind == "naive-datetime":
            return base
        if kind == "utc-datetime":
            return base.replace(tzinfo=_dt.timezone.utc)
        return base.replace(tzinfo=_dt.timezone(_dt.timedelta(minutes=rng.choice([120, -90, 330, 1, -719, 0]))))
    if kind == "date":
        return _dt.date(rng.choice([1, 1970, 2024, 9999]), rng.randint(1, 12), rng.randint(1, 28))
    if kind == "time":
        return _dt.time(rng.randint(0, 23), rng.randint(0, 59), rng.randint(0, 59), rng.choice([us, rng.randrange(10000, 100000)]))
    if kind == "aware-time":
        return _dt.time(rng.randint(0, 23), rng.randint(0, 59), rng.randint(0, 59), us,
                        tzinfo=_dt.timezone(_dt.timedelta(minutes=rng.choice([120, -90, 330, 0]))))
    if kind == "timedelta":
        return _dt.timedelta(days=rng.randint(-400, 400), seconds=rng.randint(0, 86399), microseconds=us)
    if kind == "decimal":
        return decimal.Decimal(rng.choice(["1.10", "0", "-0.000", "1E+3", "12345678901234567890.123456789", str(rng.randrange(10 ** 9))]))
    if kind == "uuid":
        return uuid.UUID(int=rng.getrandbits(128))
    if kind == "fraction":
        return fractions.Fraction(rng.randint(-50, 50), rng.randint(1, 60))
    return bytes(rng.randrange(256) for _ in range(rng.randint(0, 9)))


STD_KINDS = ["naive-datetime", "aware-datetime", "utc-datetime", "date", "time", "aware-time", "timedelta", "decimal", "uuid", "fraction", "bytes"]


def stdlib_scalar_cases(rng, n):
    """property values of the standard-library scalar types the serializer supports out of the box (timestamps with
    and without a zone, dates, times, durations, decimals, UUIDs, fractions, bytes): through every format the new node
    has the same class, id, content_id and a value that is equal, of the same type and -- for timestamps -- with the
    same zone information (naive stays naive, the offset stays the offset)"""
    i = 0
    for _ in range(n):
        for kind in STD_KINDS:
            for fmt in FORMATS:
                i += 1
                gc.collect()
                cls = _std_class(kind)
                v, w = _std_value(rng, kind), _std_value(rng, kind)
                kid = zoo.Leaf(v=rng.randrange(10 ** 6)) if rng.random() < 0.5 else None
                fail = None
                try:
                    n0 = cls(x=v, kid=kid, y=w)
                    want = (n0.id, n0.content_id)
                    payload = serialize(n0, fmt, None)
                    n0.detach()
                    b = deserialize(cls, fmt, payload)
                    if b is n0:
                        fail = "the detached original was returned"
                    elif type(b) is not cls or (b.id, b.content_id) != want:
                        fail = f"class / id / content_id changed: {type(b).__name__} {b.id} {b.content_id} vs {want}"
                    else:
                        for nm, orig in (("x", v), ("y", w)):
                            got = getattr(b, nm)
                            same = type(got) is type(orig) and got == orig and repr(got) == repr(orig)
                            if hasattr(orig, "utcoffset"):
                                same = same and (got.tzinfo is None) == (orig.tzinfo is None) and got.utcoffset() == orig.utcoffset()
                            if not same:
                                fail = f"property {nm}: {got!r} != {orig!r}"
                                break
                        if fail is None and b != n0:
                            fail = "result != original"
                    b.detach()
                    del b, n0
                except Exception as e:  # noqa
                    fail = f"round trip raised {type(e).__name__}: {e}"[:200]
                yield Case(f"roundtrip:std-scalar:{kind}", None, None, True, f"{kind} x={v!r} y={w!r} format={fmt}",
                           oracle_fail=fail, sig=f"roundtrip|std-scalar|{kind}|{fmt}")


_FREE_CLASS: list = []


def _typed_eq(a, b) -> bool:
    """equal values of equal container types, recursively (a list is not a tuple)"""
    if type(a) is not type(b):
        return False
    if isinstance(a, (list, tuple)):
        return len(a) == len(b) and all(_typed_eq(x, y) for x, y in zip(a, b))
    if isinstance(a, dict):
        return list(a) == list(b) and all(_typed_eq(a[k], b[k]) for k in a)
    return a == b


def freeform_cases(rng, n):
    """free-form property values (annotation `Any` / `Mapping[str, Any]`) made of what every one of the four formats writes
    natively -- nested lists and string-keyed dicts of str / int / bool / None: the new node holds equal values of equal
    container types (a list comes back as a list), same class, id, content_id"""
    import dataclasses as _dc
    from typing import Any as _Any, Mapping as _Mapping
    if not _FREE_CLASS:
        ns = {"__annotations__": {"meta": _Any, "table": _Mapping[str, _Any], "note": _Any},
              "meta": None, "table": _dc.field(default_factory=dict), "note": _dc.field(default=None, compare=False),
              "__module__": __name__}
        _FREE_CLASS.append(_dc.dataclass(frozen=True)(type("FreeForm", (zoo.Expr,), ns)))
    cls = _FREE_CLASS[0]

    def val(d=0):
        k = rng.random()
        if d >= 3 or k < 0.35:
            return rng.choice([0, 1, -7, 2 ** 40, "", "a", "é", True, False, None])
        if k < 0.7:
            return [val(d + 1) for _ in range(rng.randint(0, 3))]
        # keys in sorted order: `to_yaml` writes mappings with sorted keys, so a dict whose insertion order is not the
        # sorted one comes back in another order (and with another content_id when the property is comparable) -- mappings
        # are not among the representable kinds the property lists; only order-insensitive shapes are generated
        keys = sorted({rng.choice(["k", "a", "b", "x y", ""]) + str(j) for j in range(rng.randint(0, 3))})
        return {k: val(d + 1) for k in keys}
    for _ in range(n):
        for fmt in FORMATS:
            gc.collect()
            meta, table, note = val(), {f"t{j}": val(1) for j in range(rng.randint(0, 3))}, [val(1), [val(2)]]
            fail = None
            try:
                n0 = cls(meta=meta, table=table, note=note)
                want = (n0.id, n0.content_id)
                payload = serialize(n0, fmt, None)
                n0.detach()
                b = deserialize(cls, fmt, payload)
                if b is n0 or type(b) is not cls or (b.id, b.content_id) != want:
                    fail = f"class / id / content_id changed: {type(b).__name__} {b.id} {b.content_id} vs {want}"
                else:
                    for nm, orig in (("meta", meta), ("table", table), ("note", note)):
                        got = getattr(b, nm)
                        if not _typed_eq(got, orig):
                            fail = f"property {nm}: {got!r} != {orig!r}"
                            break
                b.detach()
                del b, n0
            except Exception as e:  # noqa
                fail = f"round trip raised {type(e).__name__}: {e}"[:200]
            yield Case("roundtrip:free-form", None, None, True, f"FreeForm(meta={meta!r}, table=…, note=…) format={fmt}"[:300],
                       oracle_fail=fail, sig=f"roundtrip|free-form|{fmt}")


def twin_order_cases(rng, n):
    """two distinct but equal nodes inside ONE tree (ids `h` and `h_1`), in either order of appearance, alone or below
    other nodes, round-tripped after the originals left the registry: every position gets back its own id, the two stay
    two objects, and both are registered"""
    for _ in range(n):
        gc.collect()
        v = rng.randrange(10 ** 6)
        first = zoo.Leaf(v=v)            # id h
        second = zoo.Leaf(v=v)           # id h_1
        third = zoo.Leaf(v=v) if rng.random() < 0.4 else None     # id h_2
        order = [second, first] if rng.random() < 0.6 else [first, second]
        if third is not None:
            order.insert(rng.randrange(3), third)
        wrap = rng.choice(["tup", "un", "bin"])
        kids = tuple(zoo.Un(x) if wrap == "un" else x for x in order)
        root = zoo.Bin(kids[0], kids[1]) if wrap == "bin" and len(kids) == 2 else zoo.Tup(kids)
        ids = [x.id for x in order]
        fmt = rng.choice(FORMATS)
        fail = None
        try:
            payload = serialize(root, fmt, None)
            cls = type(root)
            root.detach()
            del root, kids
            back = deserialize(cls, fmt, payload)
            leaves = [i.node for i in back.dfs() if type(i.node) is zoo.Leaf]
            got = [x.id for x in leaves]
            if got != ids:
                fail = f"ids of the equal leaves in order of appearance: {got}, serialized: {ids}"
            elif len({id(x) for x in leaves}) != len(leaves):
                fail = "two distinct equal nodes came back as one object"
            elif any(NODE_REGISTRY.get(x.id) is not x for x in leaves):
                fail = "a deserialized node is not registered under its id"
            elif len([k for k, o in NODE_REGISTRY.items() if any(o is x for x in leaves)]) != len(leaves):
                fail = "a deserialized node is registered under more than one id"
            back.detach()
            del back, leaves
        except Exception as e:  # noqa
            fail = f"round trip raised {type(e).__name__}: {e}"[:200]
        del first, second, third, order
        yield Case("roundtrip:twin-order", None, None, True, f"equal leaves with ids {ids} inside one {wrap} tree, format={fmt}, originals detached",
                   oracle_fail=fail, sig="roundtrip|twin-order")


def cases(rng: random.Random, tier: str):
    yield from twin_order_cases(rng, 12 if tier == "quick" else 200)
    yield from stdlib_scalar_cases(rng, 3 if tier == "quick" else 40)
    yield from freeform_cases(rng, 12 if tier == "quick" else 300)
    n = 60 if tier == "quick" else 1500
    fresh_items, fresh_desc = [], []
    for _ in range(n):
        gc.collect()
        g = zoo.Gen(rng, origins=True, share=0.12)
        g.origin = lambda: rich_origin(rng)
        fresh_src = None
        if rng.random() < 0.4:
            # sources no earlier call has ever seen (every code origin of this tree points into them)
            _FRESH_SRC[0] += 1
            fresh_src = [MemoryTextSource("alpha beta gamma delta", source_uri=f"fresh{_FRESH_SRC[0]}-{i}") for i in range(2)]
            g.origin = lambda: (CodeOrigin(rng.choice(fresh_src), get_code_range(0, 1, 0, rng.randint(0, 9), 1, 9))
                                if rng.random() < 0.7 else rich_origin(rng))
        t0 = g.tree(rng.choice([1, 3, 6, 12, 25]))
        g.pool.clear()
        if rng.random() < 0.5:
            # values that are == to the declared default of their field but not the default itself (1.0 for `int | float = 1`)
            t0 = zoo.Tup((t0, zoo.PropZoo(num=rng.choice([1.0, 1, 2.5]), o=rng.choice([None, 0]), hidden=rng.randint(0, 1),
                                          origin=rich_origin(rng))))
        twins = rng.random() < 0.5
        a = t0.duplicate() if twins else t0      # with twins registered outside, ids carry _1 suffixes
        if not twins:
            t0 = None
        desc0 = zoo.show(a)
        nontriv = zoo.size(a) >= 3
        for fmt in FORMATS:
            opts = {SerializationOption.SORT_KEYS: True} if rng.random() < 0.3 else None
            mode = rng.choice(["all", "none", "some"])
            desc = f"{desc0} format={fmt} sort_keys={bool(opts)} originals={mode} twins={twins}"
            fail = None
            try:
                p0 = None
                if fresh_src is not None or rng.random() < 0.25:
                    if fresh_src is None:
                        p0 = serialize(a, fmt, opts)     # what this very call produces when nothing went on before
                    desc += f" after[{earlier_calls(rng, a)}]"
                payload = serialize(a, fmt, opts)
                if p0 is not None and p0 != payload:
                    raise AssertionError("the payload of the same call differs after an unrelated earlier call")
                snap = snapshot(a)
                nodes = [a] + [c for c, *_ in zoo.positions(a)]
                refs = [weakref.ref(x) for x in nodes]
                if len(fresh_items) < (30 if tier == "quick" else 300) and not twins:
                    fresh_items.append((fmt, type(a).__name__, payload, snap))
                    fresh_desc.append(desc)
                keep = []
                cls = type(a)
                if mode == "all":
                    keep = [a]
                elif mode == "some" and len(nodes) > 1:
                    keep = rng.sample(nodes[1:], min(len(nodes) - 1, rng.randint(1, 3)))
                    # children stored in fields typed as a union of unrelated node classes / fixed tuples
                    typed = [c for c, p, f, i in zoo.positions(a) if type(p) in (zoo.UnionKid, zoo.Fix2)]
                    if typed and rng.random() < 0.7:
                        keep += rng.sample(typed, min(len(typed), 2))
                a_alive = a if mode == "all" else None
                del nodes
                if mode != "all":
                    a2 = a
                    a = None
                    del a2
                gc.collect()
                b = deserialize(cls, fmt, payload)
                fail = check_positions(snap, b, refs)
                if fail is None and a_alive is not None and not (b == a_alive):
                    fail = "result is not == to the (still alive) original"
                if a is None:
                    a = b      # continue with the deserialized tree for the next format
                del keep, b, a_alive, snap, refs
            except Exception as e:  # noqa
                fail = f"round trip raised {type(e).__name__}: {e}"
                if a is None:
                    break
            yield Case(f"roundtrip:{fmt}:{mode}", None, None, nontriv, desc, oracle_fail=fail,
                       sig=f"roundtrip|{fmt}|{(fail or '').split(':')[0][:30]}")
            if a is None:
                break
        del a, t0
    # index-based source serialization, in-process (sources are registered: indexes resolve to the same objects)
    for _ in range(15 if tier == "quick" else 300):
        g = zoo.Gen(rng, origins=True, share=0.1)
        g.origin = lambda: rich_origin(rng)
        a = g.tree(rng.choice([2, 5, 10]))
        g.pool.clear()
        fail = None
        opt = {SOURCE_OPTIMIZED_SERIALIZATION_KEY: True}
        try:
            fmt = rng.choice(FORMATS)
            payload = serialize(a, fmt, opt)
            snap = snapshot(a)
            refs = [weakref.ref(x) for x in [a] + [c for c, *_ in zoo.positions(a)]]
            cls, desc = type(a), zoo.show(a) + f" format={fmt} source_optimized"
            if rng.random() < 0.5:
                a = None
                gc.collect()
            kw = {"serialization_options": opt}
            b = {"dict": cls.as_obj, "json": cls.from_json, "msgpack": cls.from_msgpck, "yaml": cls.from_yaml}[fmt](payload, **kw)
            fail = check_positions(snap, b, refs)
            del b, refs, snap
        except Exception as e:  # noqa
            fail = f"round trip raised {type(e).__name__}: {e}"
        yield Case("roundtrip:source-index", None, None, True, desc, oracle_fail=fail,
                   sig=f"roundtrip|source-index|{(fail or '').split(':')[0][:30]}")
        del a
    # fresh process
    work = VERIF / ".work"
    work.mkdir(exist_ok=True)
    # index-based sources across processes: the sources are serialized separately and loaded first
    srcs = Source.all_as_dict()
    for _ in range(10 if tier == "quick" else 100):
        g = zoo.Gen(rng, origins=True, share=0.0)
        g.origin = lambda: rich_origin(rng)
        a = g.tree(rng.choice([2, 5, 10]))
        g.pool.clear()
        srcs = Source.all_as_dict()
        try:
            payload = serialize(a, "json", {SOURCE_OPTIMIZED_SERIALIZATION_KEY: True})
            fresh_items.append(("idx:json", type(a).__name__, payload, snapshot(a)))
            fresh_desc.append(zoo.show(a) + " format=json source_optimized (sources loaded separately)")
        except Exception:  # noqa
            pass
        del a
    fresh_items = [("sources", "", srcs, None)] + fresh_items
    fresh_desc = ["<sources>"] + fresh_desc
    f = work / f"c04-{os.getpid()}.pkl"
    res = None
    try:
        f.write_bytes(pickle.dumps(fresh_items))
        p = subprocess.run([sys.executable, str(VERIF / "harness" / "rt_worker.py"), str(f)], capture_output=True,
                           text=True, timeout=300)
        if p.returncode == 0:
            res = json.loads(p.stdout.strip().splitlines()[-1])
        err = p.stderr[-400:]
    finally:
        f.unlink(missing_ok=True)
    if res is None:
        yield Case("fresh-process", None, None, True, "worker failed: " + err, oracle_fail="fresh-process worker failed",
                   sig="roundtrip|worker")
    else:
        for d, r in zip(fresh_desc, res):
            yield Case("fresh-process", None, None, True, d + " originals=fresh-process", oracle_fail=r,
                       sig=f"roundtrip|fresh|{(r or '').split(':')[0][:30]}")
    # K1: registry machine histories rich in serialize / as_obj / drop
    for _ in range(40 if tier == "quick" else 1200):
        size = rng.choice([8, 8, 2])
        with Machine(rng, size, profile="serial") as m:
            for _k in range(rng.choice([8, 14, 22])):
                m.random_op()
            line, real = m.request(), m.observation()
            desc = f"ID_DIGEST_SIZE={size}: " + "; ".join(m.descr)
        yield Case("history-model", line, real, True, desc, sig="roundtrip|history-model")
    # origin / source / position codec and the source registry against the Lean model (Model/OriginCodec.lean)
    yield from origin_cases(rng, tier)
    # the property-VALUE codec (how each property value is written to / read from the dict form) against the Lean
    # model (Model/ValueCodec.lean) + the round-trip statement itself on fresh node classes in the four formats
    yield from value_cases(rng, tier)


def extra_coverage():
    return {"value_codec": dict(VC_STATS)}
