"""C04, value half — correspondence cases for the PROPERTY-VALUE codec of serialization
(model: lean/PyOak/Model/ValueCodec.lean, protocol: lean/PyOak/Handle/ValueCodec.lean, theorems: Props/C04Value.lean).

For generated (annotation, value) pairs a FRESH node class with one property field `x` of that annotation is defined at
run time; the model's description of the annotation (`ty`) is derived from the annotation OBJECT the class carries
(`typing.get_args`), never from the generator's own plan (typing caches `Literal[1, True]` / `Literal[True, 1]` as equal).

kinds
  value-codec:enc      `Cls(x=v).as_dict()["x"]`  (canonical J; a frozenset is described in its iteration order)
                                                                                    vs (vc-enc ty V)
  value-codec:dec      the payload fed back through `Cls.as_obj` after the original was detached; the decoded value in
                       canonical form (frozenset elements sorted)                   vs (vc-dec ty J)
  value-codec:dec-alt  `Cls.as_obj` on a payload that another annotation / value produced (coercions, fall-backs,
                       refusals)                                                    vs (vc-dec ty J)
  value-codec:node     the whole `as_dict()` of a class with several property fields, key order preserved
                                                                                    vs (vc-node …)
  value-codec:roundtrip  oracle on the real code: the annotation satisfies the decidable side condition `Ty.rt` of
                       `C04V.dec_enc` and the value conforms (`wt`)  =>  dict / JSON / MessagePack / YAML give back a
                       node with the same class, id, content_id and an equal value of the same type
  value-codec:finding  the value conforms, the annotation does NOT satisfy `Ty.rt`, and the real round trip changes or
                       loses the value (model and real code agree on what comes back): listed in known_findings.json

Where the model answers `unmodelled` (float arithmetic, `int("12")`, `repr` of a float, iteration over a `str`,
non-normalised path texts) nothing is compared; the model is asked first (`run.run_driver`) and those points are
dropped and counted (`STATS`; `unmodelled_welltyped` counts conforming values among them — they all lie outside `Ty.rt`,
e.g. `Literal[5] | str | float` with 0.0; an unmodelled answer INSIDE `Ty.rt` would contradict `C04V.dec_enc` and is
reported).  Floats travel as `float.hex()` tokens; ints stay within 64 bits and floats finite where
the JSON / MessagePack front ends are involved (orjson refuses wider ints and writes inf / nan as null).
"""
from __future__ import annotations

import dataclasses
import enum
import itertools
import math
import random
import typing
from pathlib import Path
from typing import Literal, Optional, Union

from pyoak.node import ASTNode
from pyoak.origin import NO_ORIGIN, CodeOrigin, get_code_range

import run
from proto import A, dumps, loads
from run import Case
import zoo

SIG = "value-codec|"
STATS = {"classes": 0, "pairs": 0, "unmodelled_enc": 0, "unmodelled_dec": 0, "unmodelled_welltyped": 0,
         "rt_wt_pairs": 0, "not_rt_pairs": 0, "ill_typed_pairs": 0, "findings_seen": 0}
NoneType = type(None)


# ----------------------------------------------------------------------------------------- the enum / literal pools

class Shade(enum.Enum):
    DARK = 1
    LIGHT = 2


class Tag(enum.Enum):
    A = "a"
    BC = "b/c"


class Mixed(enum.Enum):
    ZERO = 0
    Q = "q"


class Far(enum.Enum):
    M = 20
    N = 70
    TXT = "far away"


ENUMS = [zoo.Color, Shade, Tag, Mixed, Far]
PRIMS = [int, float, bool, str, NoneType]
LIT_ALTS = [("a", "b"), (1, "1"), (1, True), (True, 1), (None, 0), ("q", 2), (False,), ("x", "far away", 5), (20, "b/c"),
            (0, False), ("é \"q\"", -7)]


def fresh_literal(rng: random.Random):
    return Literal[rng.choice(LIT_ALTS)]      # noqa


def gen_atom(rng: random.Random):
    k = rng.random()
    if k < 0.5:
        return rng.choice(PRIMS[:4]) if rng.random() < 0.9 else NoneType
    if k < 0.7:
        return rng.choice(ENUMS)
    if k < 0.82:
        return Path
    return fresh_literal(rng)


def gen_ann(rng: random.Random, depth: int = 0):
    k = rng.random()
    if depth >= 3 or k < 0.34:
        return gen_atom(rng)
    if k < 0.44:
        inner = gen_ann(rng, depth + 1)
        return Optional[inner]
    if k < 0.7:
        ms = [gen_atom(rng) for _ in range(rng.choice([2, 2, 3, 3, 4]))]
        return Union[tuple(ms)]     # noqa
    if k < 0.81:
        return tuple[gen_ann(rng, depth + 1), ...]
    if k < 0.9:
        n = rng.choice([0, 1, 2, 2, 3])
        if n == 0:
            return tuple[()]
        return tuple[tuple(gen_ann(rng, depth + 1) for _ in range(n))]
    return frozenset[gen_ann(rng, depth + 1)]


# directed annotations: every ambiguity / leak the model knows of, in both member orders, and the plain kinds
def directed_anns():
    C, T = zoo.Color, Tag
    return [
        int, float, bool, str, NoneType, C, T, Mixed, Path, Literal["a", "b"], Literal[1, True], Literal[True, 1],
        Literal[1, "1"], Literal[None, 0],
        Optional[int], Optional[str], Optional[C], Optional[Path], Optional[float], Optional[tuple[int, ...]],
        Optional[Literal[None, 0]],
        int | float, float | int, str | int, int | str, bool | int, int | bool, str | bool | None, int | None | str,
        C | int, int | C, C | bool, bool | C, C | float, float | C, T | str, str | T, C | str, str | C, C | Shade, Shade | C,
        C | Far, Path | str, str | Path, Path | T, T | Path, Path | int, int | Path, str | int | Path, int | str | Path,
        Path | str | int, C | str | int, str | C | int, int | C | str,
        Union[Literal["a"], int], Union[Literal[1], str], Union[str, Literal[1]], Union[Literal[1], bool],
        Union[bool, Literal[1]], Union[Literal[True], int], Union[int, Literal[True]], Union[Literal["a", "b"], T],
        Union[T, Literal["a", "b"]], Union[Literal[1, "1"], Literal[True, "x"]], Union[Literal["b/c"], Path],
        Union[Path, Literal["b/c"]], Union[Literal[1], float], Union[float, Literal["1"]], Union[Literal[None, 0], str],
        Union[Mixed, Literal["q", 2], None],
        tuple[int, ...], tuple[str, ...], tuple[float, ...], tuple[C, ...], tuple[Path, ...], tuple[int, str], tuple[()],
        tuple[Optional[int], ...], tuple[int | str, ...], tuple[C | int, ...], tuple[tuple[int, str], ...],
        tuple[frozenset[str], ...], tuple[Literal["a"], int], tuple[C, Path, float],
        frozenset[int], frozenset[str], frozenset[C], frozenset[frozenset[int]], frozenset[tuple[int, int]],
        frozenset[Optional[int]], frozenset[Path], frozenset[str | int], frozenset[Path | str],
        Optional[frozenset[tuple[str, ...]]], tuple[Optional[frozenset[int]], Optional[Path]],
    ]


# ----------------------------------------------------------------------------------------- annotation -> model `ty`

def enc_sc(v):
    if v is None:
        return A("null")
    if type(v) is bool:
        return [A("b"), v]
    if type(v) is int:
        return [A("i"), A(str(v))]
    if type(v) is float:
        return [A("f"), v.hex()]
    if type(v) is str:
        return [A("s"), v]
    return None


def atom_ty(a):
    if a is int:
        return A("int")
    if a is float:
        return A("float")
    if a is bool:
        return A("bool")
    if a is str:
        return A("str")
    if a is NoneType or a is None:
        return A("none")
    if a is Path:
        return A("path")
    if isinstance(a, type) and issubclass(a, enum.Enum):
        ms = [[m.name, enc_sc(m.value)] for m in a]
        if any(x[1] is None for x in ms):
            return None
        return [A("enum"), a.__name__] + ms
    if typing.get_origin(a) is Literal:
        alts = [enc_sc(x) for x in typing.get_args(a)]
        if any(x is None for x in alts):
            return None
        return [A("lit")] + alts
    return None


def ann_ty(ann):
    """the model's description of the annotation object (None: outside the modelled universe)"""
    org = typing.get_origin(ann)
    args = typing.get_args(ann)
    if org is Union or (org is not None and org.__name__ == "UnionType"):
        if len(args) == 2 and NoneType in args:
            inner = ann_ty(args[0] if args[1] is NoneType else args[1])
            return None if inner is None else [A("opt"), inner]
        ms = [atom_ty(a) for a in args]
        return None if any(m is None for m in ms) else [A("union")] + ms
    if org is tuple:
        if len(args) == 2 and args[1] is Ellipsis:
            inner = ann_ty(args[0])
            return None if inner is None else [A("tvar"), inner]
        ts = [ann_ty(a) for a in args]
        return None if any(t is None for t in ts) else [A("tfix")] + ts
    if org is frozenset:
        inner = ann_ty(args[0])
        return None if inner is None else [A("fset"), inner]
    return atom_ty(ann)


# ----------------------------------------------------------------------------------------- canonical values / payloads

def enc_v(v, answer: bool):
    """request form: a frozenset in iteration order; answer form: its elements sorted by rendering, duplicates dropped"""
    s = enc_sc(v)
    if s is not None:
        return s
    if isinstance(v, enum.Enum):
        val = enc_sc(v.value)
        return [A("e"), type(v).__name__, v.name, val if val is not None else A("unknown-enum-value")]
    if isinstance(v, Path):
        return [A("p"), v.as_posix()]
    if type(v) is tuple:
        return [A("t")] + [enc_v(x, answer) for x in v]
    if type(v) is frozenset:
        items = [enc_v(x, answer) for x in v]
        if answer:
            keyed = sorted(((dumps(x), x) for x in items), key=lambda p: p[0])
            items = [x for i, (k, x) in enumerate(keyed) if i == 0 or keyed[i - 1][0] != k]
        return [A("fs")] + items
    return [A("unknown-value"), type(v).__name__]


def enc_j(p):
    s = enc_sc(p)
    if s is not None:
        return s
    if type(p) is list:
        return [A("l")] + [enc_j(x) for x in p]
    if type(p) is dict:
        return [A("m")] + [[str(k), enc_j(x)] for k, x in p.items()]
    return [A("py"), enc_v(p, True)]


def json_like(p) -> bool:
    if p is None or type(p) in (bool, int, float, str):
        return True
    if type(p) is list:
        return all(json_like(x) for x in p)
    if type(p) is dict:
        return all(type(k) is str and json_like(x) for k, x in p.items())
    return False


# ----------------------------------------------------------------------------------------- values

INTS = [0, 1, 2, -1, 5, 7, 20, 70, -7, 2 ** 63 - 1, -(2 ** 63), 10 ** 12]
FLOATS = [0.0, 1.0, 2.0, 2.5, -1.5, -0.0, 1e300, 5e-324, 0.1, 20.0]
STRS = ["", "a", "b", "b/c", "1", "q", "x", "far away", "True", "None", ".", "/x", "a/../b", "é \"q\"\\ \n\t", "中\U0001F600",
        "dir/with space", "a/", "./a", "a//b", "0x1.0p+0", "null", "~", "123", "[1]"]
PATHS = ["a", "b/c", ".", "/x", "q", "a/../b", "far away", "/", "1", "é/中", "..", "b"]


def gen_atom_value(a, rng: random.Random):
    if a is int:
        return rng.choice(INTS) if rng.random() < 0.8 else rng.randint(-100, 100)
    if a is float:
        return rng.choice(FLOATS) if rng.random() < 0.8 else rng.uniform(-1e6, 1e6)
    if a is bool:
        return rng.random() < 0.5
    if a is str:
        return rng.choice(STRS)
    if a is NoneType or a is None:
        return None
    if a is Path:
        return Path(rng.choice(PATHS))
    if isinstance(a, type) and issubclass(a, enum.Enum):
        return rng.choice(list(a))
    if typing.get_origin(a) is Literal:
        return rng.choice(typing.get_args(a))
    raise ValueError(a)


def hashable(v) -> bool:
    try:
        hash(v)
        return True
    except TypeError:
        return False


def gen_value(ann, rng: random.Random, p_ill: float = 0.0):
    """a value of the annotation; with probability `p_ill` (at every level) a value of some OTHER shape"""
    if rng.random() < p_ill:
        return rng.choice([None, True, 1, 0, 2.5, "a", "b/c", "", Path("a"), zoo.Color.RED, Tag.A, (), (1,), ("a", 2),
                           (1, "a", 2.0), frozenset([1]), frozenset()])
    org = typing.get_origin(ann)
    args = typing.get_args(ann)
    if org is Union or (org is not None and org.__name__ == "UnionType"):
        return gen_value(rng.choice(args), rng, p_ill)
    if org is tuple:
        if len(args) == 2 and args[1] is Ellipsis:
            return tuple(gen_value(args[0], rng, p_ill) for _ in range(rng.choice([0, 1, 2, 3])))
        return tuple(gen_value(a, rng, p_ill) for a in args)
    if org is frozenset:
        return frozenset(gen_value(args[0], rng, p_ill) for _ in range(rng.choice([0, 1, 2, 3, 4])))
    return gen_atom_value(ann, rng)


ALT_PAYLOADS = [None, True, False, 0, 1, 2, 20, -7, 2.5, 1.0, "", "a", "b/c", "1", "q", "far away", "a//b", [], [1], [1, "a"],
                ["a"], [[1, 2]], [None, 1], [True], {}, {"k": 1}, [1, 2, 3], ["b/c", "a"], [2.5], [[]], [["a", "b"], []]]


# ----------------------------------------------------------------------------------------- the real operations

_cnt = itertools.count()


def make_class(fields):
    """fields: [(name, annotation)] — a fresh frozen node class (unique name: pyoak keeps a table of class names)"""
    STATS["classes"] += 1
    return dataclasses.make_dataclass(f"VCGen{next(_cnt)}", list(fields), bases=(ASTNode,), frozen=True)


def val_eq(v, w) -> bool:
    """equal values of equal types, structurally; floats by their token (so that -0.0 and nan are told apart)"""
    if type(v) is float and type(w) is float:
        return v.hex() == w.hex()
    if isinstance(v, Path) and isinstance(w, Path):
        return v == w
    if type(v) is not type(w):
        return False
    if isinstance(v, tuple):
        return len(v) == len(w) and all(val_eq(a, b) for a, b in zip(v, w))
    if isinstance(v, frozenset):
        return dumps(enc_v(v, True)) == dumps(enc_v(w, True))
    return v == w


def real_enc(node):
    try:
        d = node.as_dict()
    except Exception:  # noqa
        return None
    return d


def real_dec(cls, d):
    try:
        return ("ok", cls.as_obj(d))
    except Exception as e:  # noqa
        return ("raise", e)


def finite(v) -> bool:
    if type(v) is float:
        return math.isfinite(v)
    if type(v) in (tuple, frozenset):
        return all(finite(x) for x in v)
    return True


FORMATS = [("dict", lambda n: n.as_dict(), lambda c, p: c.as_obj(p)),
           ("json", lambda n: n.to_json(), lambda c, p: c.from_json(p)),
           ("msgpack", lambda n: n.to_msgpck(), lambda c, p: c.from_msgpck(p)),
           ("yaml", lambda n: n.to_yaml(), lambda c, p: c.from_yaml(p))]


def roundtrip_fail(cls, v) -> str | None:
    """the C04 statement on the real code, for one property value, in the four formats (original detached first)"""
    for fmt, ser, de in FORMATS:
        n = cls(v)
        nid, cid = n.id, n.content_id
        try:
            p = ser(n)
        except Exception as e:  # noqa
            n.detach()
            return f"{fmt}: serialization raised {type(e).__name__}"
        n.detach()
        del n
        try:
            m = de(cls, p)
        except Exception as e:  # noqa
            return f"{fmt}: deserialization raised {type(e).__name__}"
        try:
            if type(m) is not cls:
                return f"{fmt}: class {type(m).__name__}"
            if not val_eq(m.x, v):
                return f"{fmt}: value {m.x!r} came back for {v!r}"
            if m.id != nid or m.content_id != cid:
                return f"{fmt}: id / content_id differ"
        finally:
            m.detach()
    return None


def finding_sig(ty_text: str, leak: bool) -> str:
    if leak:
        return SIG + "union-unserialized"
    if "(union " in ty_text:
        return SIG + "union-capture"
    return SIG + "literal-bool-int"


# ----------------------------------------------------------------------------------------- cases

def ask(lines):
    """the model's answers (asked BEFORE the cases are handed to the runner, to drop the unmodelled points)"""
    return [loads(x) for x in run.run_driver(lines)]


def pair_cases(plan):
    """plan: list of (annotation, class, ty sexp, value, directed?)"""
    enc_lines = [dumps([A("vc-enc"), ty, enc_v(v, False)]) for _, _, ty, v, _ in plan]
    enc_ans = ask(enc_lines)
    second = []      # (plan index, payload dict, dec request)
    out: list[Case] = []
    for i, ((ann, cls, ty, v, _d), line, ans) in enumerate(zip(plan, enc_lines, enc_ans)):
        STATS["pairs"] += 1
        head = str(ans[0])
        flags = {str(x[0]): str(x[1]) == "true" for x in ans[1:] if isinstance(x, list) and len(x) == 2
                 and str(x[0]) in ("rt", "wt", "json")}
        rt, wt = flags.get("rt", False), flags.get("wt", False)
        ty_text = dumps(ty)
        desc = f"annotation {ann!r} value {v!r}"
        try:
            node = cls(v)
        except Exception as e:  # noqa  (construction is not the subject here)
            continue
        d = real_enc(node)
        node.detach()
        del node
        if head == "unmodelled":
            STATS["unmodelled_enc"] += 1
            if wt:
                STATS["unmodelled_welltyped"] += 1      # e.g. `Literal[5] | str | float` with 0.0: `0.0 == 5` is float arithmetic
            if wt and rt:
                # excluded by C04V.dec_enc: can only mean that the driver and the proved model have drifted apart
                out.append(Case("value-codec:enc", None, None, True, desc, sig=SIG + "unmodelled-inside-rt",
                                oracle_fail="the model has no answer although Ty.rt and wt hold (contradicts C04V.dec_enc)"))
            continue
        fl = [[A("rt"), rt], [A("wt"), wt]]
        if d is None:
            real = [A("raise")] + fl
        else:
            real = [A("ok"), enc_j(d["x"])] + fl + [[A("json"), json_like(d["x"])]]
        out.append(Case("value-codec:enc", line, dumps(real), True, desc + f" ty={ty_text}", sig=SIG + "enc"))
        if wt and rt:
            STATS["rt_wt_pairs"] += 1
        elif wt:
            STATS["not_rt_pairs"] += 1
        else:
            STATS["ill_typed_pairs"] += 1
        if d is not None:
            second.append((i, d, dumps([A("vc-dec"), ty, enc_j(d["x"])])))
        # the statement itself on the real code
        if wt and rt and finite(v):
            fail = roundtrip_fail(cls, v)
            out.append(Case("value-codec:roundtrip", None, None, True, desc + f" ty={ty_text} (Ty.rt and wt hold)",
                            oracle_fail=fail, sig=SIG + "roundtrip|" + (fail or "").split(":")[0]))
        elif wt and not rt and finite(v):
            fail = roundtrip_fail(cls, v)
            if fail is not None:
                STATS["findings_seen"] += 1
                leak = d is not None and not json_like(d["x"])
                out.append(Case("value-codec:finding", None, None, True,
                                desc + f" ty={ty_text} (conforming value, annotation outside Ty.rt)",
                                oracle_fail=fail, sig=finding_sig(ty_text, leak)))
    dec_ans = ask([l for _, _, l in second])
    for (i, d, line), ans in zip(second, dec_ans):
        ann, cls, ty, v, _d = plan[i]
        if str(ans[0]) == "unmodelled":
            STATS["unmodelled_dec"] += 1
            continue
        st, r = real_dec(cls, d)
        if st == "ok":
            real = [A("ok"), enc_v(r.x, True)]
            r.detach()
        else:
            real = [A("raise")]
        out.append(Case("value-codec:dec", line, dumps(real), True,
                        f"annotation {ann!r} payload {d['x']!r} (written for {v!r})", sig=SIG + "dec"))
    return out


def alt_cases(rng, plan, per_class: int):
    """payloads the annotation's own packer would not have written"""
    reqs = []
    seen_cls = set()
    for ann, cls, ty, v, _d in plan:
        if id(cls) in seen_cls:
            continue
        seen_cls.add(id(cls))
        for _ in range(per_class):
            p = rng.choice(ALT_PAYLOADS)
            reqs.append((ann, cls, p, dumps([A("vc-dec"), ty, enc_j(p)])))
    out = []
    for (ann, cls, p, line), ans in zip(reqs, ask([r[3] for r in reqs])):
        if str(ans[0]) == "unmodelled":
            STATS["unmodelled_dec"] += 1
            continue
        base = {"__type": cls.__name__, "id": f"vc-alt-{next(_cnt)}", "content_id": "0", "origin": {}, "x": p}
        st, r = real_dec(cls, base)
        if st == "ok":
            real = [A("ok"), enc_v(r.x, True)]
            r.detach()
        else:
            real = [A("raise")]
        out.append(Case("value-codec:dec-alt", line, dumps(real), True, f"annotation {ann!r} foreign payload {p!r}",
                        sig=SIG + "dec-alt"))
    return out


_SRC = zoo._SRC


def node_cases(rng, n: int):
    """field layout of a whole node: several property fields, both origins"""
    plans = []
    for _ in range(n):
        k = rng.choice([1, 2, 3, 4])
        names = rng.sample(["x", "a", "zz", "B", "_p", "Id", "value", "kind", "n1"], k)
        anns = [gen_ann(rng, 1) for _ in range(k)]
        tys = [ann_ty(a) for a in anns]
        if any(t is None for t in tys):
            continue
        cls = make_class(list(zip(names, anns)))
        vals = [gen_value(a, rng) for a in anns]
        origin = NO_ORIGIN if rng.random() < 0.5 else CodeOrigin(rng.choice(_SRC), get_code_range(0, 1, 0, 3, 1, 3))
        try:
            node = cls(*vals, origin=origin)
            d = node.as_dict()
        except Exception:  # noqa
            continue
        node.detach()
        line = dumps([A("vc-node"), cls.__name__, d["id"], d["content_id"], enc_j(d["origin"])]
                     + [[nm, t, enc_v(v, False)] for nm, t, v in zip(names, tys, vals)])
        plans.append((line, dumps([A("ok"), enc_j(d)]),
                      f"{cls.__name__}(" + ", ".join(f"{nm}: {a!r} = {v!r}" for nm, a, v in zip(names, anns, vals)) + ")"))
    out = []
    for (line, real, desc), ans in zip(plans, ask([p[0] for p in plans])):
        if str(ans[0]) == "unmodelled":
            STATS["unmodelled_enc"] += 1
            continue
        out.append(Case("value-codec:node", line, real, True, desc, sig=SIG + "node"))
    return out


def value_cases(rng: random.Random, tier: str):
    quick = tier == "quick"
    plan = []
    # 1. directed annotations, several conforming values each (and a few of another shape)
    for ann in directed_anns():
        ty = ann_ty(ann)
        if ty is None:
            continue
        cls = make_class([("x", ann)])
        for k in range(4 if quick else 10):
            plan.append((ann, cls, ty, gen_value(ann, rng, 0.0 if k < 3 else 0.25), True))
    # 2. generated annotations
    for _ in range(170 if quick else 2500):
        try:
            ann = gen_ann(rng)
        except TypeError:
            continue
        ty = ann_ty(ann)
        if ty is None:
            continue
        cls = make_class([("x", ann)])
        for k in range(3 if quick else 5):
            try:
                v = gen_value(ann, rng, 0.0 if k < 2 else 0.2)
            except TypeError:      # an unhashable ill-shaped element for a frozenset
                continue
            plan.append((ann, cls, ty, v, False))
    yield from pair_cases(plan)
    yield from alt_cases(rng, plan, 1 if quick else 3)
    yield from node_cases(rng, 40 if quick else 600)
