"""C17 — text is compiled or rejected with the definition error.

For every generated text the outcome class of each entry point of the real code
  ASTXpath(text);  validate_pattern / NodeMatcher.from_pattern (cold, cached) / MultiPatternMatcher
is observed as  ok + behaviour on a fixed battery of probe trees | DefinitionError | OTHER(exception class)
and compared with the Lean model (`compilePattern`, `parseXPath`); in-process oracles check that the
pattern entry points agree, that a second compilation behaves the same, that two white-space renderings
of one token sequence behave the same and that well-formed grammar-derived texts are accepted."""
from __future__ import annotations

import random
import re
import string

import pyoak.match.pattern as pm
import pyoak.match.xpath as px
from pyoak.match.error import ASTPatternDefinitionError, ASTXpathDefinitionError
from pyoak.match.pattern import MultiPatternMatcher, NodeMatcher, validate_pattern
from pyoak.match.xpath import ASTXpath
from pyoak.node import ASTNode
from pyoak.origin import CodeOrigin, get_code_range
from pyoak.tree import Tree

from proto import A, dumps
from run import Case
import zoo
from props import c08 as P8
import zoo_c08
from props import c07 as P7

PROPERTY = "C17"
LEAN_MODULE = "PyOak.Props.C17All"
THEOREMS = ["PyOak.C17." + t for t in [
    "compile_total", "accepts_wellformed", "pat_accept",
    "parse_render", "pattern_accepts_rendering", "pattern_ws_irrelevant", "pat_parse", "pat_size", "scanStr_body",
    "lexCName_tok", "lexKey_tok", "parseClassSpec_cls",
    "xpath_accepts_rendering", "xpath_relative", "xpath_ws_irrelevant", "xlex_render", "parseSteps_path", "parseStepBody_body", "xwalk_some",
]]
# Props/C17Reject.lean (after AUDIT.md): the REJECTION half — accepted <=> well-formed <=> the four clauses of the
# statement; the cause of each interpreter error; no "Unexpected error" for any syntax tree / any text; every
# rendering of an ill-formed derivation is rejected with the definition error; an accepted xpath is usable
THEOREMS += ["PyOak.C17." + t for t in [
    "accepts_iff_wf", "compilePat_ok_iff_wf", "rejects_illformed", "compile_err_cause", "compile_no_runtime",
    "wf_iff_clauses", "accepts_iff_clauses", "pattern_rendering_accepted_iff", "pattern_rejects_illformed",
    "compilePattern_no_runtime", "compilePattern_trichotomy", "parseXPath_nonempty", "xwalk_no_indexError",
    "parseXPath_none_cause", "xpath_unknown_class_rejected",
]]
# Props/C17PatternSound.lean, C17XPathSound.lean, C17Legacy.lean: parser SOUNDNESS (accepted text IS a sentence of the
# grammar and the tree / element list returned is that sentence's), hence accepted <=> rendering, unambiguity, and the exact
# three-way classification of arbitrary pattern text; the same for the xpath grammar (any digit string, any number of empty
# steps, relative texts) with the documented reading `denote`; the legacy constructor accepts the same texts
THEOREMS += ["PyOak.C17." + t for t in [
    "parse_sound", "parse_complete", "parsePattern_iff", "parsePattern_none_iff", "renders_unique", "render_inj_strip",
    "compilePattern_ok_iff", "compilePattern_ok_matcher", "compilePattern_syntax_iff", "compilePattern_interp_iff",
    "compilePattern_decides", "renders_same_compile", "parseTree_sound",
    "xlex_sound", "parseStepBody_eq", "parseStepBody_sound", "parseSteps_sound", "xwalk_denote",
    "xparse_sound", "xparse_complete", "parseXPath_iff", "parseXPath_none_iff", "parseXPath_accepts_iff",
    "xrenders_unique", "pathText_unique", "pathToks_inj", "xrenders_relative", "xrenders_nonempty", "denoteFrom_empty", "denoteFrom_step",
    "digitsVal_snoc", "digitsVal_leading_zeros", "digits_canonical", "digitsVal_eq_iff", "idxVal_padded",
    "lparseSteps_sound", "lparseSteps_path", "lparse_sound", "lparse_complete", "lparse_accepts_iff",
    "legacy_accepts_iff_successor", "legacy_and_successor_same_path",
]]
PARTIAL = ["totality of the *Python* entry points (no other exception escapes, validate_pattern / from_pattern / "
           "MultiPatternMatcher agree, a second compilation behaves the same) is a fact about Python exception flow and "
           "caches: decided by the correspondence; the theorem compile_total is about the model's total functions"]
RULE = ("texts: (a) grammar-derived well-formed patterns / xpaths rendered with random white space between tokens "
        "(two renderings each), (b) single-token mutations of them (deleted, duplicated, swapped, replaced token), "
        "(c) unknown and non-node class names, (d) random token sequences and random strings over the grammars' "
        "alphabet (letters, digits, _, the punctuation of both grammars, the five WS characters, double quote and backslash; "
        "non-ASCII only inside quoted strings), (e) pairs of accepted texts that differ only by a white-space run inside a quoted "
        "regex, each observed right after the other (and a re-spacing of it) was compiled, (f) grammatical patterns whose regex does "
        "not compile, (g) order-of-definition histories: xpath and pattern texts naming a class that does not exist yet "
        "(rejected), then the class is defined (fresh frozen dataclass deriving from zoo.Leaf) and the same and new texts "
        "must be accepted and behave per model (class table with the new class); every iteration runs under one of the "
        "configurations plain / library loggers at DEBUG / pyoak.config.TRACE_LOGGING / both (outcomes must not change); outcome class + behaviour on 9 probe trees for every entry point; "
        "non-trivial = text longer than 3 characters; distinct by text")
TRUSTED = ["lark LALR engine + contextual lexer re-modelled by hand-written recursive-descent parsers",
           "re.compile success is an input of the model (list of the quoted strings of the text that do not compile)",
           "'no other exception escapes' and the agreement of the entry points are facts about Python exception flow: "
           "decided by the correspondence (outcome classes), not by a theorem"]
ASSUMPTIONS = ["arguments are str; no class is re-declared between two compilations; white space only between tokens "
               "and after the last one (a leading blank makes an xpath relative by `startswith('/')`)"]
BUDGET = {"quick": 240, "thorough": 2400}

ASCII_ALNUM = set(string.ascii_letters + string.digits)
_ESC = re.compile(r'".*?(?<!\\)(\\\\)*?"')


def rx_supported(s: str) -> bool:
    """is the regex inside the sub-language the model driver implements?"""
    i = 0
    n = len(s)
    while i < n:
        c = s[i]
        eol = False
        if c == "\\":
            if i + 1 >= n:
                return False
            d = s[i + 1]
            if d != "d" and d in ASCII_ALNUM:
                return False
            i += 2
        elif c == "$":
            eol = True
            i += 1
        elif c in "^*+?{}[]|()":
            return False
        else:
            i += 1
        if i < n and s[i] == "*":
            if eol:
                return False
            i += 1
    return True


def quoted(text: str) -> list[str]:
    return [m.group()[1:-1] for m in _ESC.finditer(text)]


def rx_bad(text: str) -> list[str]:
    out = []
    for c in quoted(text):
        try:
            re.compile(c)
        except Exception:  # noqa
            if c not in out:
                out.append(c)
    return out


# ------------------------------------------------------------------ probes

_SRC2 = zoo.MemoryTextSource("probe text", source_uri="probe")


def make_probes():
    L = zoo.Leaf
    o2 = CodeOrigin(_SRC2, get_code_range(0, 1, 0, 2, 1, 2))
    return [
        L(v=1, s="ab", flag=True),
        zoo.Tup((L(v=1), L(v=2), L(v=1, origin=o2))),
        zoo.Bin(L(v=1), L(v=1, origin=o2)),
        zoo.Opt(None),
        zoo.Mixed(zoo.Un(L(v=3, s="x.y")), (zoo.Leaf2(v=0, s="None", extra=("a", "b")), zoo.Tup(())), None, name="n(1)"),
        zoo.PropZoo(t=(1, 2), o=None),
        zoo.Names(child=L(v=7), root=None, items=(L(v=7, origin=o2),)),
        zoo.Two(a="return  x", b="return x"),
        L(v=2, s="a \tb  c"),
    ]


class PSet:
    """a battery of probe trees with its encoding and the class table sent to the model"""

    def __init__(self, probes, extra_rows=(), xprobe=0):
        self.probes = probes
        self.ptok = []
        self.penc = []
        orgs = zoo.OrgTable()
        for p in probes:
            t = zoo.Tokens()
            self.penc.append(zoo.enc_tree(p, t, orgs))
            self.ptok.append(t)
        self.env = [zoo.class_table() + [list(r) for r in extra_rows], orgs.sexp(), [A("nonnode")] + P8.NONNODE]
        self.xi = xprobe
        self.xprobe = probes[xprobe]
        self.xnodes = [self.xprobe] + [c for (c, p, f, i) in zoo.positions(self.xprobe)]


PROBES = make_probes()
DEFAULT = PSet(PROBES, xprobe=4)
_PTOK = DEFAULT.ptok
_PENC = DEFAULT.penc
ENV = DEFAULT.env


def behaviour(match_fn, ps=None):
    ps = ps or DEFAULT
    out = []
    for i, p in enumerate(ps.probes):
        try:
            ok, caps = match_fn(p)
            out.append([A("ok"), bool(ok), P8.caps_sx(ps.ptok[i], caps)])
        except ASTPatternDefinitionError:
            out.append([A("raise"), A("ASTPatternDefinitionError")])
        except Exception as e:  # noqa
            out.append([A("raise"), A(type(e).__name__)])
    return out


REJECT = dumps([A("raise"), A("ASTPatternDefinitionError")])


def observe_pattern(text: str, probes: bool, pre: tuple = (), ps=None, cfg: str = "plain", keep_cache: bool = False):
    """canonical outcome per entry point; `pre`: texts compiled (and cached) just before; `cfg`: logging / tracing
    configuration under which everything runs (must not matter)"""
    with zoo_c08.configured(cfg):
        return _observe_pattern(text, probes, pre, ps or DEFAULT, keep_cache)


def _observe_pattern(text, probes, pre, ps, keep_cache=False):
    outs = {}
    try:
        ok, _ = validate_pattern(text)
        outs["validate"] = "ok" if ok else REJECT
    except Exception as e:  # noqa
        outs["validate"] = f"OTHER({type(e).__name__})"
    if not keep_cache:      # keep_cache: whatever earlier compilations of this very text left behind stays
        pm._MATCHER_CACHE.clear()
    for t in pre:
        NodeMatcher.from_pattern(t)
    for key in ("cold", "cached"):
        try:
            m, _ = NodeMatcher.from_pattern(text)
            if m is None:
                outs[key] = REJECT
            else:
                outs[key] = dumps([A("ok")] + (behaviour(m.match, ps) if probes else []))
        except Exception as e:  # noqa
            outs[key] = f"OTHER({type(e).__name__})"
    try:
        mm = MultiPatternMatcher([("r", text)])

        def via_multi(p):
            r = mm.match(p)
            return (False, {}) if r is None else (True, r[1])

        outs["multi"] = dumps([A("ok")] + (behaviour(via_multi, ps) if probes else []))
    except ASTPatternDefinitionError:
        outs["multi"] = REJECT
    except Exception as e:  # noqa
        outs["multi"] = f"OTHER({type(e).__name__})"
    return outs


_STR_FIELDS = "s|tag|name|lit|a|b"
_RE_ON_NODE = re.compile(r"@\s*(?:items|pair|left|right|arg|c|z|a|child|root|extra|t|tf)\s*=\s*\"\"")
_RE_IN_SEQ = re.compile(r"\[[^\]]*\"\"")
_FLOAT_FIELD = re.compile(r"@\s*fl(?![A-Za-z0-9_])")
# a NON-EMPTY bracketed sequence against a str value is a don't-care point; `[]` is not (only the empty tuple)
_SEQ_ON_STR = re.compile(r"@\s*(?:" + _STR_FIELDS + r")\s*=\s*\[(?!\s*\])")


def pattern_case(text: str, kind: str, expect_accept: bool | None = None, pre: tuple = (), ps=None, cfg: str = "plain",
                 keep_cache: bool = False):
    ps = ps or DEFAULT
    qs = quoted(text)
    probes = all(rx_supported(c) for c in qs)
    bare = _ESC.sub('""', text)
    if _SEQ_ON_STR.search(bare):
        probes = False      # C08 don't-care point: a bracketed sequence against a str value
    if _RE_ON_NODE.search(bare) or _RE_IN_SEQ.search(bare):
        probes = False      # C08 don't-care point: a regex against a node- or tuple-valued field / sequence element
    if "$" in bare and _FLOAT_FIELD.search(bare):
        probes = False      # outside the value model: a float compared with a non-float by a $variable (0.0 == 0)
    outs = observe_pattern(text, probes, pre, ps, cfg, keep_cache)
    real = outs["cold"]
    oracle = None
    sig = "pattern|model"
    others = [k for k, v in outs.items() if v.startswith("OTHER")]
    if others:
        oracle = f"an exception other than the definition error escapes: {outs}"
        sig = "pattern|other-exception"
    else:
        acc = {k: (v != REJECT) for k, v in outs.items()}
        if len(set(acc.values())) != 1:
            oracle = f"entry points disagree on acceptance: {acc}"
            sig = "pattern|entry-points"
        elif outs["cached"] != outs["cold"] or outs["multi"] != outs["cold"]:
            oracle = f"recompilation / other entry point behaves differently: {outs}"
            sig = "pattern|recompile"
        elif expect_accept and real == REJECT:
            oracle = "a well-formed grammar-derived pattern is rejected"
            sig = "pattern|accept"
        elif expect_accept is False and real != REJECT:
            oracle = "a pattern with an unknown / non-node class, a repeated capture name or an unbound variable is accepted"
            sig = "pattern|reject"
    line = dumps([A("pcompile")] + ps.env + [[A("rxbad")] + rx_bad(text), [A("text"), text],
                                           [A("probes")] + (ps.penc if probes else [])])
    d = (f"pattern text={text!r}" + (f" compiled right after {list(pre)!r}" if pre else "")
         + ("" if cfg == "plain" else f" [config: {cfg}]"))
    return Case(kind, line, real, len(text) > 3, d, oracle_fail=oracle, sig=sig), real


def _els(xp):
    return [[e.ast_class.__name__, e.parent_field, e.parent_index, e.anywhere] for e in xp._elements_reversed]


XREJECT = dumps([A("raise"), A("ASTXpathDefinitionError")])


def observe_xpath(text: str, ps=None, cfg: str = "plain"):
    ps = ps or DEFAULT
    with zoo_c08.configured(cfg):
        try:
            xp = ASTXpath(text)
        except ASTXpathDefinitionError:
            return XREJECT
        except Exception as e:  # noqa
            return f"OTHER({type(e).__name__})"
        try:
            xt = ps.ptok[ps.xi]
            found = list(xp.findall(ps.xprobe))
            first = ps.xprobe.find(xp)
            tree = Tree(ps.xprobe)
            ms = [[xt.tok(n), xp.match(tree, n)] for n in ps.xnodes]
            return dumps([A("ok"), _els(xp), [xt.tok(n) for n in found], xt.tok(first) if first is not None else None, ms])
        except Exception as e:  # noqa
            return f"OTHER-USE({type(e).__name__})"


def xpath_case(text: str, kind: str, ps=None, cfg: str = "plain", forget: bool = True):
    ps = ps or DEFAULT
    if forget:
        px._AST_XPATH_CACHE.pop(text, None)
    real = observe_xpath(text, ps, cfg)
    again = observe_xpath(text, ps, cfg)
    oracle = None
    sig = "xpath|model"
    if real.startswith("OTHER"):
        oracle = f"ASTXpath: {real}"
        sig = "xpath|other-exception"
    elif again != real:
        oracle = f"second construction differs: {real} / {again}"
        sig = "xpath|recompile"
    line = dumps([A("xpath")] + ps.env[:2] + [[A("text"), text], [A("tree"), ps.penc[ps.xi]]])
    d = f"xpath text={text!r}" + ("" if cfg == "plain" else f" [config: {cfg}]")
    return Case(kind, line, real, len(text) > 3, d, oracle_fail=oracle, sig=sig), real


# ------------------------------------------------------------------ classes defined between two compilations

_DYN = [0]
_DYN_NS = {"dataclass": __import__("dataclasses").dataclass, "Leaf": zoo.Leaf, "__name__": "c17_dynamic_classes"}


def dyn_class_cases(rng, cfg):
    """texts naming a class that does not exist yet are rejected; once the class is defined (a fresh frozen
    dataclass deriving from zoo.Leaf) the very same texts, and new ones, are accepted and behave per model"""
    _DYN[0] += 1
    name = f"Dyn{_DYN[0]}C{rng.randrange(10 ** 6)}"
    xtexts = [f"/{name}", f"//{name}", f"/Tup/@items[0]{name}", f"//@items {name}"]
    ptexts = [f"({name})", f'({name} @v="1" -> k)', f"(Leaf2|{name})", f"(Tup @items=[({name}) -> a *])"]
    rng.shuffle(xtexts)
    rng.shuffle(ptexts)
    before_x, before_p = xtexts[:2], ptexts[:2]
    for t in before_x:
        c, _ = xpath_case(t, "xpath_before_class", cfg=cfg)
        c.desc += f" (class {name} not defined yet)"
        yield c
    for t in before_p:
        c, _ = pattern_case(t, "pattern_before_class", expect_accept=False, cfg=cfg)
        c.desc += f" (class {name} not defined yet)"
        yield c
    exec(f"@dataclass(frozen=True)\nclass {name}(Leaf):\n    pass\n", _DYN_NS)
    cls = _DYN_NS[name]
    zoo_c08.register_leaf_class(cls)
    o2 = CodeOrigin(_SRC2, get_code_range(0, 1, 0, 2, 1, 2))
    ps = PSet([zoo.Tup((cls(v=1), zoo.Leaf(v=1), cls(v=2, s="ab", origin=o2))), cls(v=1, s="x"), zoo.Leaf2(v=1)],
              extra_rows=[zoo_c08.class_row(cls)], xprobe=0)
    # first the texts that were rejected before (not forgotten by the harness), then texts never seen
    for t in before_x + xtexts[2:]:
        c, _ = xpath_case(t, "xpath_after_class", ps=ps, cfg=cfg, forget=False)
        c.desc += f" (class {name}(Leaf) defined" + (" after this text was first compiled)" if t in before_x else ")")
        if c.real == XREJECT and not c.oracle_fail:
            c.oracle_fail = "an xpath naming an existing node class is rejected"
            c.sig = "xpath|accept"
        yield c
    for t in before_p + ptexts[2:]:
        c, _ = pattern_case(t, "pattern_after_class", expect_accept=True, ps=ps, cfg=cfg, keep_cache=t in before_p)
        c.desc += f" (class {name}(Leaf) defined" + (" after this text was first compiled)" if t in before_p else ")")
        yield c


# ------------------------------------------------------------------ text generators

PTOKENS = ["(", ")", "|", "@", "=", "[", "]", "*", "->", "$", "None", "-", ">", '"', "\\", "Leaf", "Tup", "items", "v",
           "x", "a_b", "_a", "A1", "1", "Nope", '"a"', '"a\\"b"', '"\\\\"', '"("', '"é"', "/", "NoneNone", "k_", "X"]
XTOKENS = ["/", "//", "@", "[", "]", "0", "1", "12", "Leaf", "Expr", "items", "child", "Nope", "CodeOrigin", "_x", "A1",
           "$", "*", "(", "-", "é"]
ALPHABET = string.ascii_letters + string.digits + "_" + "()|@=[]*->$/\"\\" + " \t\f\r\n"


def wellformed(p, seen=None) -> bool:
    """classes exist, captures unique, variables follow their captures (text order)"""
    seen = [] if seen is None else seen

    def cap(c):
        if c is None:
            return True
        if c in seen:
            return False
        seen.append(c)
        return True

    def value(v):
        if v[0] == "tree":
            return pat(v[1])
        if v[0] == "var":
            return v[1] in seen
        if v[0] == "re":
            try:
                re.compile(v[1])
                return True
            except Exception:  # noqa
                return False
        return True

    def pat(p):
        _, cls, fields = p
        if cls is not None and any(c not in P8.CLASSES for c in cls):
            return False
        for name, spec, c in fields:
            if spec is not None:
                if spec[0] == "val":
                    if not value(spec[1]):
                        return False
                else:
                    for v, ic in spec[1]:
                        if not value(v) or not cap(ic):
                            return False
                    if spec[2] is not None and not cap(spec[2][1]):
                        return False
            if not cap(c):
                return False
        return True

    return pat(p)


RCLS = ["Leaf", "Tup", "Expr", "Bin", "ASTNode", "Leaf2", "Mixed", "Nope", "CodeOrigin", "Source", "leaf", "_X1"]
RFLD = ["v", "s", "items", "left", "right", "c", "z", "a", "extra", "t", "nosuch", "_f", "F1"]
RCAP = ["a", "b", "c", "a_b", "_a", "zz"]
RRE = ["", "a", "1", ".*", "a*b$", "\\d", "\\.", "(", "[a-z]+", "a|b", "\\", "é", "x\\\"y", "*"]


def rand_pat(rng, depth: int):
    """a random derivation of the pattern grammar (names, captures and variables drawn blindly)"""
    def cap(p):
        return rng.choice(RCAP) if rng.random() < p else None

    def value():
        k = rng.random()
        if k < 0.3 and depth < 3:
            return ("tree", rand_pat(rng, depth + 1))
        if k < 0.45:
            return ("var", rng.choice(RCAP))
        if k < 0.65:
            return ("none",)
        return ("re", rng.choice(RRE))

    cls = None if rng.random() < 0.2 else [rng.choice(RCLS) for _ in range(rng.choice([1, 1, 2, 3]))]
    fields = []
    for _ in range(rng.choice([0, 1, 1, 2, 3])):
        k = rng.random()
        if k < 0.3:
            spec = None
        elif k < 0.6:
            spec = ("val", value())
        else:
            items = [(value(), cap(0.3)) for _ in range(rng.choice([0, 0, 1, 2, 3]))]
            spec = ("seq", items, ("tail", cap(0.4)) if rng.random() < 0.5 else None)
        fields.append((rng.choice(RFLD), spec, cap(0.35)))
    return ("pat", cls, fields)


def mutate(rng, toks: list[str], pool: list[str]) -> list[str]:
    toks = list(toks)
    if not toks:
        return [rng.choice(pool)]
    j = rng.randrange(len(toks))
    k = rng.random()
    if k < 0.3:
        del toks[j]
    elif k < 0.55:
        toks.insert(j, toks[j])
    elif k < 0.75 and len(toks) > 1:
        j = rng.randrange(len(toks) - 1)
        toks[j], toks[j + 1] = toks[j + 1], toks[j]
    else:
        toks[j] = rng.choice(pool)
    return toks


def xrender(rng, toks: list[str]) -> str:
    out = ""
    prev = None
    for t in toks:
        sep = P8.ws(rng) if out else ""
        if prev is not None and (prev[-1].isalnum() or prev[-1] == "_") and (t[0].isalnum() or t[0] == "_") and sep == "":
            if not (prev.isdigit() and t.isdigit()):
                sep = " "
        out += sep + t
        prev = t
    return out + P8.ws(rng)


def gen_xtokens(rng) -> list[str]:
    n = rng.choice([1, 1, 2, 2, 3, 4])
    toks: list[str] = []
    for i in range(n):
        sep = rng.choice(["/", "/", "//"]) if (i > 0 or rng.random() < 0.75) else ""
        toks += ["/", "/"] if sep == "//" else ([sep] if sep else [])
        toks += P7.gen_step(rng, i == n - 1)
    return toks


def random_text(rng, pool) -> str:
    k = rng.random()
    if k < 0.55:
        n = rng.randint(0, 9)
        return "".join(rng.choice(pool) + (P8.ws(rng) if rng.random() < 0.3 else "") for _ in range(n))
    n = rng.randint(0, 12)
    return "".join(rng.choice(ALPHABET) for _ in range(n))


FIXED_P = ["(Tup @items=[*] -> c)", "(Tup @items=[(Leaf) *] -> c)", "(Leaf @v -> x)", "(*)", "( * )", "(Leaf|Tup)",
           "(Tup @items=[None->xNone])", "(Leaf @v=NoneNone)", "(Leaf @v=None@s)", "(Leaf @v->ab_)", "(Leaf @v->a_b)",
           '(Leaf @s="a\\"b")', '(Leaf @s="\\\\")', '(Leaf @s="\\")', '(Leaf @s="(")', "(CodeOrigin)", "(Source @x)",
           "(Leaf @v=$x)", "(Leaf @v->x @s->x)", "", " ", "(", "()", "(Leaf", "(Leaf))", "(Leaf) (Leaf)", "(1)", "(Leaf @1)",
           "(Leaf @v=[)", "(Leaf @v=[*(Leaf)])", "(Leaf @v=[* *])", "(Leaf @v - > x)", "(Leaf @v -> X)", "(Leaf @v=$ x)",
           "(Leaf @v=[] -> e)", "(Leaf @v=[]->e @s=$e)", "\n(Leaf)\n", '(Leaf @s="a\nb")', "(Leaf @v=(Leaf @v=(Leaf @v=(Leaf))))",
           "(Leaf|)", "(|Leaf)", "(*|Leaf)", "(Leaf|*)", "(Leaf @v=)", "(Leaf @v=*)", "(Leaf @v==None)",
           # escaped quotes at the start, in the middle and at the END of a regex; nothing but an escaped quote; two of them
           '(Leaf @s="\\"a")', '(Leaf @s="a\\"")', '(Leaf @s="say \\"hi\\"")', '(Leaf @s="\\"")', '(Leaf @s="\\"\\"" -> q)',
           '(Tup @items=[(Leaf @s="x\\"") -> h *])', '(Leaf @s="a\\\\")', '(Leaf @s="\\\\\\"")']
FIXED_X = ["/Leaf", "//Leaf", "Leaf", " /Leaf", "/Leaf ", "/@items[1]Leaf", "/@items[12]Leaf", "/@items[0 1]Leaf", "/[]Leaf",
           "/@items", "/", "", "//", "/Nope", "/CodeOrigin", "/Mixed/@items[0]Leaf2", "/Mixed//Leaf", "//@arg Leaf", "/Leaf/",
           "/Leaf//", "/ Mixed / @ z Un", "/Mixed/[1]", "/Mixed/@items[1]Tup", "/1", "/A[", "/@", "/@[1]Leaf", "/Leaf Leaf"]


WS_SUBJECTS = ["return  x", "return x", "a \tb  c"]


def ws_twins(rng):
    """two accepted texts that differ only by a white-space run inside a quoted regex (different meaning) and a
    re-spacing between the tokens (same meaning); each is observed right after the other was compiled"""
    subj = rng.choice(WS_SUBJECTS)
    runs = [m for m in re.finditer(r"[ \t]+", subj)]
    m = rng.choice(runs)
    other = rng.choice([r for r in P8.WS_RUNS if r != m.group()])
    subj2 = subj[: m.start()] + other + subj[m.end():]
    tail = rng.choice(["$", "", ".*"])
    ra, rb = P8.rx_lit(subj) + tail, P8.rx_lit(subj2) + tail
    shape = rng.choice(["two", "leaf", "two2"])

    def toks(r):
        q = '"' + r + '"'
        if shape == "leaf":
            return ["(", "Leaf", "@", "s", "=", q, "->", "t", ")"]
        if shape == "two":
            return ["(", "Two", "@", rng_f, "=", q, "->", "t", ")"]
        return ["(", "*", "@", "a", "->", "k", "@", "b", "=", q, ")"]

    rng_f = "b"     # (`a` is also a child field of Mixed: regex-vs-node guard)
    ta, tb = toks(ra), toks(rb)
    a1 = P8.render(rng, ta)
    b1 = a1.replace('"' + ra + '"', '"' + rb + '"') if rng.random() < 0.6 else P8.render(rng, tb)
    a2 = P8.render(rng, ta, spaced=rng.random() < 0.6)
    return a1, a2, b1


BAD_RX = ["(unclosed", "a)", "[a", "*a", "a**", "+", "(?P<x>a)(?P<x>b)", "a{2,1}", "(?z)"]
BAD_REGEX_P = ['(Leaf @s="(unclosed")', '(Leaf @v="a)" -> k)', '(Tup @items=[(Leaf @s="[a") *])', '(* @s="*a" @v="1")']


# variable uses placed BEFORE / INSIDE / AFTER the capture of the same name, at every structural place a capture can
# stand (trailing capture of the very field whose value uses the variable, item capture, tail capture, an earlier or
# later field, an inner / outer pattern): "variables follow their captures" in text order, whatever the nesting
VAR_ORDER_P = [
    '(Leaf @v=$x -> x)', '(Leaf @s=$x -> x)', '(Bin @left=(Leaf @v=$x) -> x)', '(Un @arg=(Leaf @s=$x) -> x)',
    '(Tup @items=[$x] -> x)', '(Tup @items=[$x -> x])', '(Tup @items=[$x (Leaf) -> x])', '(Tup @items=[(Leaf) -> x $x])',
    '(Tup @items=[$x * -> x])', '(Tup @items=[(Leaf) $x *] -> x)', '(Tup @items=[(Leaf) -> x *] -> y @items=$y)',
    '(Bin @left -> x @right=$x)', '(Bin @left=$x @right -> x)', '(Bin @left=(Leaf @v -> x) @right=$x)',
    '(Bin @left=(Leaf @v=$x @s -> x))', '(Bin @left=(Leaf @s -> x @v=$x))', '(Bin @left=(Leaf @v=$x) @right=(Leaf @v -> x))',
    '(Bin @left=(Leaf @v -> x) -> y @right=$y)', '(Bin @left=(Leaf @v=$y) -> y @right=$y)',
    '(Un @arg=(Un @arg=(Leaf @v=$x) -> x))', '(Un @arg=(Un @arg=(Leaf @v=$x)) -> x)', '(Un @arg=(Un @arg -> x @arg=$x))',
    '(* @v=$x -> x)', '(* @v -> x @s=$x)', '(Tup @items=[(Leaf @v=$x) -> x])', '(Tup @items=[(Leaf @v -> x) $x])',
    '(Tup @items=[(Leaf @v=$x -> x)])', '(Tup @items=[(Leaf) -> a (Leaf @v=$b) -> b *])',
]


def huge_cases(rng):
    """texts at the limits of the runtime: an index with more digits than CPython converts to an int by default
    (sys.get_int_max_str_digits), very long names, deeply nested patterns: "compiled or rejected with the definition
    error" — nothing else escapes.  Oracle only (the model has no such limits, so the verdict itself is not compared)"""
    import sys as _sys
    lim = getattr(_sys, "get_int_max_str_digits", lambda: 4300)() or 4300
    xs = [f"/Tup/@items[{'1' * (lim + 1)}]Leaf", f"//@items[{'0' * (lim + 7)}]", f"/Tup/@items[{'9' * (lim - 1)}]Leaf",
          "/" + "A" * 5000, "/Tup" + "/@items[0]Tup" * 300, "//" + "Leaf/" * 400 + "Leaf"]
    for t in xs:
        real = observe_xpath(t, DEFAULT, "plain")
        again = observe_xpath(t, DEFAULT, "plain")
        bad = None
        if real.startswith("OTHER") or again.startswith("OTHER"):
            bad = f"ASTXpath: {real[:80]}"
        elif (real == XREJECT) != (again == XREJECT):
            bad = "second construction differs in acceptance"
        yield Case("xpath_huge", None, None, True, f"xpath text of {len(t)} chars: {t[:40]!r}…", oracle_fail=bad,
                   sig="xpath|other-exception" if bad else "xpath|huge")
    ps_ = ["(Leaf @v=\"" + "a" * 20000 + "\")", "(Tup @items=[" + "(Leaf) " * 600 + "*])",
           "(" + "|".join(["Leaf"] * 800) + ")", "(Un @arg=" * 150 + "(Leaf)" + ")" * 150]
    for t in ps_:
        outs = observe_pattern(t, False)
        others = [k for k, v in outs.items() if v.startswith("OTHER")]
        acc = {k: (v != REJECT) for k, v in outs.items()}
        bad = None
        if others:
            bad = f"an exception other than the definition error escapes: { {k: outs[k][:40] for k in others} }"
        elif len(set(acc.values())) != 1:
            bad = f"entry points disagree on acceptance: {acc}"
        yield Case("pattern_huge", None, None, True, f"pattern text of {len(t)} chars: {t[:40]!r}…", oracle_fail=bad,
                   sig="pattern|other-exception" if bad else "pattern|huge")


def cases(rng: random.Random, tier: str):
    yield from huge_cases(rng)
    for cfg in zoo_c08.CONFIGS:
        for t in FIXED_P + BAD_REGEX_P:
            yield pattern_case(t, "pattern_fixed", cfg=cfg)[0]
        for t in FIXED_X:
            yield xpath_case(t, "xpath_fixed", cfg=cfg)[0]
        for t in VAR_ORDER_P:
            yield pattern_case(t, "pattern_var_order", cfg=cfg)[0]
    n = 330 if tier == "quick" else 12000
    for it in range(n):
        # the whole iteration runs under one logging / tracing configuration (which must not matter)
        cfg = zoo_c08.pick_config(rng)
        if it % 4 == 0:
            yield from dyn_class_cases(rng, cfg)
        # --- patterns: grammar-derived, two renderings, then mutations
        g = P8.PGen(rng, deviate=0.08)
        src = rng.choice(PROBES)
        nodes = [src] + [c for (c, p, f, i) in zoo.positions(src)]
        p = g.pat(rng.choice(nodes) if rng.random() < 0.3 else src, rng.choice([1, 1, 2]))
        toks = P8.tokens_of(p)
        wf = wellformed(p)
        t1 = P8.render(rng, toks)
        t2 = P8.render(rng, toks, spaced=rng.random() < 0.7)
        c1, r1 = pattern_case(t1, "pattern_grammar", expect_accept=wf, cfg=cfg)
        c2, r2 = pattern_case(t2, "pattern_grammar", expect_accept=wf, cfg=cfg)
        if r1 != r2 and not c2.oracle_fail:
            c2.oracle_fail = f"white space between tokens changes the meaning: {t1!r} -> {r1} but {t2!r} -> {r2}"
            c2.sig = "pattern|whitespace"
        yield c1
        yield c2
        for _ in range(3):
            yield pattern_case(P8.render(rng, mutate(rng, toks, PTOKENS), spaced=rng.random() < 0.6), "pattern_mutant", cfg=cfg)[0]
        # near-identical texts compiled back to back, both orders
        a1, a2, b1 = ws_twins(rng)
        ca, ra_ = pattern_case(a1, "pattern_ws_twin", expect_accept=True, pre=(b1,), cfg=cfg)
        cb, _ = pattern_case(b1, "pattern_ws_twin", expect_accept=True, pre=(a1, a2), cfg=cfg)
        cc, rc_ = pattern_case(a2, "pattern_ws_twin", expect_accept=True, pre=(b1, a1), cfg=cfg)
        if ra_ != rc_ and not cc.oracle_fail:
            cc.oracle_fail = f"white space between tokens changes the meaning: {a1!r} -> {ra_} but {a2!r} -> {rc_}"
            cc.sig = "pattern|whitespace"
        yield ca
        yield cb
        yield cc
        for _ in range(2):
            yield pattern_case(random_text(rng, PTOKENS), "pattern_random", cfg=cfg)[0]
        rp = rand_pat(rng, 1)
        yield pattern_case(P8.render(rng, P8.tokens_of(rp), spaced=rng.random() < 0.7), "pattern_grammar_blind",
                           expect_accept=wellformed(rp), cfg=cfg)[0]
        # a grammatical pattern whose regex does not compile: rejected by every entry point, under every configuration
        bt = [('"' + rng.choice(BAD_RX) + '"') if (x.startswith('"') and rng.random() < 0.7) else x for x in toks]
        if bt == toks:
            bt = ["(", "Leaf", "@", "s", "=", '"' + rng.choice(BAD_RX) + '"', ")"]
        yield pattern_case(P8.render(rng, bt, spaced=rng.random() < 0.6), "pattern_bad_regex", expect_accept=False, cfg=cfg)[0]
        # --- xpaths
        xt = gen_xtokens(rng)
        x1 = xrender(rng, xt)
        x2 = xrender(rng, xt)
        c1, r1 = xpath_case(x1, "xpath_grammar", cfg=cfg)
        c2, r2 = xpath_case(x2, "xpath_grammar", cfg=cfg)
        if r1 != r2 and not c2.oracle_fail:
            c2.oracle_fail = f"white space between tokens changes the meaning: {x1!r} -> {r1} but {x2!r} -> {r2}"
            c2.sig = "xpath|whitespace"
        yield c1
        yield c2
        for _ in range(2):
            yield xpath_case(xrender(rng, mutate(rng, xt, XTOKENS)), "xpath_mutant", cfg=cfg)[0]
        for _ in range(2):
            yield xpath_case(random_text(rng, XTOKENS), "xpath_random", cfg=cfg)[0]
