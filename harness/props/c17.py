"""C17 — text is compiled or rejected with the definition error.

For every generated text the outcome class of each entry point of the real code
  ASTXpath(text);  validate_pattern / NodeMatcher.from_pattern (cold, cached) / MultiPatternMatcher
is observed as  ok + behaviour on a fixed battery of probe trees | DefinitionError | OTHER(exception class)
and compared with the Lean model (`compilePattern`, `parseXPath`); in-process oracles check that the
pattern entry points agree, that a second compilation behaves the same, that two white-space renderings
of one token sequence behave the same and that well-formed grammar-derived texts are accepted."""
from __future__ import annotations

import random
import re
import string

import pyoak.match.pattern as pm
import pyoak.match.xpath as px
from pyoak.match.error import ASTPatternDefinitionError, ASTXpathDefinitionError
from pyoak.match.pattern import MultiPatternMatcher, NodeMatcher, validate_pattern
from pyoak.match.xpath import ASTXpath
from pyoak.node import ASTNode
from pyoak.origin import CodeOrigin, get_code_range
from pyoak.tree import Tree

from proto import A, dumps
from run import Case
import zoo
from props import c08 as P8
from props import c07 as P7

PROPERTY = "C17"
LEAN_MODULE = "PyOak.Props.C17Pattern"
THEOREMS = ["PyOak.C17." + t for t in [
    "compile_total", "accepts_wellformed", "pat_accept",
    "parse_render", "pattern_accepts_rendering", "pattern_ws_irrelevant", "pat_parse", "pat_size", "scanStr_body",
    "lexCName_tok", "lexKey_tok", "parseClassSpec_cls",
    "xpath_accepts_rendering", "xpath_relative", "xpath_ws_irrelevant", "xlex_render", "parseSteps_path", "parseStepBody_body", "xwalk_some",
]]
PARTIAL = ["totality of the *Python* entry points (no other exception escapes, validate_pattern / from_pattern / "
           "MultiPatternMatcher agree, a second compilation behaves the same) is a fact about Python exception flow and "
           "caches: decided by the correspondence; the theorem compile_total is about the model's total functions"]
RULE = ("texts: (a) grammar-derived well-formed patterns / xpaths rendered with random white space between tokens "
        "(two renderings each), (b) single-token mutations of them (deleted, duplicated, swapped, replaced token), "
        "(c) unknown and non-node class names, (d) random token sequences and random strings over the grammars' "
        "alphabet (letters, digits, _, the punctuation of both grammars, the five WS characters, double quote and backslash; "
        "non-ASCII only inside quoted strings), (e) pairs of accepted texts that differ only by a white-space run inside a quoted "
        "regex, each observed right after the other (and a re-spacing of it) was compiled; outcome class + behaviour on 9 probe trees for every entry point; "
        "non-trivial = text longer than 3 characters; distinct by text")
TRUSTED = ["lark LALR engine + contextual lexer re-modelled by hand-written recursive-descent parsers",
           "re.compile success is an input of the model (list of the quoted strings of the text that do not compile)",
           "'no other exception escapes' and the agreement of the entry points are facts about Python exception flow: "
           "decided by the correspondence (outcome classes), not by a theorem"]
ASSUMPTIONS = ["arguments are str; no class is re-declared between two compilations; white space only between tokens "
               "and after the last one (a leading blank makes an xpath relative by `startswith('/')`)"]
BUDGET = {"quick": 240, "thorough": 2400}

ASCII_ALNUM = set(string.ascii_letters + string.digits)
_ESC = re.compile(r'".*?(?<!\\)(\\\\)*?"')


def rx_supported(s: str) -> bool:
    """is the regex inside the sub-language the model driver implements?"""
    i = 0
    n = len(s)
    while i < n:
        c = s[i]
        eol = False
        if c == "\\":
            if i + 1 >= n:
                return False
            d = s[i + 1]
            if d != "d" and d in ASCII_ALNUM:
                return False
            i += 2
        elif c == "$":
            eol = True
            i += 1
        elif c in "^*+?{}[]|()":
            return False
        else:
            i += 1
        if i < n and s[i] == "*":
            if eol:
                return False
            i += 1
    return True


def quoted(text: str) -> list[str]:
    return [m.group()[1:-1] for m in _ESC.finditer(text)]


def rx_bad(text: str) -> list[str]:
    out = []
    for c in quoted(text):
        try:
            re.compile(c)
        except Exception:  # noqa
            if c not in out:
                out.append(c)
    return out


# ------------------------------------------------------------------ probes

_SRC2 = zoo.MemoryTextSource("probe text", source_uri="probe")


def make_probes():
    L = zoo.Leaf
    o2 = CodeOrigin(_SRC2, get_code_range(0, 1, 0, 2, 1, 2))
    return [
        L(v=1, s="ab", flag=True),
        zoo.Tup((L(v=1), L(v=2), L(v=1, origin=o2))),
        zoo.Bin(L(v=1), L(v=1, origin=o2)),
        zoo.Opt(None),
        zoo.Mixed(zoo.Un(L(v=3, s="x.y")), (zoo.Leaf2(v=0, s="None", extra=("a", "b")), zoo.Tup(())), None, name="n(1)"),
        zoo.PropZoo(t=(1, 2), o=None),
        zoo.Names(child=L(v=7), root=None, items=(L(v=7, origin=o2),)),
        zoo.Two(a="return  x", b="return x"),
        L(v=2, s="a \tb  c"),
    ]


PROBES = make_probes()
_PTOK = []
_PENC = []
_ORGS = zoo.OrgTable()
for _p in PROBES:
    _t = zoo.Tokens()
    _PENC.append(zoo.enc_tree(_p, _t, _ORGS))
    _PTOK.append(_t)
ENV = [zoo.class_table(), _ORGS.sexp(), [A("nonnode")] + P8.NONNODE]


def res_sx(i, ok, caps):
    return [A("ok"), bool(ok), P8.caps_sx(_PTOK[i], caps)]


def behaviour(match_fn):
    out = []
    for i, p in enumerate(PROBES):
        try:
            ok, caps = match_fn(p)
            out.append(res_sx(i, ok, caps))
        except ASTPatternDefinitionError:
            out.append([A("raise"), A("ASTPatternDefinitionError")])
        except Exception as e:  # noqa
            out.append([A("raise"), A(type(e).__name__)])
    return out


REJECT = dumps([A("raise"), A("ASTPatternDefinitionError")])


def observe_pattern(text: str, probes: bool, pre: tuple = ()):
    """canonical outcome per entry point; `pre`: texts compiled (and cached) just before"""
    outs = {}
    try:
        ok, _ = validate_pattern(text)
        outs["validate"] = "ok" if ok else REJECT
    except Exception as e:  # noqa
        outs["validate"] = f"OTHER({type(e).__name__})"
    pm._MATCHER_CACHE.clear()
    for t in pre:
        NodeMatcher.from_pattern(t)
    for key in ("cold", "cached"):
        try:
            m, _ = NodeMatcher.from_pattern(text)
            if m is None:
                outs[key] = REJECT
            else:
                outs[key] = dumps([A("ok")] + (behaviour(m.match) if probes else []))
        except Exception as e:  # noqa
            outs[key] = f"OTHER({type(e).__name__})"
    try:
        mm = MultiPatternMatcher([("r", text)])

        def via_multi(p):
            r = mm.match(p)
            return (False, {}) if r is None else (True, r[1])

        outs["multi"] = dumps([A("ok")] + (behaviour(via_multi) if probes else []))
    except ASTPatternDefinitionError:
        outs["multi"] = REJECT
    except Exception as e:  # noqa
        outs["multi"] = f"OTHER({type(e).__name__})"
    return outs


_STR_FIELDS = "s|tag|name|lit|a|b"
_RE_ON_NODE = re.compile(r"@\s*(?:items|pair|left|right|arg|c|z|a|child|root|extra|t|tf)\s*=\s*\"\"")
_RE_IN_SEQ = re.compile(r"\[[^\]]*\"\"")
_FLOAT_FIELD = re.compile(r"@\s*fl(?![A-Za-z0-9_])")
_SEQ_ON_STR = re.compile(r"@\s*(?:" + _STR_FIELDS + r")\s*=\s*\[")


def pattern_case(text: str, kind: str, expect_accept: bool | None = None, pre: tuple = ()):
    qs = quoted(text)
    probes = all(rx_supported(c) for c in qs)
    bare = _ESC.sub('""', text)
    if _SEQ_ON_STR.search(bare):
        probes = False      # C08 don't-care point: a bracketed sequence against a str value
    if _RE_ON_NODE.search(bare) or _RE_IN_SEQ.search(bare):
        probes = False      # C08 don't-care point: a regex against a node- or tuple-valued field / sequence element
    if "$" in bare and _FLOAT_FIELD.search(bare):
        probes = False      # outside the value model: a float compared with a non-float by a $variable (0.0 == 0)
    outs = observe_pattern(text, probes, pre)
    real = outs["cold"]
    oracle = None
    sig = "pattern|model"
    others = [k for k, v in outs.items() if v.startswith("OTHER")]
    if others:
        oracle = f"an exception other than the definition error escapes: {outs}"
        sig = "pattern|other-exception"
    else:
        acc = {k: (v != REJECT) for k, v in outs.items()}
        if len(set(acc.values())) != 1:
            oracle = f"entry points disagree on acceptance: {acc}"
            sig = "pattern|entry-points"
        elif outs["cached"] != outs["cold"] or outs["multi"] != outs["cold"]:
            oracle = f"recompilation / other entry point behaves differently: {outs}"
            sig = "pattern|recompile"
        elif expect_accept and real == REJECT:
            oracle = "a well-formed grammar-derived pattern is rejected"
            sig = "pattern|accept"
        elif expect_accept is False and real != REJECT:
            oracle = "a pattern with an unknown / non-node class, a repeated capture name or an unbound variable is accepted"
            sig = "pattern|reject"
    line = dumps([A("pcompile")] + ENV + [[A("rxbad")] + rx_bad(text), [A("text"), text],
                                        [A("probes")] + (_PENC if probes else [])])
    d = f"pattern text={text!r}" + (f" compiled right after {list(pre)!r}" if pre else "")
    return Case(kind, line, real, len(text) > 3, d, oracle_fail=oracle, sig=sig), real


def _els(xp):
    return [[e.ast_class.__name__, e.parent_field, e.parent_index, e.anywhere] for e in xp._elements_reversed]


XPROBE = PROBES[4]
_XT = _PTOK[4]
_XNODES = [XPROBE] + [c for (c, p, f, i) in zoo.positions(XPROBE)]
XREJECT = dumps([A("raise"), A("ASTXpathDefinitionError")])


def observe_xpath(text: str):
    try:
        xp = ASTXpath(text)
    except ASTXpathDefinitionError:
        return XREJECT
    except Exception as e:  # noqa
        return f"OTHER({type(e).__name__})"
    try:
        found = list(xp.findall(XPROBE))
        first = XPROBE.find(xp)
        tree = Tree(XPROBE)
        ms = [[_XT.tok(n), xp.match(tree, n)] for n in _XNODES]
        return dumps([A("ok"), _els(xp), [_XT.tok(n) for n in found], _XT.tok(first) if first is not None else None, ms])
    except Exception as e:  # noqa
        return f"OTHER-USE({type(e).__name__})"


def xpath_case(text: str, kind: str):
    px._AST_XPATH_CACHE.pop(text, None)
    real = observe_xpath(text)
    again = observe_xpath(text)
    oracle = None
    sig = "xpath|model"
    if real.startswith("OTHER"):
        oracle = f"ASTXpath: {real}"
        sig = "xpath|other-exception"
    elif again != real:
        oracle = f"second construction differs: {real} / {again}"
        sig = "xpath|recompile"
    line = dumps([A("xpath")] + ENV[:2] + [[A("text"), text], [A("tree"), _PENC[4]]])
    return Case(kind, line, real, len(text) > 3, f"xpath text={text!r}", oracle_fail=oracle, sig=sig), real


# ------------------------------------------------------------------ text generators

PTOKENS = ["(", ")", "|", "@", "=", "[", "]", "*", "->", "$", "None", "-", ">", '"', "\\", "Leaf", "Tup", "items", "v",
           "x", "a_b", "_a", "A1", "1", "Nope", '"a"', '"a\\"b"', '"\\\\"', '"("', '"é"', "/", "NoneNone", "k_", "X"]
XTOKENS = ["/", "//", "@", "[", "]", "0", "1", "12", "Leaf", "Expr", "items", "child", "Nope", "CodeOrigin", "_x", "A1",
           "$", "*", "(", "-", "é"]
ALPHABET = string.ascii_letters + string.digits + "_" + "()|@=[]*->$/\"\\" + " \t\f\r\n"


def wellformed(p, seen=None) -> bool:
    """classes exist, captures unique, variables follow their captures (text order)"""
    seen = [] if seen is None else seen

    def cap(c):
        if c is None:
            return True
        if c in seen:
            return False
        seen.append(c)
        return True

    def value(v):
        if v[0] == "tree":
            return pat(v[1])
        if v[0] == "var":
            return v[1] in seen
        if v[0] == "re":
            try:
                re.compile(v[1])
                return True
            except Exception:  # noqa
                return False
        return True

    def pat(p):
        _, cls, fields = p
        if cls is not None and any(c not in P8.CLASSES for c in cls):
            return False
        for name, spec, c in fields:
            if spec is not None:
                if spec[0] == "val":
                    if not value(spec[1]):
                        return False
                else:
                    for v, ic in spec[1]:
                        if not value(v) or not cap(ic):
                            return False
                    if spec[2] is not None and not cap(spec[2][1]):
                        return False
            if not cap(c):
                return False
        return True

    return pat(p)


RCLS = ["Leaf", "Tup", "Expr", "Bin", "ASTNode", "Leaf2", "Mixed", "Nope", "CodeOrigin", "Source", "leaf", "_X1"]
RFLD = ["v", "s", "items", "left", "right", "c", "z", "a", "extra", "t", "nosuch", "_f", "F1"]
RCAP = ["a", "b", "c", "a_b", "_a", "zz"]
RRE = ["", "a", "1", ".*", "a*b$", "\\d", "\\.", "(", "[a-z]+", "a|b", "\\", "é", "x\\\"y", "*"]


def rand_pat(rng, depth: int):
    """a random derivation of the pattern grammar (names, captures and variables drawn blindly)"""
    def cap(p):
        return rng.choice(RCAP) if rng.random() < p else None

    def value():
        k = rng.random()
        if k < 0.3 and depth < 3:
            return ("tree", rand_pat(rng, depth + 1))
        if k < 0.45:
            return ("var", rng.choice(RCAP))
        if k < 0.65:
            return ("none",)
        return ("re", rng.choice(RRE))

    cls = None if rng.random() < 0.2 else [rng.choice(RCLS) for _ in range(rng.choice([1, 1, 2, 3]))]
    fields = []
    for _ in range(rng.choice([0, 1, 1, 2, 3])):
        k = rng.random()
        if k < 0.3:
            spec = None
        elif k < 0.6:
            spec = ("val", value())
        else:
            items = [(value(), cap(0.3)) for _ in range(rng.choice([0, 0, 1, 2, 3]))]
            spec = ("seq", items, ("tail", cap(0.4)) if rng.random() < 0.5 else None)
        fields.append((rng.choice(RFLD), spec, cap(0.35)))
    return ("pat", cls, fields)


def mutate(rng, toks: list[str], pool: list[str]) -> list[str]:
    toks = list(toks)
    if not toks:
        return [rng.choice(pool)]
    j = rng.randrange(len(toks))
    k = rng.random()
    if k < 0.3:
        del toks[j]
    elif k < 0.55:
        toks.insert(j, toks[j])
    elif k < 0.75 and len(toks) > 1:
        j = rng.randrange(len(toks) - 1)
        toks[j], toks[j + 1] = toks[j + 1], toks[j]
    else:
        toks[j] = rng.choice(pool)
    return toks


def xrender(rng, toks: list[str]) -> str:
    out = ""
    prev = None
    for t in toks:
        sep = P8.ws(rng) if out else ""
        if prev is not None and (prev[-1].isalnum() or prev[-1] == "_") and (t[0].isalnum() or t[0] == "_") and sep == "":
            if not (prev.isdigit() and t.isdigit()):
                sep = " "
        out += sep + t
        prev = t
    return out + P8.ws(rng)


def gen_xtokens(rng) -> list[str]:
    n = rng.choice([1, 1, 2, 2, 3, 4])
    toks: list[str] = []
    for i in range(n):
        sep = rng.choice(["/", "/", "//"]) if (i > 0 or rng.random() < 0.75) else ""
        toks += ["/", "/"] if sep == "//" else ([sep] if sep else [])
        toks += P7.gen_step(rng, i == n - 1)
    return toks


def random_text(rng, pool) -> str:
    k = rng.random()
    if k < 0.55:
        n = rng.randint(0, 9)
        return "".join(rng.choice(pool) + (P8.ws(rng) if rng.random() < 0.3 else "") for _ in range(n))
    n = rng.randint(0, 12)
    return "".join(rng.choice(ALPHABET) for _ in range(n))


FIXED_P = ["(Tup @items=[*] -> c)", "(Tup @items=[(Leaf) *] -> c)", "(Leaf @v -> x)", "(*)", "( * )", "(Leaf|Tup)",
           "(Tup @items=[None->xNone])", "(Leaf @v=NoneNone)", "(Leaf @v=None@s)", "(Leaf @v->ab_)", "(Leaf @v->a_b)",
           '(Leaf @s="a\\"b")', '(Leaf @s="\\\\")', '(Leaf @s="\\")', '(Leaf @s="(")', "(CodeOrigin)", "(Source @x)",
           "(Leaf @v=$x)", "(Leaf @v->x @s->x)", "", " ", "(", "()", "(Leaf", "(Leaf))", "(Leaf) (Leaf)", "(1)", "(Leaf @1)",
           "(Leaf @v=[)", "(Leaf @v=[*(Leaf)])", "(Leaf @v=[* *])", "(Leaf @v - > x)", "(Leaf @v -> X)", "(Leaf @v=$ x)",
           "(Leaf @v=[] -> e)", "(Leaf @v=[]->e @s=$e)", "\n(Leaf)\n", '(Leaf @s="a\nb")', "(Leaf @v=(Leaf @v=(Leaf @v=(Leaf))))",
           "(Leaf|)", "(|Leaf)", "(*|Leaf)", "(Leaf|*)", "(Leaf @v=)", "(Leaf @v=*)", "(Leaf @v==None)"]
FIXED_X = ["/Leaf", "//Leaf", "Leaf", " /Leaf", "/Leaf ", "/@items[1]Leaf", "/@items[12]Leaf", "/@items[0 1]Leaf", "/[]Leaf",
           "/@items", "/", "", "//", "/Nope", "/CodeOrigin", "/Mixed/@items[0]Leaf2", "/Mixed//Leaf", "//@arg Leaf", "/Leaf/",
           "/Leaf//", "/ Mixed / @ z Un", "/Mixed/[1]", "/Mixed/@items[1]Tup", "/1", "/A[", "/@", "/@[1]Leaf", "/Leaf Leaf"]


WS_SUBJECTS = ["return  x", "return x", "a \tb  c"]


def ws_twins(rng):
    """two accepted texts that differ only by a white-space run inside a quoted regex (different meaning) and a
    re-spacing between the tokens (same meaning); each is observed right after the other was compiled"""
    subj = rng.choice(WS_SUBJECTS)
    runs = [m for m in re.finditer(r"[ \t]+", subj)]
    m = rng.choice(runs)
    other = rng.choice([r for r in P8.WS_RUNS if r != m.group()])
    subj2 = subj[: m.start()] + other + subj[m.end():]
    tail = rng.choice(["$", "", ".*"])
    ra, rb = P8.rx_lit(subj) + tail, P8.rx_lit(subj2) + tail
    shape = rng.choice(["two", "leaf", "two2"])

    def toks(r):
        q = '"' + r + '"'
        if shape == "leaf":
            return ["(", "Leaf", "@", "s", "=", q, "->", "t", ")"]
        if shape == "two":
            return ["(", "Two", "@", rng_f, "=", q, "->", "t", ")"]
        return ["(", "*", "@", "a", "->", "k", "@", "b", "=", q, ")"]

    rng_f = "b"     # (`a` is also a child field of Mixed: regex-vs-node guard)
    ta, tb = toks(ra), toks(rb)
    a1 = P8.render(rng, ta)
    b1 = a1.replace('"' + ra + '"', '"' + rb + '"') if rng.random() < 0.6 else P8.render(rng, tb)
    a2 = P8.render(rng, ta, spaced=rng.random() < 0.6)
    return a1, a2, b1


def cases(rng: random.Random, tier: str):
    for t in FIXED_P:
        yield pattern_case(t, "pattern_fixed")[0]
    for t in FIXED_X:
        yield xpath_case(t, "xpath_fixed")[0]
    n = 330 if tier == "quick" else 12000
    for _ in range(n):
        # --- patterns: grammar-derived, two renderings, then mutations
        g = P8.PGen(rng, deviate=0.08)
        src = rng.choice(PROBES)
        nodes = [src] + [c for (c, p, f, i) in zoo.positions(src)]
        p = g.pat(rng.choice(nodes) if rng.random() < 0.3 else src, rng.choice([1, 1, 2]))
        toks = P8.tokens_of(p)
        wf = wellformed(p)
        t1 = P8.render(rng, toks)
        t2 = P8.render(rng, toks, spaced=rng.random() < 0.7)
        c1, r1 = pattern_case(t1, "pattern_grammar", expect_accept=wf)
        c2, r2 = pattern_case(t2, "pattern_grammar", expect_accept=wf)
        if r1 != r2 and not c2.oracle_fail:
            c2.oracle_fail = f"white space between tokens changes the meaning: {t1!r} -> {r1} but {t2!r} -> {r2}"
            c2.sig = "pattern|whitespace"
        yield c1
        yield c2
        for _ in range(3):
            yield pattern_case(P8.render(rng, mutate(rng, toks, PTOKENS), spaced=rng.random() < 0.6), "pattern_mutant")[0]
        # near-identical texts compiled back to back, both orders
        a1, a2, b1 = ws_twins(rng)
        ca, ra_ = pattern_case(a1, "pattern_ws_twin", expect_accept=True, pre=(b1,))
        cb, _ = pattern_case(b1, "pattern_ws_twin", expect_accept=True, pre=(a1, a2))
        cc, rc_ = pattern_case(a2, "pattern_ws_twin", expect_accept=True, pre=(b1, a1))
        if ra_ != rc_ and not cc.oracle_fail:
            cc.oracle_fail = f"white space between tokens changes the meaning: {a1!r} -> {ra_} but {a2!r} -> {rc_}"
            cc.sig = "pattern|whitespace"
        yield ca
        yield cb
        yield cc
        for _ in range(2):
            yield pattern_case(random_text(rng, PTOKENS), "pattern_random")[0]
        rp = rand_pat(rng, 1)
        yield pattern_case(P8.render(rng, P8.tokens_of(rp), spaced=rng.random() < 0.7), "pattern_grammar_blind",
                           expect_accept=wellformed(rp))[0]
        # --- xpaths
        xt = gen_xtokens(rng)
        x1 = xrender(rng, xt)
        x2 = xrender(rng, xt)
        c1, r1 = xpath_case(x1, "xpath_grammar")
        c2, r2 = xpath_case(x2, "xpath_grammar")
        if r1 != r2 and not c2.oracle_fail:
            c2.oracle_fail = f"white space between tokens changes the meaning: {x1!r} -> {r1} but {x2!r} -> {r2}"
            c2.sig = "xpath|whitespace"
        yield c1
        yield c2
        for _ in range(2):
            yield xpath_case(xrender(rng, mutate(rng, xt, XTOKENS)), "xpath_mutant")[0]
        for _ in range(2):
            yield xpath_case(random_text(rng, XTOKENS), "xpath_random")[0]
