"""C06 — Tree upward queries: real pyoak.tree.Tree vs. the Lean model of its tables/queries
(Props/C06.lean proves the model agrees with the downward structure), plus the in-process
oracle on get_xpath (distinct, and following it from the root reaches the node)."""
from __future__ import annotations

import random
import re

from pyoak.tree import Tree

from proto import A, dumps
from run import Case
import zoo

from kernels_tie import optional_tree as optional_obligation  # noqa: F401  (`class Tree` regenerated from tree.py: optional bridge)

PROPERTY = "C06"
LEAN_MODULE = "PyOak.Props.C06All"
THEOREMS = ["PyOak.C06." + t for t in [
    "isInTree_iff", "parentInfo_root", "parentInfo_chain", "parentInfo_foreign", "ancestors_chain",
    "isAncestor_chain", "firstAncestor_chain", "depth_chain", "depth_relative", "depth_non_ancestor",
    "xpath_chain", "exists_chain", "chain_mem"]]
THEOREMS += ["PyOak.C06X." + t for t in ["parseSpell_spell", "spellChain_injective", "spellChain_positions",
                                          "xpath_injective", "follow_spell", "follow_getXpath", "namesOK_of_wfn",
                                          "fieldsOK_of_wfn"]]
# additions (AUDIT item #9): KeyError for EVERY query on a foreign node, uniqueness of the chain, is_root
THEOREMS += ["PyOak.C06." + t for t in [
    "isInTree_foreign", "isRoot_foreign", "getXpath_foreign", "getParent_foreign", "getAncestors_foreign",
    "isAncestor_foreign", "getDepth_foreign", "firstAncestorOfType_foreign", "foreign_all_keyError",
    "getXpath_keyError_iff", "parentInfo_keyError_iff", "chain_unique", "chain_unique_uid", "exists_unique_chain",
    "isRoot_iff", "isRoot_chain", "isRoot_chain_edge", "parentInfo_none_iff", "queries_total",
    "DemoT.chain_unique_needs_noRepeat"]]
THEOREMS += ["PyOak.C06X." + t for t in ["walkDown_sound", "follow_sound", "follow_mem", "follow_steps_unique"]]
# is_ancestor as a strict order on the objects of a tree; parent recurrences of get_ancestors / get_depth (Props/C06Order.lean)
THEOREMS += ["PyOak.C06." + t for t in [
    "chain_prefix", "chain_of_member", "isAncestor_irrefl", "isAncestor_parent", "isAncestor_trans", "isAncestor_asymm",
    "ancestors_parent", "depth_parent", "depth_eq_ancestors"]]
RULE = ("seeded zoo trees without repeated objects (content-identical twins at different positions included), "
        "every node as query argument for is_in_tree/is_root/get_parent/get_parent_info/get_ancestors/get_xpath/"
        "get_depth, sampled pairs for is_ancestor/relative get_depth/get_first_ancestor_of_type, foreign nodes that "
        "are content-identical (and ==) to members; non-trivial = tree with >= 4 nodes; distinct by request line")
TRUSTED = ["dict keyed by node objects behaves as a map keyed by object identity when ids are pairwise distinct"]
ASSUMPTIONS = ["all nodes registered, no node object occurs twice (statement's precondition)",
               "get_depth(check_ancestor=False) with a non-ancestor is a don't-care and not generated"]
BUDGET = {"quick": 200, "thorough": 1800}
STEP = re.compile(r"/@([A-Za-z_][A-Za-z_0-9]*)\[(\d+)\]([A-Za-z_][A-Za-z_0-9]*)")


def _g(fn, enc):
    try:
        return [A("ok"), enc(fn())]
    except KeyError:
        return [A("raise"), A("KeyError")]
    except ValueError:
        return [A("raise"), A("ValueError")]
    except Exception as e:  # noqa
        return [A("raise"), A(type(e).__name__)]


def follow(root, xp):
    steps = STEP.findall(xp)
    if "".join(f"/@{f}[{i}]{c}" for f, i, c in steps) != xp or not steps:
        return None
    f, i, c = steps[0]
    if (f, i, c) != ("root", "0", type(root).__name__):
        return None
    cur = root
    for f, i, c in steps[1:]:
        v = getattr(cur, f, None)
        if isinstance(v, tuple):
            if int(i) >= len(v):
                return None
            v = v[int(i)]
        elif int(i) != 0:
            return None
        if v is None or type(v).__name__ != c:
            return None
        cur = v
    return cur


def directed_cases(rng, n):
    """(1) very deep trees (a chain far deeper than the interpreter's recursion limit): the non-recursive queries answer for
    the deepest node first; (2) node classes that are not defined at module level (inside a function, inside a namespace
    class): the xpath spells the class by the name the xpath language resolves (`__name__`)"""
    import dataclasses
    for _ in range(n):
        depth = rng.choice([1200, 1500, 2500])
        node = zoo.Leaf(v=1)
        chain = [node]
        for _k in range(depth):
            node = zoo.Un(node)
            chain.append(node)
        root, deepest = node, chain[0]
        fail = None
        try:
            t = Tree(root)
            want = "/@root[0]Un" + "/@arg[0]Un" * (depth - 1) + "/@arg[0]Leaf"
            got = t.get_xpath(deepest)                      # asked for the deepest node FIRST
            if got != want:
                fail = f"get_xpath of the node at depth {depth}: {got[:60]}… (length {len(got)}), expected length {len(want)}"
            elif t.get_parent(deepest) is not chain[1] or not t.is_in_tree(deepest) or t.is_root(deepest) or not t.is_root(root):
                fail = "get_parent / is_in_tree / is_root wrong on the deep chain"
            elif [id(x) for x in t.get_ancestors(deepest)] != [id(x) for x in chain[1:]]:
                fail = "get_ancestors wrong on the deep chain"
            elif t.get_xpath(chain[depth // 2]) != "/@root[0]Un" + "/@arg[0]Un" * (depth - depth // 2):
                fail = "get_xpath of a middle node wrong on the deep chain"
        except Exception as e:  # noqa
            fail = f"raised {type(e).__name__} on a chain of depth {depth}"
        yield Case("directed:deep-chain", None, None, True, f"Un(Un(…Leaf)) of depth {depth}: get_xpath(deepest) first", oracle_fail=fail,
                   sig="tree|directed|deep-chain")
        del t, chain, root, deepest, node

        def make():
            @dataclasses.dataclass(frozen=True)
            class C06LocLeaf(zoo.Expr):
                v: int = 0

            class NS:
                @dataclasses.dataclass(frozen=True)
                class C06NsUn(zoo.Expr):
                    arg: zoo.Expr | None = None
            return C06LocLeaf, NS.C06NsUn
        LocLeaf, NsUn = make()
        lf = LocLeaf(v=2)
        mid = NsUn(lf)
        top = zoo.Tup((zoo.Leaf(v=0), mid))
        fail = None
        try:
            t = Tree(top)
            xs = {"top": t.get_xpath(top), "mid": t.get_xpath(mid), "lf": t.get_xpath(lf)}
            want = {"top": "/@root[0]Tup", "mid": "/@root[0]Tup/@items[1]C06NsUn", "lf": "/@root[0]Tup/@items[1]C06NsUn/@arg[0]C06LocLeaf"}
            if xs != want:
                fail = f"get_xpath spells {xs}, expected {want} (classes by __name__)"
            elif t.get_first_ancestor_of_type(lf, NsUn) is not mid or t.get_depth(lf) != 2:
                fail = "get_first_ancestor_of_type / get_depth wrong for locally defined classes"
        except Exception as e:  # noqa
            fail = f"raised {type(e).__name__}: {e}"[:160]
        yield Case("directed:local-classes", None, None, True, "Tup((Leaf, NsUn(LocLeaf))) with classes defined in a function / a namespace class",
                   oracle_fail=fail, sig="tree|directed|local-classes")


def cases(rng: random.Random, tier: str):
    yield from directed_cases(rng, 2 if tier == "quick" else 6)
    n_trees = 150 if tier == "quick" else 3000
    for _ in range(n_trees):
        g = zoo.Gen(rng, origins=rng.random() < 0.3, share=0.0)
        root = g.tree(rng.choice([1, 2, 4, 8, 16, 40]))
        keep = None
        if rng.random() < 0.3:
            # history: a Tree over an equal tree was built before and is still referenced; that tree was detached and
            # the one queried now is its duplicate, whose nodes took over the freed ids (all registered, no object twice)
            old_root = root
            keep = (old_root, Tree(old_root), old_root.to_tree())
            old_root.detach()
            root = old_root.duplicate()
            del old_root
        nodes = [root] + [c for (c, p, f, i) in zoo.positions(root)]
        # content-identical twins inside the tree: duplicate a random subtree into a Tup next to it
        if rng.random() < 0.5 and len(nodes) > 1:
            sub = rng.choice(nodes[1:])
            root = zoo.Tup((root, sub.duplicate()))
            nodes = [root] + [c for (c, p, f, i) in zoo.positions(root)]
        foreign = []
        for _k in range(rng.randint(0, 2)):
            foreign.append(rng.choice(nodes).duplicate())      # == to a member, other object
        if rng.random() < 0.3:
            foreign.append(zoo.Leaf(v=99, s="foreign"))
        toks = zoo.Tokens()
        orgs = zoo.OrgTable()
        tree_s = zoo.enc_tree(root, toks, orgs)
        foreign_s = [zoo.enc_tree(f, toks, orgs) for f in foreign]
        cv = zoo.config_variation(rng, 0.3)
        cv.__enter__()
        t = Tree(root)
        tk = toks.tok
        qs, real = [], []

        def q(query, fn, enc):
            qs.append(query)
            real.append(_g(fn, enc))

        optn = lambda n: None if n is None else tk(n)  # noqa
        args = nodes + foreign
        if len(args) > 60:
            args = rng.sample(nodes, 50) + foreign
        for n in args:
            u = tk(n)
            q([A("in"), u], lambda: t.is_in_tree(n), bool)
            q([A("root"), u], lambda: t.is_root(n), bool)
            q([A("parent"), u], lambda: t.get_parent(n), optn)
            q([A("pinfo"), u], lambda: t.get_parent_info(n),
              lambda r: [optn(r[0]), None if r[1] is None else r[1].name, r[2]])
            q([A("anc"), u], lambda: list(t.get_ancestors(n)), lambda l: [tk(x) for x in l])
            q([A("depth"), u, None, True], lambda: t.get_depth(n), int)
            q([A("xpath"), u], lambda: t.get_xpath(n), str)
            cls = rng.sample(zoo.ALL_CLASSES, rng.randint(1, 2))
            ex = rng.random() < 0.4
            single = len(cls) == 1 and rng.random() < 0.5
            q([A("fanc"), u, ex] + [c.__name__ for c in cls],
              lambda: t.get_first_ancestor_of_type(n, cls[0] if single else tuple(cls), exact_type=ex), optn)
        for _k in range(min(80, len(args) ** 2)):
            a, b = rng.choice(args), rng.choice(args)
            q([A("isanc"), tk(a), tk(b)], lambda: t.is_ancestor(a, b), bool)
            q([A("depth"), tk(a), tk(b), True], lambda: t.get_depth(a, b), int)
            # check_ancestor=False only when b really is an ancestor (harness' own structure walk)
        anc_pairs = []
        def walk(n, chain):
            for a in chain:
                anc_pairs.append((n, a))
            for name, coll, ns in zoo.kid_lists(n):
                for c in ns:
                    walk(c, chain + [n])
        walk(root, [])
        for (n, a) in rng.sample(anc_pairs, min(30, len(anc_pairs))):
            q([A("depth"), tk(n), tk(a), False], lambda: t.get_depth(n, a, check_ancestor=False), int)
            q([A("depth"), tk(n), tk(a), True], lambda: t.get_depth(n, a), int)
            q([A("isanc"), tk(n), tk(a)], lambda: t.is_ancestor(n, a), bool)
            # queries must not depend on earlier queries: absolute depths again after relative ones, for the node
            # and for the nodes between it and the ancestor
            q([A("depth"), tk(n), None, True], lambda: t.get_depth(n), int)
            try:
                p_ = t.get_parent(n)
                while p_ is not None and p_ is not a:
                    q([A("depth"), tk(p_), None, True], lambda: t.get_depth(p_), int)
                    p_ = t.get_parent(p_)
            except Exception:  # noqa  (a library that answers wrongly here is caught by the queries themselves)
                pass
            q([A("anc"), tk(n)], lambda: list(t.get_ancestors(n)), lambda l: [tk(x) for x in l])
        line = dumps([A("tree-queries"), zoo.class_table(), orgs.sexp(), [A("tree"), tree_s],
                      [A("foreign")] + foreign_s, [A("queries")] + qs])
        desc = zoo.show(root) + f" foreign={len(foreign)}" + (" [duplicate of a detached tree whose Tree object is still alive]" if keep else "")
        cv.__exit__()
        yield Case("tree-queries", line, dumps(real), len(nodes) >= 4, desc + f" TRACE_LOGGING={cv.on}", sig="tree|queries")
        # oracle on get_xpath
        fail = None
        xps = {}
        for n in nodes:
            xp = t.get_xpath(n)
            if xp in xps:
                fail = f"nodes {tk(xps[xp])} and {tk(n)} share xpath {xp}"
                break
            xps[xp] = n
            if follow(root, xp) is not n:
                fail = f"following {xp} from the root does not reach node {tk(n)}"
                break
        yield Case("xpath-follow", None, None, len(nodes) >= 4, desc, oracle_fail=fail, sig="tree|xpath-follow")
