"""C20 — legacy walkers (AwareASTNode.dfs / bfs / gather with skip_self, prune, filter, bottom_up),
legacy ASTXpath (parse, match along the parent chain) and calculate_xpath of the real code vs. the
Lean model, which Props/C20.lean proves equal to the C05 order specifications (start node offered
to filter / prune like any other node unless skipped), to the documented path semantics `sat` of
C07 along the node's chain, and to the spelling of the chain."""
from __future__ import annotations

import itertools
import json
import os
import random
import signal
import subprocess
import sys
import types
from pathlib import Path
from dataclasses import dataclass

from pyoak.legacy.match.error import ASTXpathDefinitionError
from pyoak.legacy.match.xpath import ASTXpath
try:        # an internal sentinel class, read only by the mechanism-level (K2) comparison of parsed element lists
    from pyoak.legacy.match.xpath import ASTXpathAnywhereElement
except ImportError:                      # a library without it: every element is encoded by its four attributes
    ASTXpathAnywhereElement = ()

from pyoak.origin import NO_ORIGIN

from proto import A, dumps
from run import Case
import zoo_c20 as z
from kernels_tie import optional_legacy_xpath as optional_obligation  # noqa: F401  (legacy `_match_node_xpath` regenerated from legacy/match/xpath.py: optional bridge)

PROPERTY = "C20"
LEAN_MODULE = "PyOak.Props.C20All"
THEOREMS = ["PyOak.C20." + t for t in [
    "children_eq", "ldfsLoop_sim", "lbfsLoop_sim",
    "ldfs_top_down", "ldfs_bottom_up", "ldfs_skip_self", "ldfs_start_like_any_position",
    "lbfs_levels", "lbfs_skip_self", "lgather_eq",
    "lmatchElem_eq", "lmatch_eq_matchUpC", "legacy_match_eq_sat", "lwalk_agrees", "lparse_head_ok",
    "legacy_match_parsed", "digitsVal_natStr", "parseStepBody_render", "lparseSteps_render",
    "legacy_transformer_reads_path", "legacy_written_path",
    "calc_xpath_iff", "calc_spells_chain", "calc_sound", "calc_nodes"]]
# Props/C20Text.lean (after AUDIT.md): the character level for the legacy constructor (lexer + step parser + transformer
# walk + matcher composed, absolute and relative texts), agreement with the successor from the same text, and the
# value calculate_xpath finally stores on each node object (= Tree.get_xpath)
THEOREMS += ["PyOak.C20." + t for t in [
    "lparseXPath_render", "lparseXPath_render_rel", "legacy_text_agrees_with_successor", "calc_final", "calc_eq_get_xpath",
    "lparseXPath_unknown_class_rejected", "parseXPath_unknown_class_rejected"]]
# THE LINK TO THE LEGACY HEAP (Props/C20Heap*.lean, C20ParentClean.lean): the abstraction function treeOf from the C18 heap
# to tree values, the heap's parent chain = the chain of the represented tree, the heap-level matcher / walkers /
# calculate_xpath (Model/LegacyHeapWalk.lean: they follow the heap's parent pointers and child fields) = the chain- / tree-level
# models = the successor on the represented tree, for every Inv + acyclic + parent-clean state, hence after every admissible history
THEOREMS += ["PyOak.C20." + t for t in [
    "treeOf_unfold", "treeOf_edges", "treeOf_children", "treeOf_noRepeat", "treeOf_size_le", "mem_allNodes_treeOf",
    "kidList_nodup", "desc_comparable", "heapChain_isChain", "topOf_spec", "heapChain_unique",
    "lmatchElemH_eq", "lmatchH_eq_lmatch", "lxmatchH_eq_lxmatch", "legacy_match_heap", "legacy_match_heap_successor",
    "legacy_match_heap_text", "legacy_match_heap_detached", "topOf_of_desc", "findall_heap",
    "parentClean_step", "parentClean_run", "parentClean_run_init", "reachable_ok", "legacy_match_heap_run",
    "ldfsLoop_fuel", "lbfsLoop_fuel", "hdfsLoop_sim", "hbfsLoop_sim", "heap_dfs_of_size", "heap_bfs_of_size", "heap_dfs", "heap_bfs", "heap_gather",
    "heap_dfs_successor", "heap_bfs_successor", "heap_gather_successor", "heap_items_agree",
    "hsetXpath_eq", "heap_calc_xpath", "heap_calc_refused", "heap_calc_eq_get_xpath", "heap_walks_run",
    "legacy_match_heap_dirty_fails"]]
PARTIAL = ["text level: proved for written paths with canonical decimal indices and any admissible white space "
           "(lparseXPath_render / lparseXPath_render_rel: lexer, step parser, transformer walk and matcher composed); "
           "the converse (parser soundness: an accepted text IS a written path, zero-padded numerals and empty steps included, "
           "accepted by the legacy constructor iff by its successor) is proved in Props/C17Legacy.lean (C17.lparse_accepts_iff, "
           "legacy_accepts_iff_successor, legacy_and_successor_same_path, listed under C17); the model's lparseXPath collapses "
           "every failure to the one definition error",
           "heap link (legacy_match_heap, heap_dfs / heap_bfs / heap_gather, heap_calc_xpath and their *_run corollaries): proved "
           "for every state satisfying C18's Inv whose child graph is acyclic (C18.Ranked; Inv alone admits cycles: "
           "C18.cyclic_reachable) and whose parent slots are clean (ParentClean, an invariant of EVERY step whatever its "
           "outcome: parentClean_step; without it the statement is false: legacy_match_heap_dirty_fails), hence after every "
           "ADMISSIBLE history from the empty world (C18.AdmRun: side conditions of C18 on construct / replace requests, "
           "no node put below itself, every outcome a return or a documented error) and for every ATTACHED node; for objects that are "
           "not attached only the matcher is covered (legacy_match_heap_detached: the one-member chain) and the walks under an "
           "explicit size hypothesis (heap_dfs_of_size / heap_bfs_of_size); nothing is claimed for histories through the transform visitor "
           "(stepX), which C18 treats as runs of primitive operations; the cached `_xpath` attribute is not part of the heap "
           "model: heap_calc_xpath states the assignments calculate_xpath makes, not later reads of node.xpath"]
RULE = ("attached legacy trees from harness/zoo_c20.py (single / optional / tuple / list child fields, subclass chain, "
        "collections of length 11-14, content-identical twins) x start node (root and inner nodes) x prune / filter "
        "predicates given as subsets of node objects x bottom_up x skip_self; thorough additionally enumerates all "
        "prune x filter subsets for start subtrees with <= 4 nodes.  xpaths: 70% spelled from the chain of a random "
        "node (1-4 aligned members, anywhere gaps, field / index / class kept or perturbed, indices up to 13 and "
        "multi-digit / zero-padded), 30% free grammar walks incl. single-token mutations and random strings over the "
        "grammar alphabet; random whitespace between tokens; every node of the tree is a match() argument.  "
        "calculate_xpath on every tree, and HISTORIES: calculate_xpath, then successful edits of the attached tree at "
        "random depths (replace_with a fresh / pre-calculated / previously removed subtree or None, replace() of a "
        "property, of a child, adding a child at the front / back of a collection, no-op detach of an inner node, root "
        "detach + attach), calculate_xpath again after the edit(s), every node of the CURRENT tree compared with the "
        "model's spelling of its chain.  ORDER OF DEFINITION histories: a text naming a fresh class is used before the "
        "class exists (must be rejected with the definition error), the class is then defined (exec in a throw-away "
        "module, subclass of a zoo class or of another late class), the same text and new texts are compiled and "
        "matched against the model with the extended class table.  HEAP level (request lhxpath, harness/c20_heap_worker.py in a "
        "fresh process with the C18 zoo): seeded histories of real legacy operations (the C18 / C19 generator: construct, attach, "
        "detach, detach_self, replace, replace_with, duplicate, accepted and rejected mixed, 15-40 operations), then on the final "
        "state for EVERY object ever seen, attached or not: ASTXpath(text).match(obj) for 6-10 texts spelled from the real parent "
        "chains (kept / perturbed class, field, index, // gaps, relative and absolute, malformed and unknown-class texts), "
        "list(obj.ancestors()), obj.dfs x {bottom_up} x {skip_self}, obj.bfs x {skip_self}, obj.gather, with prune / filter as "
        "random object sets, obj.calculate_xpath() + the xpath of every node below; the model replays the history on its heap and "
        "answers with the heap-level definitions (lxmatchH, Legacy.ancestors, hdfsImpl, hbfsImpl, hgatherImpl, hcalcXpath).  "
        "Non-trivial = tree (or start subtree) has >= 3 nodes (for xpath: and the "
        "text parses and matches at least one node); distinct by request line")
TRUSTED = ["heap-level cases: the model heap after the history equals the real object graph (that is C18's K1 correspondence, "
           "which dumps parent / parent_field / parent_index / child fields of every object after every operation); a "
           "desynchronised history would show as a mismatch here as well",
           "lark LALR engine + contextual lexer are re-modelled by a hand-written lexer / recursive-descent parser",
           "tree-level cases (ldfs / lbfs / lgather / lxpath / lcalc): the model reads the chain off the structure of the tree "
           "value; that this is what the heap's parent pointers give is now a theorem (heapChain_isChain / heapChain_unique / "
           "legacy_match_heap, given C18's invariant) and is exercised by the heap-level cases",
           "prune / filter callbacks are modelled as pure functions of the node object",
           "optional tie by translation (legacy `_match_node_xpath`): harness/py2lean_k.py `generate_legacy_xpath` + its idiom table "
           "LEGACY_IDIOMS (node.parent / parent_field / parent_index / ancestors() / isinstance as abstract primitives of the node, "
           "instantiated in Props/GenBridgeLegacyXPath.lean with the heap model's LState.parent / pfield / pindex / Legacy.ancestors / mro; "
           "the sentinel class test as a constructor test; truthiness of Optional[Field] = `is not None`; one unit of fuel per call depth)"]
ASSUMPTIONS = ["trees are attached and admissible: every node object was created once and sits at exactly one position",
               "history edits are the library's own operations and are only continued while they succeed (a rejected "
               "edit ends the history: rollback is property C19); a class is not re-declared under the same name",
               "prune / filter callbacks are pure and total"]
BUDGET = {"quick": 200, "thorough": 1800}

FIELDS = ["arg", "left", "right", "c", "items", "elems", "z", "a", "child", "root", "nofield"]
CLASSES = [c.__name__ for c in z.ALL_CLASSES] + ["AwareASTNode"]
BAD_CLASSES = ["Nope", "ASTNode", "CodeOrigin", "Source", "lleaf", "NoOrigin"]


# ------------------------------------------------------------------ guard against hangs

class Hang(Exception):
    pass


class _FalsyCallable:
    def __init__(self, fn):
        self.fn = fn

    def __call__(self, n):
        return self.fn(n)

    def __len__(self):
        return 0


def _vt(signum, frame):
    raise Hang()


def guarded(fn):
    """run one real-code operation under a 2 s (CPU) alarm; returns (value, None) or (None, tag)"""
    old = signal.signal(signal.SIGVTALRM, _vt)
    signal.setitimer(signal.ITIMER_VIRTUAL, 2.0)
    try:
        return fn(), None
    except Hang:
        return None, "HANG"
    except Exception as e:  # noqa
        return None, type(e).__name__
    finally:
        signal.setitimer(signal.ITIMER_VIRTUAL, 0)
        signal.signal(signal.SIGVTALRM, old)


def _obs(toks, fn):
    v, err = guarded(lambda: [toks.tok(n) for n in fn()])
    if err is not None:
        return dumps([A("raise"), A(err)])
    return dumps([A("ok")] + v)


# ------------------------------------------------------------------ walkers

def _walk_cases(rng, start, all_subsets: bool, desc_root: str):
    toks = z.Tokens()
    tree = z.enc_tree(start, toks)
    env = [z.class_table(), [A("tree"), tree]]
    nodes = [start] + [c for (c, p, f, i) in z.positions(start)]
    ids = [toks.tok(n) for n in nodes]
    by_id = {id(n): toks.tok(n) for n in nodes}
    nontriv = len(nodes) >= 3
    desc = f"start={z.show(start)} in {desc_root}" if desc_root else f"start=root {z.show(start)}"

    def subsets():
        if all_subsets:
            for r in range(len(ids) + 1):
                for s in itertools.combinations(ids, r):
                    for r2 in range(len(ids) + 1):
                        for s2 in itertools.combinations(ids, r2):
                            yield set(s), set(s2)
        else:
            yield set(), None
            for _ in range(3):
                p = rng.choice([0.0, 0.15, 0.4])
                q = rng.choice([1.0, 0.7, 0.3])
                pr = {k for k in ids if rng.random() < p}
                if rng.random() < 0.25:
                    pr.add(ids[0])                      # prune the start node itself
                fl = {k for k in ids if rng.random() < q}
                if rng.random() < 0.3:
                    fl.discard(ids[0])                  # filter the start node out
                yield pr, fl

    for prune, filt in subsets():
        pf = (lambda n: by_id[id(n)] in prune)  # noqa
        ff = None if filt is None else (lambda n: by_id[id(n)] in filt)
        positional = rng.random() < 0.4
        if rng.random() < 0.3:
            # callbacks given as falsy callable objects are callbacks all the same (only None means "no callback")
            pf = _FalsyCallable(pf)
            ff = None if ff is None else _FalsyCallable(ff)
        extra = [[A("prune")] + sorted(prune)]
        if filt is not None:
            extra.append([A("filter")] + sorted(filt))
        d2 = f"{desc} prune={sorted(prune)} filter={None if filt is None else sorted(filt)}"
        for skip in (False, True):
            for bu in (False, True):
                if positional:      # the documented parameter order, arguments by position
                    real = _obs(toks, lambda: start.dfs(pf if (prune or all_subsets) else None, ff, bu, skip))
                else:
                    real = _obs(toks, lambda: start.dfs(prune=pf if (prune or all_subsets) else None, filter=ff,
                                                        bottom_up=bu, skip_self=skip))
                yield Case("ldfs", dumps([A("ldfs")] + env + extra + [[A("bottom_up"), bu], [A("skip_self"), skip]]),
                           real, nontriv, d2 + f" bottom_up={bu} skip_self={skip}",
                           sig=f"ldfs|bottom_up={bu}|skip_self={skip}")
            if positional:
                real = _obs(toks, lambda: start.bfs(pf if (prune or all_subsets) else None, ff, skip))
            else:
                real = _obs(toks, lambda: start.bfs(prune=pf if (prune or all_subsets) else None, filter=ff,
                                                    skip_self=skip))
            yield Case("lbfs", dumps([A("lbfs")] + env + extra + [[A("skip_self"), skip]]), real, nontriv,
                       d2 + f" skip_self={skip}", sig=f"lbfs|skip_self={skip}")
        if all_subsets and rng.random() < 0.9:
            continue
        classes = rng.sample(z.ALL_CLASSES, rng.randint(1, 3))
        exact = rng.random() < 0.4
        single = len(classes) == 1 and rng.random() < 0.5
        skip = rng.random() < 0.5
        real = _obs(toks, lambda: start.gather(classes[0] if single else tuple(classes), exact_type=exact,
                                               extra_filter=ff, prune=pf if prune else None, skip_self=skip))
        yield Case("lgather", dumps([A("lgather")] + env + extra + [
            [A("gclasses")] + [c.__name__ for c in classes], [A("exact"), exact], [A("skip_self"), skip]]),
                   real, nontriv, d2 + f" classes={[c.__name__ for c in classes]} exact={exact} skip_self={skip}",
                   sig="lgather")


# ------------------------------------------------------------------ xpath texts

def ws(rng):
    return rng.choice(["", "", "", " ", "  ", "\t", "\n", " \r\n"])


def render(rng, toks):
    out = ""
    prev = None
    for t in toks:
        sep = ws(rng) if out else ""
        # two adjacent name/digit tokens need a separator to stay two tokens
        if prev is not None and (prev[-1].isalnum() or prev[-1] == "_") and (t[0].isalnum() or t[0] == "_") \
                and sep == "" and not (prev.isdigit() and t.isdigit()):
            sep = " "
        out += sep + t
        prev = t
    return out + (ws(rng) if out else "")


def gen_step(rng, need_class):
    parts = []
    if rng.random() < 0.45:
        parts += ["@", rng.choice(FIELDS)]
    if rng.random() < 0.4:
        k = rng.random()
        if k < 0.15:
            digits = ""
        elif k < 0.25:
            digits = "0" + str(rng.randint(0, 13))
        else:
            digits = str(rng.choice([0, 0, 1, 1, 2, 3, 9, 10, 11, 12, 13, 21]))
        parts += ["["] + list(digits) + ["]"]
    if need_class or rng.random() < 0.6:
        parts.append(rng.choice(BAD_CLASSES) if rng.random() < 0.04 else rng.choice(CLASSES))
    return parts


def gen_free(rng):
    k = rng.random()
    if k < 0.08:
        # random string over the grammar alphabet
        return "".join(rng.choice(["/", "/", "@", "[", "]", "1", "0", " ", "LLeaf", "items", "_", "$", "é", "-"])
                       for _ in range(rng.randint(0, 7))).lstrip()
    n = rng.choice([1, 1, 2, 2, 3, 4])
    toks = []
    for i in range(n):
        sep = rng.choice(["/", "/", "//", "///"] if rng.random() < 0.1 else ["/", "/", "//"]) \
            if (i > 0 or rng.random() < 0.75) else ""
        toks += list(sep)
        toks += gen_step(rng, i == n - 1)
    if rng.random() < 0.12 and toks:
        j = rng.randrange(len(toks))
        k = rng.random()
        if k < 0.4:
            del toks[j]
        elif k < 0.7:
            toks.insert(j, toks[j])
        else:
            toks[j] = rng.choice(["/", "@", "[", "]", "A", "1", "$", "é", "-1"])
    return render(rng, toks)


def gen_derived(rng, chains, classes=None, prefer=None):
    """an xpath spelled from the chain of a random node of the tree (mostly matching); `prefer`:
    chains to choose from with probability 0.7"""
    classes = CLASSES if classes is None else classes
    chain = rng.choice(prefer) if (prefer and rng.random() < 0.7) else rng.choice(chains)
    big = [ch for ch in chains if any(i is not None and i >= 10 for (_n, _f, i) in ch)]
    want_big = bool(big) and rng.random() < 0.3
    if want_big and not prefer:
        chain = rng.choice(big)
    else:
        want_big = False
    idxs = set(rng.sample(range(len(chain)), min(len(chain), rng.choice([1, 1, 2, 3, 4]))) + [len(chain) - 1])
    if want_big:
        idxs |= {j for j, (_n, _f, i) in enumerate(chain) if i is not None and i >= 10}
    idxs = sorted(idxs)
    toks = []
    prev = -1
    for k, j in enumerate(idxs):
        n, f, i = chain[j]
        gap = j - prev > 1
        prev = j
        if k == 0:
            if j > 0:
                sep = rng.choice(["//", "//", ""])          # relative path == anywhere
            else:
                sep = rng.choice(["/", "/", "//", ""])
        else:
            sep = "//" if (gap or rng.random() < 0.15) else "/"
        if sep == "//" and rng.random() < 0.05:
            sep = "///"
        toks += list(sep)
        if f is not None and rng.random() < 0.6:
            toks += ["@", f if rng.random() < 0.93 else rng.choice(FIELDS)]
        if (rng.random() < 0.55 or (want_big and i is not None and i >= 10)) and (i is not None or rng.random() < 0.2):
            d = i if (i is not None and rng.random() < 0.85) else rng.choice([0, 1, 10, 11])
            ds = str(d) if rng.random() < 0.9 else "0" + str(d)
            toks += ["["] + list(ds) + ["]"]
        elif rng.random() < 0.08:
            toks += ["[", "]"]
        if k == len(idxs) - 1 or rng.random() < 0.7:
            mro = [c.__name__ for c in type(n).__mro__ if c.__name__ in classes]
            toks.append(rng.choice(mro) if rng.random() < 0.92 else rng.choice(classes))
    return render(rng, toks)


def _els(xp):
    out = []
    for e in xp._elemetns:
        if isinstance(e, ASTXpathAnywhereElement):
            out.append(A("anywhere"))
        else:
            out.append([e.ast_class.__name__, e.parent_field, e.parent_index, e.anywhere])
    return out


N_MATCHED = 0
N_IDX2 = 0
HIST = {"recalculations_after_edit": 0, "edits_applied": {}, "edits_rejected_history_ended": 0,
        "edit_depth_ge_2": 0}
LATE = {"classes_defined_after_first_use": 0, "texts_rejected_before_definition": 0,
        "texts_accepted_after_definition": 0, "of_which_matching_a_node": 0}


HEAP = {"histories": 0, "histories_skipped": 0, "operations_replayed": 0, "objects_queried": 0, "worker_failures": 0}


def extra_coverage():
    return {"xpath_cases_with_a_match": N_MATCHED, "xpath_cases_with_two_digit_index_matching": N_IDX2,
            "calc_histories": HIST, "late_class_histories": LATE, "heap_histories": HEAP}


# ------------------------------------------------------------------ heap level (legacy histories, fresh process)

def heap_history_cases(rng, n_hist, lo, hi):
    """legacy HISTORIES on the real code, then xpath match / ancestors / dfs / bfs / gather / calculate_xpath on every object
    of the final heap, against the heap-level model (request `lhxpath`); run in a fresh interpreter (the C18 zoo and the C20
    zoo define classes of the same names): see harness/c20_heap_worker.py"""
    worker = Path(__file__).resolve().parents[1] / "c20_heap_worker.py"
    seed = rng.getrandbits(32)
    lines, err = [], ""
    try:
        p = subprocess.run([sys.executable, str(worker), str(seed), str(n_hist), str(lo), str(hi)], capture_output=True,
                           text=True, timeout=1500, env=dict(os.environ))
        lines = [ln for ln in p.stdout.splitlines() if ln.startswith("{")]
        err = (p.stderr or "")[-400:]
        if p.returncode != 0:
            lines = lines if lines else []
            HEAP["worker_failures"] += 1
            yield Case("lhxpath-worker", None, None, True, f"worker exit {p.returncode}: {err}",
                       oracle_fail="the heap-history worker failed", sig="lhxpath|worker")
    except Exception as e:  # noqa
        HEAP["worker_failures"] += 1
        yield Case("lhxpath-worker", None, None, True, f"worker raised {type(e).__name__}: {e}"[:300],
                   oracle_fail="the heap-history worker failed", sig="lhxpath|worker")
        return
    for ln in lines:
        r = json.loads(ln)
        if "skip" in r:
            HEAP["histories_skipped"] += 1
            continue
        HEAP["histories"] += 1
        HEAP["operations_replayed"] += r["ops"]
        HEAP["objects_queried"] += r["objects"]
        for k, v in r["stats"].items():
            HEAP[k] = HEAP.get(k, 0) + v
        yield Case("lhxpath", r["line"], r["real"], r["nontrivial"], r["desc"], sig="lhxpath|history")


def xpath_cases(rng, root, env, toks, chains, text, desc):
    global N_MATCHED, N_IDX2
    xp, err = guarded(lambda: ASTXpath(text))
    if err is not None:
        if err == ASTXpathDefinitionError.__name__:
            yield Case("lxpath_reject", dumps([A("lxpath"), env[0], [A("text"), text]]),
                       dumps([A("raise"), A("ASTXpathDefinitionError")]), False, f"text={text!r}", sig="lxpath|parse")
        else:
            yield Case("lxpath_reject", None, None, True, f"text={text!r}",
                       oracle_fail=f"legacy ASTXpath(text) raised {err}, not the definition error",
                       sig="lxpath|other-exception")
        return
    # mechanism level: the element list
    yield Case("lxpath_elements", dumps([A("lxpath"), env[0], [A("text"), text]]), dumps([A("ok")] + _els(xp)),
               False, f"text={text!r}", sig="lxpath|elements", k2=True)
    nodes = [ch[-1][0] for ch in chains]
    ms, err = guarded(lambda: [[toks.tok(n), bool(xp.match(n))] for n in nodes])
    if err is not None:
        real = dumps([A("raise"), A(err)])
        nontriv = False
    else:
        real = dumps([A("ok")] + ms)
        hit = [ch for ch, m in zip(chains, ms) if m[1]]
        nontriv = len(nodes) >= 3 and bool(hit)
        N_MATCHED += 1 if nontriv else 0
        if any(ch[-1][2] is not None and ch[-1][2] >= 10 for ch in hit) and "[1" in text.replace(" ", ""):
            N_IDX2 += 1
    yield Case("lxpath", dumps([A("lxpath")] + env + [[A("text"), text]]), real, nontriv,
               f"text={text!r} tree={desc}", sig="lxpath|match")


def calc_case(root, env, toks, chains, desc):
    nodes = [ch[-1][0] for ch in chains]

    def run():
        r = root.calculate_xpath()
        if r is not True:
            return None
        return [[toks.tok(n), n.xpath] for n in nodes]

    before = [n.xpath for n in nodes]
    v, err = guarded(run)
    if err is not None:
        real = dumps([A("raise"), A(err)])
    elif v is None:
        real = dumps([A("ok"), A("refused")])
    else:
        real = dumps([A("ok")] + v)
    oracle = None
    if any(b is not None for b in before):
        oracle = "a freshly built node already has an xpath"
    return Case("lcalc", dumps([A("lcalc")] + env), real, len(nodes) >= 3, f"tree={desc}", oracle_fail=oracle,
                sig="lcalc")


# ------------------------------------------------------------------ calculate_xpath histories

def _calc_obs(root, tag):
    """calculate_xpath on the CURRENT tree; the request describes the current tree from the harness'
    own walk of the stored fields (fresh tokens per observation)"""
    toks = z.Tokens()
    tree = z.enc_tree(root, toks)
    chains = z.chains(root)
    nodes = [ch[-1][0] for ch in chains]

    def run():
        r = root.calculate_xpath()
        if r is not True:
            return None
        return [[toks.tok(n), n.xpath] for n in nodes]

    v, err = guarded(run)
    if err is not None:
        real = dumps([A("raise"), A(err)])
    elif v is None:
        real = dumps([A("ok"), A("refused")])
    else:
        real = dumps([A("ok")] + v)
    return Case("lcalc_history", dumps([A("lcalc"), z.class_table(), [A("tree"), tree]]), real, len(nodes) >= 3,
                f"history: {tag} ; current tree={z.show(root)}", sig="lcalc|history")


def _coll_value(old, items):
    return list(items) if isinstance(old, list) else tuple(items)


def history_cases(rng, n_hist, size_choices):
    """calculate_xpath / edit / calculate_xpath ... on one attached tree"""
    for _ in range(n_hist):
        g = z.LGen(rng, twins=0.05)
        root = g.tree(rng.choice(size_choices))
        log = ["build " + z.show(root)]
        removed = []          # subtrees taken out by replace_with (detached, stale xpaths)
        yield _calc_obs(root, "first calculate_xpath on " + log[0])
        pending = 0
        for _step in range(rng.choice([1, 2, 3, 4, 6])):
            chains = z.chains(root)
            deep = [ch for ch in chains if len(ch) >= 3]
            ch = rng.choice(deep) if (deep and rng.random() < 0.75) else rng.choice(chains)
            inner = [c for c in (deep or chains) if z.CHILD_FIELDS[type(c[-1][0])]]
            if inner and rng.random() < 0.3:
                ch = rng.choice(inner)
            n, f, i = ch[-1]
            parent = ch[-2][0] if len(ch) > 1 else None
            where = "".join(f"/@{ff or 'root'}[{ii if ii is not None else '-'}]{type(nn).__name__}" for nn, ff, ii in ch)

            def fresh():
                k = rng.random()
                if removed and k < 0.2:
                    sub = removed.pop(rng.randrange(len(removed)))
                    return sub, "previously removed " + z.show(sub)
                sub = g.tree(rng.choice([1, 1, 2, 3, 6]))
                if k < 0.5:
                    sub.calculate_xpath()          # stale '/@root[0]…' paths from its own life as a root
                    return sub, "pre-calculated " + z.show(sub)
                return sub, z.show(sub)

            colls = [(name, getattr(n, name)) for name, coll in z.CHILD_FIELDS[type(n)] if coll]
            opts = [name for name, coll in z.CHILD_FIELDS[type(n)] if not coll]
            kinds = ["rw_node", "rw_node", "replace_prop"]
            if parent is not None:
                kinds += ["detach_noop"]
                if i is not None or (type(parent), f) in {(z.LOpt, "c"), (z.LMixed, "a"), (z.LNames, "child"),
                                                         (z.LNames, "root")}:
                    kinds += ["rw_none", "rw_none"]
            else:
                kinds += ["root_detach_attach"]
            if colls:
                kinds += ["add_front", "add_back", "add_back"]
            if opts:
                kinds += ["set_child"]
            kind = rng.choice(kinds)
            new_root = [root]

            def op():
                if kind == "rw_node":
                    sub, d = fresh()
                    n.replace_with(sub)
                    removed.append(n)
                    if parent is None:
                        new_root[0] = sub
                    return f"{where}.replace_with({d})"
                if kind == "rw_none":
                    n.replace_with(None)
                    removed.append(n)
                    return f"{where}.replace_with(None)"
                if kind == "replace_prop":
                    if isinstance(n, z.LLeaf):
                        ch_ = {"v": 9000 + rng.randint(0, 10 ** 6)}
                    elif isinstance(n, z.LMixed):
                        ch_ = {"name": n.name + "x"}
                    else:
                        ch_ = {"origin": NO_ORIGIN}
                    m = n.replace(**ch_)
                    if parent is None:
                        new_root[0] = m
                    return f"{where}.replace({ch_})"
                if kind in ("add_front", "add_back"):
                    name, old = rng.choice(colls)
                    sub, d = fresh()
                    items = [sub] + list(old) if kind == "add_front" else list(old) + [sub]
                    m = n.replace(**{name: _coll_value(old, items)})
                    if parent is None:
                        new_root[0] = m
                    return f"{where}.replace({name}=<{kind} {d}>)"
                if kind == "set_child":
                    name = rng.choice(opts)
                    sub, d = fresh()
                    oldc = getattr(n, name)
                    m = n.replace(**{name: sub})
                    if oldc is not None:
                        removed.append(oldc)
                    if parent is None:
                        new_root[0] = m
                    return f"{where}.replace({name}={d})"
                if kind == "detach_noop":
                    r = n.detach()
                    return f"{where}.detach() -> {r}"
                if kind == "root_detach_attach":
                    r = root.detach()
                    c = root.calculate_xpath()
                    root.attach()
                    return f"root.detach() -> {r}; calculate_xpath() -> {c}; root.attach()"
                raise AssertionError(kind)

            d, err = guarded(op)
            if err is not None:
                # a rejected edit ends the history (what it leaves behind is C19's subject)
                HIST["edits_rejected_history_ended"] += 1
                break
            root = new_root[0]
            log.append(d)
            HIST["edits_applied"][kind] = HIST["edits_applied"].get(kind, 0) + 1
            HIST["edit_depth_ge_2"] += 1 if len(ch) >= 3 else 0
            pending += 1
            if rng.random() < 0.8:
                HIST["recalculations_after_edit"] += 1
                pending = 0
                yield _calc_obs(root, " ; ".join(log))
        if pending:
            HIST["recalculations_after_edit"] += 1
            yield _calc_obs(root, " ; ".join(log))


# ------------------------------------------------------------------ order of definition

_LATE_SERIAL = 0


def _define_late(name, base, extra_field):
    """define `class name(base)` by exec in a throw-away module (as a plugin imported later would)"""
    mod = types.ModuleType(f"c20_late_mod_{name}")
    mod.__dict__.update({"dataclass": dataclass, base.__name__: base})
    sys.modules[mod.__name__] = mod
    src = f"@dataclass\nclass {name}({base.__name__}):\n    " + (f"{extra_field}: int = 0\n" if extra_field else "pass\n")
    exec(src, mod.__dict__)
    cls = mod.__dict__[name]
    z.CHILD_FIELDS[cls] = list(z.CHILD_FIELDS[base])     # harness' own table (inherited child fields)
    return cls


class _LateGen(z.LGen):
    """zoo trees in which some leaves / containers are instances of late classes"""

    def __init__(self, rng, late):
        super().__init__(rng, twins=0.0)
        self.late = late

    def leaf(self):
        r = self.rng
        if r.random() < 0.45:
            cls = r.choice(self.late)
            self.serial += 1
            kw = {}
            if issubclass(cls, z.LLeaf):
                kw["v"] = 1000 + self.serial
            if issubclass(cls, z.LTup):
                kw["items"] = tuple(super(_LateGen, self).leaf() for _ in range(r.choice([0, 1, 2, 12])))
            if issubclass(cls, z.LOpt) and r.random() < 0.7:
                kw["c"] = super().leaf()
            if "w" in cls.__dataclass_fields__:
                kw["w"] = self.serial
            return cls(origin=NO_ORIGIN, **kw)
        return super().leaf()


def late_class_cases(rng, n_hist, per_hist):
    global _LATE_SERIAL
    for _ in range(n_hist):
        _LATE_SERIAL += 1
        tag = f"{_LATE_SERIAL}x{rng.randrange(10 ** 6)}"
        names = [f"C20Late{tag}A"] + ([f"C20Late{tag}B"] if rng.random() < 0.5 else [])
        base0 = rng.choice([z.LExpr, z.LLeaf, z.LLeaf, z.LLeaf2, z.LTup, z.LOpt])
        table0 = z.class_table()
        # 1. first use, before the classes exist: well-formed texts naming them must be rejected
        before = []
        for _k in range(rng.choice([1, 2, 3])):
            nm = rng.choice(names)
            step = rng.choice([[nm], ["@", rng.choice(["items", "elems", "c", "z"]), nm], ["[", "1", "]", nm],
                               ["@", "items", "[", "1", "1", "]", nm]])
            pre = rng.choice([[], ["/"], ["/", "/"], ["/", "LTup", "/"], ["/", "/", "LExpr", "/", "/"]])
            before.append(render(rng, pre + step))
        for text in before:
            xp, err = guarded(lambda: ASTXpath(text))
            d = f"before class definition: text={text!r}"
            if err == ASTXpathDefinitionError.__name__:
                LATE["texts_rejected_before_definition"] += 1
                yield Case("lxpath_reject", dumps([A("lxpath"), table0, [A("text"), text]]),
                           dumps([A("raise"), A("ASTXpathDefinitionError")]), False, d, sig="lxpath|parse")
            elif err is not None:
                yield Case("lxpath_reject", None, None, True, d,
                           oracle_fail=f"legacy ASTXpath(text) raised {err}, not the definition error",
                           sig="lxpath|other-exception")
            else:
                yield Case("lxpath_reject", dumps([A("lxpath"), table0, [A("text"), text]]),
                           dumps([A("ok")] + _els(xp)), False, d, sig="lxpath|parse")
        # 2. the classes get defined
        late = [_define_late(names[0], base0, rng.choice([None, "w"]))]
        if len(names) > 1:
            late.append(_define_late(names[1], rng.choice([late[0], base0, z.LExpr]), None))
        LATE["classes_defined_after_first_use"] += len(late)
        table1 = table0 + [[k.__name__ for k in c.__mro__] for c in late]
        classes1 = CLASSES + names
        g = _LateGen(rng, late)
        root = g.tree(rng.choice([3, 5, 8, 12, 20]))
        toks = z.Tokens()
        env = [table1, [A("tree"), z.enc_tree(root, toks)]]
        chains = z.chains(root)
        prefer = [ch for ch in chains if type(ch[-1][0]) in late]
        desc = z.show(root) + f" (late classes {[(c.__name__, c.__mro__[1].__name__) for c in late]} defined after " \
                              f"the texts {before!r} had been rejected)"
        # 3. the same texts again, then new ones
        texts = list(before) + [gen_derived(rng, chains, classes1, prefer) for _k in range(per_hist)]
        for text in texts:
            for c in xpath_cases(rng, root, env, toks, chains, text, desc):
                if c.kind == "lxpath" and any(nm in text for nm in names):
                    LATE["texts_accepted_after_definition"] += 1
                    LATE["of_which_matching_a_node"] += 1 if "true" in (c.real or "") else 0
                if c.kind != "lxpath":
                    c.desc += (f" ; AFTER the classes {[(k.__name__, k.__mro__[1].__name__) for k in late]} were defined"
                               f" (the texts {before!r} had been used, and rejected, before the definition)")
                yield c


# ------------------------------------------------------------------ driver

def _tree_cases(rng, root, n_xpaths, walkers=True):
    toks = z.Tokens()
    tree = z.enc_tree(root, toks)
    env = [z.class_table(), [A("tree"), tree]]
    chains = z.chains(root)
    desc = z.show(root)
    if walkers:
        yield from _walk_cases(rng, root, False, "")
        inner = [ch[-1][0] for ch in chains[1:] if z.kid_lists(ch[-1][0])]
        for start in rng.sample(inner, min(2, len(inner))):
            yield from _walk_cases(rng, start, False, desc)
    for _ in range(n_xpaths):
        text = gen_derived(rng, chains) if rng.random() < 0.7 else gen_free(rng)
        yield from xpath_cases(rng, root, env, toks, chains, text, desc)
    yield calc_case(root, env, toks, chains, desc)


def dynamic_field_cases(rng, n):
    """legacy traversal over classes whose child fields are recognised only by the values they hold (`typing.Sequence[Node]`,
    `typing.Any` annotations): dfs / bfs / gather enumerate the start node and exactly the descendant positions, in order"""
    import warnings
    from pyoak.origin import NO_ORIGIN as O
    for _ in range(n):
        fail = None
        try:
            with warnings.catch_warnings():
                warnings.simplefilter("ignore")
                k = [z.LLeaf(v=i, origin=O) for i in range(5)]
                s1 = z.LSeq(body=(k[0], k[1]), v=10, origin=O)
                box = z.LAnyKid(x=k[2], v=11, origin=O)
                mid = z.LSeq(body=(s1, box, k[3]), v=12, origin=O)
                root = z.LAnyKid(x=mid, v=13, origin=O) if rng.random() < 0.5 else z.LSeq(body=(mid,), v=13, origin=O)
                pre = [13, 12, 10, 0, 1, 11, 2, 3]
                post = [0, 1, 10, 2, 11, 3, 12, 13]
                lvl = [13, 12, 10, 11, 3, 0, 1, 2]
                val = lambda n_: getattr(n_, "v", None)  # noqa
                got = {"dfs": [val(n_) for n_ in root.dfs()], "dfs(bottom_up)": [val(n_) for n_ in root.dfs(bottom_up=True)],
                       "bfs": [val(n_) for n_ in root.bfs()], "dfs(skip_self)": [val(n_) for n_ in root.dfs(skip_self=True)],
                       "gather(LLeaf)": [val(n_) for n_ in root.gather(z.LLeaf)]}
                want = {"dfs": pre, "dfs(bottom_up)": post, "bfs": lvl, "dfs(skip_self)": pre[1:], "gather(LLeaf)": [0, 1, 2, 3]}
                for key in want:
                    if got[key] != want[key]:
                        fail = f"{key} yields {got[key]}, expected {want[key]}"
                        break
                root.detach()
        except Exception as e:  # noqa
            fail = f"raised {type(e).__name__}: {e}"[:200]
        yield Case("directed:dynamic-child-fields", None, None, True, "LAnyKid(x=…) / LSeq(body: typing.Sequence[LExpr]) tree: dfs / bfs / gather",
                   oracle_fail=fail, sig="ltraverse|directed|dynamic-child-fields")


def cases(rng: random.Random, tier: str):
    yield from dynamic_field_cases(rng, 6 if tier == "quick" else 60)
    n_trees = 400 if tier == "quick" else 4000
    per_tree = 12 if tier == "quick" else 20
    sizes = [1, 2, 3, 5, 8, 12, 20, 40] if tier == "quick" else [1, 2, 3, 5, 8, 12, 20, 40, 120, 300]
    for _ in range(n_trees):
        g = z.LGen(rng)
        root = g.tree(rng.choice(sizes))
        yield from _tree_cases(rng, root, per_tree)
    yield from history_cases(rng, 300 if tier == "quick" else 4000, [3, 5, 8, 12, 20, 40])
    yield from heap_history_cases(rng, 60 if tier == "quick" else 900, 15, 40)
    yield from late_class_cases(rng, 40 if tier == "quick" else 400, 6 if tier == "quick" else 10)
    if tier == "thorough":
        # exhaustive predicates on small start subtrees
        cnt = 0
        while cnt < 250:
            g = z.LGen(rng, long_colls=False)
            root = g.tree(rng.choice([2, 3, 4, 5]))
            if 2 <= 1 + sum(1 for _ in z.positions(root)) <= 4:
                cnt += 1
                yield from _walk_cases(rng, root, True, "")
