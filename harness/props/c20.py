"""C20 — legacy walkers (AwareASTNode.dfs / bfs / gather with skip_self, prune, filter, bottom_up),
legacy ASTXpath (parse, match along the parent chain) and calculate_xpath of the real code vs. the
Lean model, which Props/C20.lean proves equal to the C05 order specifications (start node offered
to filter / prune like any other node unless skipped), to the documented path semantics `sat` of
C07 along the node's chain, and to the spelling of the chain."""
from __future__ import annotations

import itertools
import random
import signal

from pyoak.legacy.match.error import ASTXpathDefinitionError
from pyoak.legacy.match.xpath import ASTXpath, ASTXpathAnywhereElement

from proto import A, dumps
from run import Case
import zoo_c20 as z

PROPERTY = "C20"
LEAN_MODULE = "PyOak.Props.C20"
THEOREMS = ["PyOak.C20." + t for t in [
    "children_eq", "ldfsLoop_sim", "lbfsLoop_sim",
    "ldfs_top_down", "ldfs_bottom_up", "ldfs_skip_self", "ldfs_start_like_any_position",
    "lbfs_levels", "lbfs_skip_self", "lgather_eq",
    "lmatchElem_eq", "lmatch_eq_matchUpC", "legacy_match_eq_sat", "lwalk_agrees", "lparse_head_ok",
    "legacy_match_parsed", "digitsVal_natStr", "parseStepBody_render", "lparseSteps_render",
    "legacy_transformer_reads_path", "legacy_written_path",
    "calc_xpath_iff", "calc_spells_chain", "calc_sound", "calc_nodes"]]
PARTIAL = ["text -> tokens (the character-level lexer: whitespace skipping, maximal CNAME, lark's contextual lexing) is "
           "modelled and exercised by the correspondence on every run but has no theorem; from tokens on (step parser "
           "incl. all index digits, transformer walk, matcher, denoted path) everything is proved"]
RULE = ("attached legacy trees from harness/zoo_c20.py (single / optional / tuple / list child fields, subclass chain, "
        "collections of length 11-14, content-identical twins) x start node (root and inner nodes) x prune / filter "
        "predicates given as subsets of node objects x bottom_up x skip_self; thorough additionally enumerates all "
        "prune x filter subsets for start subtrees with <= 4 nodes.  xpaths: 70% spelled from the chain of a random "
        "node (1-4 aligned members, anywhere gaps, field / index / class kept or perturbed, indices up to 13 and "
        "multi-digit / zero-padded), 30% free grammar walks incl. single-token mutations and random strings over the "
        "grammar alphabet; random whitespace between tokens; every node of the tree is a match() argument.  "
        "calculate_xpath on every tree.  Non-trivial = tree (or start subtree) has >= 3 nodes (for xpath: and the "
        "text parses and matches at least one node); distinct by request line")
TRUSTED = ["lark LALR engine + contextual lexer are re-modelled by a hand-written lexer / recursive-descent parser",
           "the parent / parent_field / parent_index bookkeeping of an attached legacy tree agrees with the storage "
           "positions (that is property C18); the model reads the chain off the structure",
           "prune / filter callbacks are modelled as pure functions of the node object"]
ASSUMPTIONS = ["trees are attached and admissible: every node object was created once and sits at exactly one position",
               "prune / filter callbacks are pure and total"]
BUDGET = {"quick": 200, "thorough": 1800}

FIELDS = ["arg", "left", "right", "c", "items", "elems", "z", "a", "child", "root", "nofield"]
CLASSES = [c.__name__ for c in z.ALL_CLASSES] + ["AwareASTNode"]
BAD_CLASSES = ["Nope", "ASTNode", "CodeOrigin", "Source", "lleaf", "NoOrigin"]


# ------------------------------------------------------------------ guard against hangs

class Hang(Exception):
    pass


def _vt(signum, frame):
    raise Hang()


def guarded(fn):
    """run one real-code operation under a 2 s (CPU) alarm; returns (value, None) or (None, tag)"""
    old = signal.signal(signal.SIGVTALRM, _vt)
    signal.setitimer(signal.ITIMER_VIRTUAL, 2.0)
    try:
        return fn(), None
    except Hang:
        return None, "HANG"
    except Exception as e:  # noqa
        return None, type(e).__name__
    finally:
        signal.setitimer(signal.ITIMER_VIRTUAL, 0)
        signal.signal(signal.SIGVTALRM, old)


def _obs(toks, fn):
    v, err = guarded(lambda: [toks.tok(n) for n in fn()])
    if err is not None:
        return dumps([A("raise"), A(err)])
    return dumps([A("ok")] + v)


# ------------------------------------------------------------------ walkers

def _walk_cases(rng, start, all_subsets: bool, desc_root: str):
    toks = z.Tokens()
    tree = z.enc_tree(start, toks)
    env = [z.class_table(), [A("tree"), tree]]
    nodes = [start] + [c for (c, p, f, i) in z.positions(start)]
    ids = [toks.tok(n) for n in nodes]
    by_id = {id(n): toks.tok(n) for n in nodes}
    nontriv = len(nodes) >= 3
    desc = f"start={z.show(start)} in {desc_root}" if desc_root else f"start=root {z.show(start)}"

    def subsets():
        if all_subsets:
            for r in range(len(ids) + 1):
                for s in itertools.combinations(ids, r):
                    for r2 in range(len(ids) + 1):
                        for s2 in itertools.combinations(ids, r2):
                            yield set(s), set(s2)
        else:
            yield set(), None
            for _ in range(3):
                p = rng.choice([0.0, 0.15, 0.4])
                q = rng.choice([1.0, 0.7, 0.3])
                pr = {k for k in ids if rng.random() < p}
                if rng.random() < 0.25:
                    pr.add(ids[0])                      # prune the start node itself
                fl = {k for k in ids if rng.random() < q}
                if rng.random() < 0.3:
                    fl.discard(ids[0])                  # filter the start node out
                yield pr, fl

    for prune, filt in subsets():
        pf = (lambda n: by_id[id(n)] in prune)  # noqa
        ff = None if filt is None else (lambda n: by_id[id(n)] in filt)
        extra = [[A("prune")] + sorted(prune)]
        if filt is not None:
            extra.append([A("filter")] + sorted(filt))
        d2 = f"{desc} prune={sorted(prune)} filter={None if filt is None else sorted(filt)}"
        for skip in (False, True):
            for bu in (False, True):
                real = _obs(toks, lambda: start.dfs(prune=pf if (prune or all_subsets) else None, filter=ff,
                                                    bottom_up=bu, skip_self=skip))
                yield Case("ldfs", dumps([A("ldfs")] + env + extra + [[A("bottom_up"), bu], [A("skip_self"), skip]]),
                           real, nontriv, d2 + f" bottom_up={bu} skip_self={skip}",
                           sig=f"ldfs|bottom_up={bu}|skip_self={skip}")
            real = _obs(toks, lambda: start.bfs(prune=pf if (prune or all_subsets) else None, filter=ff,
                                                skip_self=skip))
            yield Case("lbfs", dumps([A("lbfs")] + env + extra + [[A("skip_self"), skip]]), real, nontriv,
                       d2 + f" skip_self={skip}", sig=f"lbfs|skip_self={skip}")
        if all_subsets and rng.random() < 0.9:
            continue
        classes = rng.sample(z.ALL_CLASSES, rng.randint(1, 3))
        exact = rng.random() < 0.4
        single = len(classes) == 1 and rng.random() < 0.5
        skip = rng.random() < 0.5
        real = _obs(toks, lambda: start.gather(classes[0] if single else tuple(classes), exact_type=exact,
                                               extra_filter=ff, prune=pf if prune else None, skip_self=skip))
        yield Case("lgather", dumps([A("lgather")] + env + extra + [
            [A("gclasses")] + [c.__name__ for c in classes], [A("exact"), exact], [A("skip_self"), skip]]),
                   real, nontriv, d2 + f" classes={[c.__name__ for c in classes]} exact={exact} skip_self={skip}",
                   sig="lgather")


# ------------------------------------------------------------------ xpath texts

def ws(rng):
    return rng.choice(["", "", "", " ", "  ", "\t", "\n", " \r\n"])


def render(rng, toks):
    out = ""
    prev = None
    for t in toks:
        sep = ws(rng) if out else ""
        # two adjacent name/digit tokens need a separator to stay two tokens
        if prev is not None and (prev[-1].isalnum() or prev[-1] == "_") and (t[0].isalnum() or t[0] == "_") \
                and sep == "" and not (prev.isdigit() and t.isdigit()):
            sep = " "
        out += sep + t
        prev = t
    return out + (ws(rng) if out else "")


def gen_step(rng, need_class):
    parts = []
    if rng.random() < 0.45:
        parts += ["@", rng.choice(FIELDS)]
    if rng.random() < 0.4:
        k = rng.random()
        if k < 0.15:
            digits = ""
        elif k < 0.25:
            digits = "0" + str(rng.randint(0, 13))
        else:
            digits = str(rng.choice([0, 0, 1, 1, 2, 3, 9, 10, 11, 12, 13, 21]))
        parts += ["["] + list(digits) + ["]"]
    if need_class or rng.random() < 0.6:
        parts.append(rng.choice(BAD_CLASSES) if rng.random() < 0.04 else rng.choice(CLASSES))
    return parts


def gen_free(rng):
    k = rng.random()
    if k < 0.08:
        # random string over the grammar alphabet
        return "".join(rng.choice(["/", "/", "@", "[", "]", "1", "0", " ", "LLeaf", "items", "_", "$", "é", "-"])
                       for _ in range(rng.randint(0, 7))).lstrip()
    n = rng.choice([1, 1, 2, 2, 3, 4])
    toks = []
    for i in range(n):
        sep = rng.choice(["/", "/", "//", "///"] if rng.random() < 0.1 else ["/", "/", "//"]) \
            if (i > 0 or rng.random() < 0.75) else ""
        toks += list(sep)
        toks += gen_step(rng, i == n - 1)
    if rng.random() < 0.12 and toks:
        j = rng.randrange(len(toks))
        k = rng.random()
        if k < 0.4:
            del toks[j]
        elif k < 0.7:
            toks.insert(j, toks[j])
        else:
            toks[j] = rng.choice(["/", "@", "[", "]", "A", "1", "$", "é", "-1"])
    return render(rng, toks)


def gen_derived(rng, chains):
    """an xpath spelled from the chain of a random node of the tree (mostly matching)"""
    chain = rng.choice(chains)
    big = [ch for ch in chains if any(i is not None and i >= 10 for (_n, _f, i) in ch)]
    want_big = bool(big) and rng.random() < 0.3
    if want_big:
        chain = rng.choice(big)
    idxs = set(rng.sample(range(len(chain)), min(len(chain), rng.choice([1, 1, 2, 3, 4]))) + [len(chain) - 1])
    if want_big:
        idxs |= {j for j, (_n, _f, i) in enumerate(chain) if i is not None and i >= 10}
    idxs = sorted(idxs)
    toks = []
    prev = -1
    for k, j in enumerate(idxs):
        n, f, i = chain[j]
        gap = j - prev > 1
        prev = j
        if k == 0:
            if j > 0:
                sep = rng.choice(["//", "//", ""])          # relative path == anywhere
            else:
                sep = rng.choice(["/", "/", "//", ""])
        else:
            sep = "//" if (gap or rng.random() < 0.15) else "/"
        if sep == "//" and rng.random() < 0.05:
            sep = "///"
        toks += list(sep)
        if f is not None and rng.random() < 0.6:
            toks += ["@", f if rng.random() < 0.93 else rng.choice(FIELDS)]
        if (rng.random() < 0.55 or (want_big and i is not None and i >= 10)) and (i is not None or rng.random() < 0.2):
            d = i if (i is not None and rng.random() < 0.85) else rng.choice([0, 1, 10, 11])
            ds = str(d) if rng.random() < 0.9 else "0" + str(d)
            toks += ["["] + list(ds) + ["]"]
        elif rng.random() < 0.08:
            toks += ["[", "]"]
        if k == len(idxs) - 1 or rng.random() < 0.7:
            mro = [c.__name__ for c in type(n).__mro__ if c.__name__ in CLASSES]
            toks.append(rng.choice(mro) if rng.random() < 0.92 else rng.choice(CLASSES))
    return render(rng, toks)


def _els(xp):
    out = []
    for e in xp._elemetns:
        if isinstance(e, ASTXpathAnywhereElement):
            out.append(A("anywhere"))
        else:
            out.append([e.ast_class.__name__, e.parent_field, e.parent_index, e.anywhere])
    return out


N_MATCHED = 0
N_IDX2 = 0


def extra_coverage():
    return {"xpath_cases_with_a_match": N_MATCHED, "xpath_cases_with_two_digit_index_matching": N_IDX2}


def xpath_cases(rng, root, env, toks, chains, text, desc):
    global N_MATCHED, N_IDX2
    xp, err = guarded(lambda: ASTXpath(text))
    if err is not None:
        if err == ASTXpathDefinitionError.__name__:
            yield Case("lxpath_reject", dumps([A("lxpath"), env[0], [A("text"), text]]),
                       dumps([A("raise"), A("ASTXpathDefinitionError")]), False, f"text={text!r}", sig="lxpath|parse")
        else:
            yield Case("lxpath_reject", None, None, True, f"text={text!r}",
                       oracle_fail=f"legacy ASTXpath(text) raised {err}, not the definition error",
                       sig="lxpath|other-exception")
        return
    # mechanism level: the element list
    yield Case("lxpath_elements", dumps([A("lxpath"), env[0], [A("text"), text]]), dumps([A("ok")] + _els(xp)),
               False, f"text={text!r}", sig="lxpath|elements", k2=True)
    nodes = [ch[-1][0] for ch in chains]
    ms, err = guarded(lambda: [[toks.tok(n), bool(xp.match(n))] for n in nodes])
    if err is not None:
        real = dumps([A("raise"), A(err)])
        nontriv = False
    else:
        real = dumps([A("ok")] + ms)
        hit = [ch for ch, m in zip(chains, ms) if m[1]]
        nontriv = len(nodes) >= 3 and bool(hit)
        N_MATCHED += 1 if nontriv else 0
        if any(ch[-1][2] is not None and ch[-1][2] >= 10 for ch in hit) and "[1" in text.replace(" ", ""):
            N_IDX2 += 1
    yield Case("lxpath", dumps([A("lxpath")] + env + [[A("text"), text]]), real, nontriv,
               f"text={text!r} tree={desc}", sig="lxpath|match")


def calc_case(root, env, toks, chains, desc):
    nodes = [ch[-1][0] for ch in chains]

    def run():
        r = root.calculate_xpath()
        if r is not True:
            return None
        return [[toks.tok(n), n.xpath] for n in nodes]

    before = [n.xpath for n in nodes]
    v, err = guarded(run)
    if err is not None:
        real = dumps([A("raise"), A(err)])
    elif v is None:
        real = dumps([A("ok"), A("refused")])
    else:
        real = dumps([A("ok")] + v)
    oracle = None
    if any(b is not None for b in before):
        oracle = "a freshly built node already has an xpath"
    return Case("lcalc", dumps([A("lcalc")] + env), real, len(nodes) >= 3, f"tree={desc}", oracle_fail=oracle,
                sig="lcalc")


# ------------------------------------------------------------------ driver

def _tree_cases(rng, root, n_xpaths, walkers=True):
    toks = z.Tokens()
    tree = z.enc_tree(root, toks)
    env = [z.class_table(), [A("tree"), tree]]
    chains = z.chains(root)
    desc = z.show(root)
    if walkers:
        yield from _walk_cases(rng, root, False, "")
        inner = [ch[-1][0] for ch in chains[1:] if z.kid_lists(ch[-1][0])]
        for start in rng.sample(inner, min(2, len(inner))):
            yield from _walk_cases(rng, start, False, desc)
    for _ in range(n_xpaths):
        text = gen_derived(rng, chains) if rng.random() < 0.7 else gen_free(rng)
        yield from xpath_cases(rng, root, env, toks, chains, text, desc)
    yield calc_case(root, env, toks, chains, desc)


def cases(rng: random.Random, tier: str):
    n_trees = 400 if tier == "quick" else 4000
    per_tree = 12 if tier == "quick" else 20
    sizes = [1, 2, 3, 5, 8, 12, 20, 40] if tier == "quick" else [1, 2, 3, 5, 8, 12, 20, 40, 120, 300]
    for _ in range(n_trees):
        g = z.LGen(rng)
        root = g.tree(rng.choice(sizes))
        yield from _tree_cases(rng, root, per_tree)
    if tier == "thorough":
        # exhaustive predicates on small start subtrees
        cnt = 0
        while cnt < 250:
            g = z.LGen(rng, long_colls=False)
            root = g.tree(rng.choice([2, 3, 4, 5]))
            if 2 <= 1 + sum(1 for _ in z.positions(root)) <= 4:
                cnt += 1
                yield from _walk_cases(rng, root, True, "")
