"""C07 — xpath: parse / findall / find / match of the real code vs. the Lean model, plus the
in-process oracle findall == {n | match(root, n)}."""
from __future__ import annotations

import random

from pyoak.match.error import ASTXpathDefinitionError
from pyoak.match.xpath import ASTXpath
from pyoak.tree import Tree

from proto import A, dumps
from run import Case
import zoo

from kernels_tie import pre_build, restore_generated, build_failure_is_tie, build_ok, optional_obligation  # noqa: F401  (tie by translation)

PROPERTY = "C07"
LEAN_MODULE = "PyOak.Props.C07All"
THEOREMS = ["PyOak.C07." + t for t in [
    "sat_snoc", "matchUpC_eq_sat", "findall_sound", "findall_complete", "findall_complete_mem", "findall_iff",
    "findall_nodup", "find_first", "matchUpT_eq", "matchUpT_eq_sat", "match_eq_sat", "chain_length_le"]]
THEOREMS += ["PyOak.GenBridge.matchElem_eq_gen"]
THEOREMS += ["PyOak.C07P." + t for t in ["xlex_render", "parseSteps_render", "xwalk_spec", "digits_significant",
                                          "parseXPath_render", "parseXPath_render_rel"]]
# Props/C07Agree.lean (after AUDIT.md): findall <-> match on the entry points, "each once" on nodes, find,
# the step test spelled out, the declarative (segment) reading of sat, text -> meaning composed
THEOREMS += ["PyOak.C07." + t for t in [
    "findall_iff_match", "xmatch_total", "xmatch_foreign", "findall_nodup_uid", "findall_nodup_nodes", "findall_subset",
    "findall_exactly_matches", "xfind_first", "xfind_none_iff", "xfind_matches", "matchElem_iff", "matchElem_root",
    "sat_iff_segments", "sat_absolute_first", "text_findall_iff_match", "text_match_meaning", "digitsVal_zero_padded"]]
RULE = ("grammar-derived xpaths (1-4 steps, every anywhere/field/index/class combination, indices 0-13 and "
        "multi-digit/zero-padded, empty index, field names child/root/items, subclass hierarchies, random "
        "whitespace between tokens) x seeded zoo trees without repeated objects (tuples up to length 14; 35% contain whole duplicated subtrees, i.e. pairwise == twins under == parents); every "
        "node of the tree is a match() argument; 70% of the xpaths are spelled from the chain of a random position (so they mostly match); non-trivial = tree has >= 3 nodes, the text parses and findall is non-empty; distinct "
        "by (text, tree)")
TRUSTED = ["lark LALR engine + contextual lexer are re-modelled by a hand-written lexer/recursive-descent parser",
           "dict keyed by NodeTraversalInfo behaves as a map keyed by object identity (ids pairwise distinct)"]
ASSUMPTIONS = ["trees contain no node object twice (Tree precondition)"]
BUDGET = {"quick": 240, "thorough": 2400}

FIELDS = ["arg", "left", "right", "c", "items", "pair", "z", "a", "child", "root", "nofield", "argExpr", "lk", "rk"]
CLASSES = [c.__name__ for c in zoo.ALL_CLASSES] + ["ASTNode"]


def ws(rng):
    return rng.choice(["", "", "", " ", "  ", "\t", "\n", " \r\n"])


def gen_step(rng, need_class):
    parts = []
    if rng.random() < 0.45:
        parts += ["@", rng.choice(FIELDS)]
    if rng.random() < 0.4:
        k = rng.random()
        if k < 0.15:
            digits = ""
        elif k < 0.25:
            digits = "0" + str(rng.randint(0, 13))
        else:
            digits = str(rng.choice([0, 0, 1, 1, 2, 3, 9, 10, 11, 12, 13, 21]))
        parts += ["["] + list(digits) + ["]"]
    if need_class or rng.random() < 0.6:
        k = rng.random()
        if k < 0.04:
            parts.append(rng.choice(["Nope", "CodeOrigin", "Source", "leaf"]))
        else:
            parts.append(rng.choice(CLASSES))
    return parts


def gen_xpath(rng):
    n = rng.choice([1, 1, 2, 2, 3, 4])
    toks = []
    for i in range(n):
        sep = rng.choice(["/", "/", "//"]) if (i > 0 or rng.random() < 0.75) else ""
        toks += list(sep) if sep == "//" else ([sep] if sep else [])
        toks += gen_step(rng, i == n - 1)
    if rng.random() < 0.06 and toks:
        # single token mutation
        j = rng.randrange(len(toks))
        k = rng.random()
        if k < 0.4:
            del toks[j]
        elif k < 0.7:
            toks.insert(j, toks[j])
        else:
            toks[j] = rng.choice(["/", "@", "[", "]", "A", "1", "$", "é"])
    out = ""
    prev = None
    for t in toks:
        sep = ws(rng) if out else ""
        # two names (or name after digit-free name) need a separator to stay two tokens
        if prev is not None and (prev[-1].isalnum() or prev[-1] == "_") and (t[0].isalpha() or t[0] == "_") and sep == "":
            sep = " "
        if prev is not None and (prev[-1].isalpha() or prev[-1] == "_") and t[0].isdigit() and sep == "":
            sep = " "
        out += sep + t
        prev = t
    return out + ws(rng)


def gen_derived(rng, root):
    """an xpath spelled from the chain of a random position of the tree (mostly matching)"""
    chains = [[(root, None, None)]]
    def walk(n, chain):
        for name, coll, ns in zoo.kid_lists(n):
            for i, c in enumerate(ns):
                ch = chain + [(c, name, i if coll else None)]
                chains.append(ch)
                walk(c, ch)
    walk(root, chains[0])
    chain = rng.choice(chains)
    # choose aligned members, the last always
    idxs = sorted(set(rng.sample(range(len(chain)), min(len(chain), rng.choice([1, 1, 2, 3, 4]))) + [len(chain) - 1]))
    toks = []
    prev = -1
    for k, j in enumerate(idxs):
        n, f, i = chain[j]
        gap = j - prev > 1
        if k == 0:
            sep = "//" if (gap or rng.random() < 0.3) else rng.choice(["/", "/", ""] if j > 0 or True else ["/"])
            if j > 0 and sep in ("/", ) :
                sep = "//"
            if j > 0 and sep == "":
                sep = ""      # relative path == anywhere
        else:
            sep = "//" if (gap or rng.random() < 0.15) else "/"
        toks += list(sep) if sep == "//" else ([sep] if sep else [])
        if f is not None and rng.random() < 0.6:
            toks += ["@", f if rng.random() < 0.93 else rng.choice(FIELDS)]
        if rng.random() < 0.5 and (i is not None or rng.random() < 0.2):
            d = i if (i is not None and rng.random() < 0.9) else rng.choice([0, 1, 10, 257, 258])
            toks += ["["] + list(str(d)) + ["]"]
        if k == len(idxs) - 1 or rng.random() < 0.7:
            mro = [c.__name__ for c in type(n).__mro__ if c.__name__ in CLASSES]
            toks.append(rng.choice(mro) if rng.random() < 0.92 else rng.choice(CLASSES))
        prev = j
    out = ""
    prevt = None
    for t in toks:
        sep = ws(rng) if out else ""
        if prevt is not None and (prevt[-1].isalnum() or prevt[-1] == "_") and (t[0].isalnum() or t[0] == "_") and sep == "":
            sep = " "
        out += sep + t
        prevt = t
    return out


def _els(xp):
    return [[e.ast_class.__name__, e.parent_field, e.parent_index, e.anywhere] for e in xp._elements_reversed]


N_FOUND = 0


def extra_coverage():
    return {"cases_with_nonempty_findall": N_FOUND}


def one(rng, root, env, toks, nodes, text, desc):
    line = dumps([A("xpath")] + env + [[A("text"), text]])
    oracle = None
    try:
        xp = ASTXpath(text)
    except ASTXpathDefinitionError:
        return Case("xpath_reject", dumps([A("xpath"), env[0], [A("text"), text]]),
                    dumps([A("raise"), A("ASTXpathDefinitionError")]), False, f"text={text!r}", sig="xpath|parse")
    except Exception as e:  # noqa
        return Case("xpath_reject", None, None, True, f"text={text!r}",
                    oracle_fail=f"ASTXpath raised {type(e).__name__}", sig="xpath|other-exception")
    try:
        found = list(xp.findall(root))
        first = root.find(xp)
        tree = Tree(root)
        ms = [(n, xp.match(tree, n)) for n in nodes]
        real = dumps([A("ok"), _els(xp), [toks.tok(n) for n in found],
                      toks.tok(first) if first is not None else None, [[toks.tok(n), m] for n, m in ms]])
        # the property itself, on the real code
        want = [n for n, m in ms if m]
        if len({id(n) for n in found}) != len(found):
            oracle = "findall yields a node twice"
        elif {id(n) for n in found} != {id(n) for n in want}:
            oracle = (f"findall={[toks.tok(n) for n in found]} but match() holds for {[toks.tok(n) for n in want]}")
        elif (first is None) != (not found) or (found and first is not found[0]):
            oracle = "find() is not the first node of findall()"
        else:
            # the node.find / node.findall front-ends, given the TEXT (they compile it themselves)
            f2 = list(root.findall(text))
            g2 = root.find(text)
            if len(f2) != len(found) or any(a is not b for a, b in zip(f2, found)):
                oracle = "root.findall(text) differs from ASTXpath(text).findall(root)"
            elif g2 is not first:
                oracle = "root.find(text) differs from the first node of findall"
            elif nodes and [xp.match(root, n) for n in nodes[:12]] != [m for _n, m in ms[:12]]:
                oracle = "match(root node, n) differs from match(Tree(root), n)"
    except Exception as e:  # noqa
        real = dumps([A("raise"), A(type(e).__name__)])
    global N_FOUND
    nontriv = len(nodes) >= 3 and real.startswith("(ok") and bool(found)
    N_FOUND += 1 if nontriv else 0
    return Case("xpath", line, real, nontriv, f"text={text!r} tree={desc}", oracle_fail=oracle,
                sig="xpath|findall-vs-match" if oracle else "xpath|model")


_DYN = [0]
_DYN_NS = {"dataclass": __import__("dataclasses").dataclass, "Leaf": zoo.Leaf, "Un": zoo.Un, "__name__": "c07_dynamic_classes"}


def dyn_class_cases(rng):
    """class-definition history: an xpath text naming a class (1) before the class exists: rejected; (2) after the
    class was defined: finds exactly the instances; (3) after the class was defined AGAIN under the same name in the
    same module (allowed: the name then denotes the new class): the very same text finds the instances of the new
    class.  "A step matches a node iff it is an instance of the named class" — for the class the name denotes now."""
    import zoo_c08
    _DYN[0] += 1
    name = f"Dyn{_DYN[0]}X{rng.randrange(10 ** 6)}"
    texts = [f"//{name}", f"/Tup/@items {name}", f"//@items[1]{name}", f"//Un/{name}"]
    rng.shuffle(texts)
    texts = texts[:3]
    base_env = zoo.class_table()
    for t in texts[:2]:
        c = one(rng, zoo.Leaf(v=1), [base_env, zoo.OrgTable().sexp(), [A("tree"), zoo.enc_tree(zoo.Leaf(v=1), zoo.Tokens(), zoo.OrgTable())]],
                zoo.Tokens(), [], t, "(class not defined yet)")
        c.desc += f" (class {name} not defined yet)"
        yield c
    for round_ in (1, 2):
        exec(f"@dataclass(frozen=True)\nclass {name}({'Leaf' if round_ == 1 or rng.random() < 0.5 else 'Un'}):\n    pass\n", _DYN_NS)
        cls = _DYN_NS[name]
        zoo_c08.register_leaf_class(cls)
        mk = (lambda i: cls(v=i)) if issubclass(cls, zoo.Leaf) else (lambda i: cls(zoo.Leaf(v=i)))
        root = zoo.Tup((mk(1), zoo.Leaf(v=1), mk(2), zoo.Un(mk(3))))
        toks = zoo.Tokens()
        orgs = zoo.OrgTable()
        tree = zoo.enc_tree(root, toks, orgs)
        env = [base_env + [zoo_c08.class_row(cls)], orgs.sexp(), [A("tree"), tree]]
        nodes = [root] + [c for (c, p, f, i) in zoo.positions(root)]
        for t in texts:
            c = one(rng, root, env, toks, nodes, t, zoo.show(root))
            c.desc += f" (class {name} defined {'again, same name' if round_ == 2 else 'after the text was first used'})"
            yield c


def cases(rng: random.Random, tier: str):
    n_trees = 120 if tier == "quick" else 2500
    per_tree = 14 if tier == "quick" else 20
    for it in range(n_trees):
        if it % 12 == 0:
            yield from dyn_class_cases(rng)
        if it % 10 == 5:
            # runs of directly linked steps of ONE class before a `//`, on chains that hold a longer run of that class: a
            # matcher that walks upwards must try every alignment of the run (a partial fit nearer to the node must not hide
            # the full fit further up)
            k = 3 + (it // 10) % 3
            n0 = zoo.Leaf(v=it % 4)
            for _j in range(k):
                n0 = zoo.Un(n0)
            r0 = zoo.Opt(zoo.Tup((zoo.Leaf(v=9), n0)))
            toks0, orgs0 = zoo.Tokens(), zoo.OrgTable()
            env0 = [zoo.class_table(), orgs0.sexp(), [A("tree"), zoo.enc_tree(r0, toks0, orgs0)]]
            nodes0 = [r0] + [c for (c, p, f, i) in zoo.positions(r0)]
            for text in ("/Opt/Tup/Un/Un//Leaf", "/Opt/Tup/Un/Un//Un/Leaf", "//Un/Un//Leaf", "/Opt/Tup//Un/Un/Leaf", "/Opt/Tup/Un//Un/Un//Leaf",
                         "//Tup/Un/Un//Un", "/Opt/Tup/Un/Un/Un//Leaf", "//Un/Un/Un//Leaf", "/Opt//Un//Un/Un//Leaf"):
                yield one(rng, r0, env0, toks0, nodes0, text, zoo.show(r0))
        g = zoo.Gen(rng, origins=False, share=0.0)
        root = g.tree(rng.choice([1, 3, 6, 10, 20, 40]))
        glue = rng.random() < 0.08
        if glue:
            root = zoo.Glue(arg=zoo.Un(root), argExpr=zoo.Opt(zoo.Leaf(v=1)) if rng.random() < 0.5 else zoo.Un(zoo.Un(zoo.Leaf(v=2))))
        long_tuple = rng.random() < 0.03
        if long_tuple:
            # a tuple with more than 257 elements (indices beyond CPython's small-int cache)
            root = zoo.Tup(tuple(zoo.Leaf(v=i % 3) if i % 7 else zoo.Un(zoo.Leaf(v=1)) for i in range(rng.randint(259, 300))))
        if rng.random() < 0.35:
            # content-identical (and origin-identical) twins under content-identical parents, at the same
            # field and index: distinct objects that are `==` pairwise
            root = zoo.Tup((root, root.duplicate()) + ((root.duplicate(),) if rng.random() < 0.3 else ()))
        toks = zoo.Tokens()
        orgs = zoo.OrgTable()
        tree = zoo.enc_tree(root, toks, orgs)
        env = [zoo.class_table(), orgs.sexp(), [A("tree"), tree]]
        nodes = [root] + [c for (c, p, f, i) in zoo.positions(root)]
        desc = zoo.show(root)
        for _ in range(3 if long_tuple else per_tree):
            text = gen_derived(rng, root) if rng.random() < 0.7 else gen_xpath(rng)
            yield one(rng, root, env, toks, nodes, text, desc)
        if it % 4 == 0:
            # the root is stored in NO field: an absolute first step that names a field (in particular the field name
            # of whatever wrapper the implementation puts around the root) or an index matches nothing
            rc = type(root).__name__
            kid = next((type(c).__name__ for c in nodes[1:]), "Leaf")
            for text in (f"/@child {rc}", f"/@child[0]{rc}", f"/@child {rc}//{kid}", f"/@root {rc}", f"/@child Expr/{kid}",
                         f"/[0]{rc}", f"/@child ASTNode"):
                yield one(rng, root, env, toks, nodes, text, desc)
        if long_tuple:
            n_items = len(root.items)
            for i in (256, 257, 258, n_items - 1):
                yield one(rng, root, env, toks, nodes, f"/Tup/@items[{i}]" + rng.choice(["Expr", "Leaf", "Un", "ASTNode"]), desc)
        if glue:
            # texts that differ only by whitespace between a field name and a class name mean different things
            texts = [f"//@arg Expr/{c}" for c in ("Leaf", "Un", "Expr")] + [f"//@argExpr/{c}" for c in ("Leaf", "Un", "Expr")]
            rng.shuffle(texts)
            for text in texts[:4]:
                yield one(rng, root, env, toks, nodes, text, desc)
