"""C10 — no operation ever modifies an existing node.
Frame monitor on the real code: before and after every public operation of random histories
(the registry-affecting operations of the state machine plus traversals, Tree queries, xpath,
patterns, visitors and transformers incl. raising ones, all four serializers, ==, hash, rich
rendering) every field of every pre-existing live node is read with object.__getattribute__
and compared by identity, and hash() by value; setattr / delattr on every field must raise.
The registry-affecting operations are also compared with the Lean state machine (K1), whose
frame theorem (Props/C10.lean) says that no step changes a pre-existing heap record."""
from __future__ import annotations

import dataclasses
import random

from pyoak.match.pattern import NodeMatcher
from pyoak.match.xpath import ASTXpath
from pyoak.node import NODE_REGISTRY, ASTNode
from pyoak.tree import Tree
from pyoak.visitor import ASTTransformVisitor, ASTVisitor

from run import Case
from regmachine import Machine
import zoo

PROPERTY = "C10"
LEAN_MODULE = "PyOak.Props.C10All"     # imports PyOak.Props.C10, PyOak.Props.C10Extra, PyOak.Props.RegOrder
THEOREMS = ["PyOak.C10." + t for t in ['heap_frame', 'heap_frame_ext', 'heap_frame_asObj', "heap_frame_asObj'", 'heap_frame_all', 'obj_frame', 'heap_frame_run']]
# additions after the audit (Props/C10Extra.lean): which operations may change the registry membership of a pre-existing
# object and of which objects (exactly detach / detach_self / successful replace), and the frame over whole histories
THEOREMS += ["PyOak.C10X." + t for t in [
    'reg_frame', 'reg_frame_others', 'reg_frame_get', 'deserAux_reg_keep', 'unregister_exact', 'detach_unregisters',
    'detachSelf_unregisters', 'replace_unregisters', 'descendants_sound', 'reg_frame_detach', 'detached_frame',
    'obj_frame_run', 'id_frame_run', 'obj_frame_history']]
# Props/RegOrder.lean: the heap is well-founded (children are created before parents) along every admissible history, hence
# the fuel of the model's traversal inside detach() suffices: detach unregisters the node and EVERY node below it
THEOREMS += ["PyOak.RegOrd." + t for t in [
    'wf_step', 'wf_run', 'descendants_complete', 'mem_descendants_iff', 'detach_unregisters_below', 'detach_exact']]
RULE = ("random histories (<= 24 ops) mixing the registry-affecting operations with read-only ones (dfs/bfs/gather, "
        "Tree queries, xpath find/findall/match, pattern match, visitor, transform visitors that rewrite/remove/raise, "
        "as_dict/to_json/to_msgpck/to_yaml and back, ==, hash, __rich__); after each op all fields + hash of all "
        "pre-existing live nodes are compared by identity; plus setattr/delattr on every field of every zoo class; "
        "non-trivial = history >= 8 ops; distinct by the op description")
TRUSTED = ["frozen dataclasses and object.__setattr__ discipline of CPython; identity of field values read through "
           "object.__getattribute__"]
ASSUMPTIONS = ["user callbacks (visitor methods, predicates) do not themselves call object.__setattr__ on nodes"]
BUDGET = {"quick": 240, "thorough": 2400}


def snapshot(m: Machine):
    snap = {}
    for n in m.live_objects():
        snap[id(n)] = (n, [(f.name, object.__getattribute__(n, f.name)) for f in dataclasses.fields(n)], hash(n),
                       NODE_REGISTRY.get(n.id) is n)
    return snap


def compare(snap, readonly: bool = False) -> str | None:
    for _i, (n, fields, h, reg) in snap.items():
        if readonly and (NODE_REGISTRY.get(n.id) is n) != reg:
            return (f"registry membership of a pre-existing {type(n).__name__} changed from {reg} to {not reg} "
                    f"by an operation other than detach / replace / deserialization")
        for name, v in fields:
            now = object.__getattribute__(n, name)
            if now is not v:
                return f"field {name} of a pre-existing {type(n).__name__} changed from {v!r} to {now!r}"
        if hash(n) != h:
            return f"hash of a pre-existing {type(n).__name__} changed"
    return None


class _Rewrite(ASTTransformVisitor):
    def __init__(self, mode):
        super().__init__()
        self.mode = mode

    def visit_Un(self, node):
        if self.mode == "equal-copy":
            # a pass that rebuilds a node with dataclasses.replace although nothing changes: the result is a NEW node
            # equal to the one visited, sharing its (pre-existing) children
            return dataclasses.replace(self.generic_visit(node) if self.deep else node)
        if self.mode == "hoist":
            # a pass that removes a wrapper: the result is a node that EXISTED before the call
            return self.visit(node.arg)
        return self.generic_visit(node)

    def visit_Bin(self, node):
        if self.mode == "equal-copy":
            return dataclasses.replace(self.generic_visit(node) if self.deep else node)
        return self.generic_visit(node)

    def visit_Tup(self, node):
        if self.mode == "equal-copy":
            return dataclasses.replace(self.generic_visit(node) if self.deep else node)
        return self.generic_visit(node)

    deep = False

    def visit_Leaf(self, node):
        if self.mode == "rewrite-then-raise":
            # rebuild the first subtrees, then fail at a later sibling
            self.seen = getattr(self, "seen", 0) + 1
            if self.seen > self.limit:
                raise RuntimeError("boom later")
            return dataclasses.replace(node, v=node.v + 1) if self.seen % 2 else node
        if self.mode == "remove":
            return None
        if self.mode == "raise":
            raise RuntimeError("boom")
        if self.mode == "rewrite":
            return dataclasses.replace(node, v=node.v + 1)
        return node


class _Count(ASTVisitor):
    def generic_visit(self, node):
        return 1 + sum(self.visit(c) for c in node.get_child_nodes())


def readonly_op(m: Machine, rng) -> str:
    live = m.live_objects()
    if not live:
        return "noop"
    x = rng.choice(live)
    k = rng.choice([0, 1, 2, 3, 4, 5, 6, 7, 7, 7, 8, 9, 10, 11, 12, 13])
    try:
        if k == 0:
            list(x.dfs()); list(x.dfs(bottom_up=True)); list(x.bfs()); list(x.gather(zoo.Leaf))
            return "traverse"
        if k == 1:
            t = Tree(x)
            for n in [x] + [c for c, *_ in zoo.positions(x)][:10]:
                t.get_parent_info(n); list(t.get_ancestors(n)); t.get_depth(n); t.get_xpath(n); t.is_in_tree(n)
            return "tree-queries"
        if k == 2:
            xp = ASTXpath(rng.choice(["//Leaf", "/Tup/@items[0]Leaf", "//@arg Expr", "//Bin//Leaf"]))
            found = list(xp.findall(x)); x.find(xp)
            if found:
                xp.match(x, found[0])
            return "xpath"
        if k == 3:
            mt, _msg = NodeMatcher.from_pattern(rng.choice(["(Leaf @v=\"1\")", "(Tup @items=[(Leaf) *])",
                                                             "(* @s -> s)", "(Bin @left=(Leaf -> l))"]))
            if mt is None:
                return "pattern-rejected"
            for n in [x] + [c for c, *_ in zoo.positions(x)][:10]:
                mt.match(n)
            return "pattern"
        if k == 4:
            _Count().visit(x)
            return "visitor"
        if k in (5, 6, 7):
            mode = [rng.choice(["rewrite", "hoist", "equal-copy"]), "remove", rng.choice(["raise", "rewrite-then-raise"])][k - 5]
            try:
                tv = _Rewrite(mode)
                tv.deep = rng.random() < 0.5
                tv.limit = rng.randint(1, 4)
                tv.transform(x)
            except Exception:  # noqa
                pass
            return "transform-" + mode
        if k == 8:
            x.as_dict(); type(x).as_obj(x.as_dict())
            return "dict-roundtrip"
        if k == 9:
            type(x).from_json(x.to_json())
            return "json-roundtrip"
        if k == 10:
            type(x).from_msgpck(x.to_msgpck())
            return "msgpack-roundtrip"
        if k == 11:
            type(x).from_yaml(x.to_yaml())
            return "yaml-roundtrip"
        if k == 12:
            y = rng.choice(live)
            (x == y); (x != y); hash(x); x.is_equal(y); x.to_properties_dict(); x.children
            return "compare"
        x.__rich__()
        return "rich"
    except Exception as e:  # noqa
        return f"readonly-raised-{type(e).__name__}"


def frozen_cases():
    for cls in zoo.ALL_CLASSES:
        try:
            if cls in (zoo.Un, zoo.UnPlus):
                n = cls(zoo.Leaf())
            elif cls is zoo.Bin:
                n = cls(zoo.Leaf(), zoo.Leaf(v=1))
            elif cls is zoo.Fix2:
                n = cls((zoo.Leaf(), zoo.Leaf(v=1)))
            elif cls is zoo.Mixed:
                n = cls(zoo.Leaf(), ())
            elif cls is zoo.MixedR:
                n = cls((), zoo.Leaf())
            else:
                n = cls()
        except Exception as e:  # noqa
            yield Case("frozen", None, None, False, cls.__name__, oracle_fail=f"cannot build {cls.__name__}: {e}", sig="frozen|build")
            continue
        for f in dataclasses.fields(n):
            bad = None
            before = object.__getattribute__(n, f.name)
            try:
                setattr(n, f.name, before)
                bad = f"setattr({cls.__name__}.{f.name}) did not raise"
            except Exception:  # noqa
                pass
            try:
                delattr(n, f.name)
                bad = f"delattr({cls.__name__}.{f.name}) did not raise"
            except Exception:  # noqa
                pass
            if object.__getattribute__(n, f.name) is not before:
                bad = f"{cls.__name__}.{f.name} changed by a rejected assignment"
            yield Case("frozen", None, None, True, f"{cls.__name__}.{f.name}", oracle_fail=bad, sig=f"frozen|{f.name}")


def _full_snapshot(nodes):
    return [(n, [(f.name, object.__getattribute__(n, f.name)) for f in dataclasses.fields(n)], hash(n),
             NODE_REGISTRY.get(n.id) is n) for n in nodes]


def _full_compare(snap, membership=True):
    for n, fields, h, reg in snap:
        for name, v in fields:
            now = object.__getattribute__(n, name)
            if now is not v:
                return f"field {name} of a pre-existing {type(n).__name__} changed from {v!r} to {now!r}"
        if hash(n) != h:
            return f"hash of a pre-existing {type(n).__name__} changed"
        if membership and (NODE_REGISTRY.get(n.id) is n) != reg:
            return f"registry membership of a pre-existing {type(n).__name__} changed from {reg} to {not reg}"
    return None


def directed_cases(rng, n):
    """operations that fail part-way: nothing that existed before may change (fields, id, hash, and — except for
    detach / replace / deserialization — registry membership)"""
    _round = -1
    import gc
    for _ in range(n):
        _round += 1
        gc.collect()
        NODE_REGISTRY.clear()
        # (1) replace() rejected by the class' own validation AFTER the new node was registered
        x = zoo.PickyLate(v=rng.randint(0, 3), note=rng.choice(["", "n"]))
        twin = zoo.PickyLate(v=x.v) if rng.random() < 0.4 else None
        if rng.random() < 0.3:
            x.detach_self()
        snap = _full_snapshot([x] + ([twin] if twin else []))
        kw = {"note": "bad"}
        if rng.random() < 0.3:
            kw["v"] = x.v + 1
        try:
            x.replace(**kw)
            fail = "replace(note='bad') did not raise"
        except RuntimeError:
            fail = _full_compare(snap)
        yield Case("directed:late-failing-replace", None, None, True,
                   f"PickyLate(v={x.v}) twin={twin is not None} replace({kw})", oracle_fail=fail,
                   sig="frame|directed|late-failing-replace")
        del x, twin, snap
        # (2) a transform that rebuilds earlier subtrees and raises at a later sibling
        g = zoo.Gen(rng, origins=False, share=0.0, falsy=False)
        t = g.tree(rng.choice([6, 10, 16, 24]))
        g.pool.clear()
        nodes = [t] + [c for c, *_ in zoo.positions(t)]
        nleaf = sum(1 for n in nodes if type(n) is zoo.Leaf)
        if nleaf >= 2:
            snap = _full_snapshot(nodes)
            tv = _Rewrite("rewrite-then-raise")
            tv.limit = rng.randint(1, nleaf - 1)
            try:
                tv.transform(t)
                fail = None          # the limit was not reached (pruned by another rule): nothing to check
            except Exception:  # noqa
                fail = _full_compare(snap)
            yield Case("directed:transform-raises-later", None, None, True,
                       f"{zoo.show(t)} rewrite leaves #1,3,.. then raise at leaf #{tv.limit + 1}", oracle_fail=fail,
                       sig="frame|directed|transform-raises-later")
            del snap
        del t, nodes
        # (3) a node equal to a registered FALSY node (a node class may define __len__ / __bool__) is built next to it:
        #     construction, duplicate, dataclasses.replace and deserialization never unregister an existing node
        gc.collect()
        NODE_REGISTRY.clear()
        x = zoo.Falsy(n=rng.randint(0, 1))
        holder = zoo.Un(x) if rng.random() < 0.5 else None
        snap = _full_snapshot([x] + ([holder] if holder else []))
        how = rng.choice(["construct", "duplicate", "dataclasses.replace", "as_obj", "transform"])
        if how == "construct":
            y = zoo.Falsy(n=x.n)
        elif how == "duplicate":
            y = (holder or x).duplicate()
        elif how == "dataclasses.replace":
            y = dataclasses.replace(x)
        elif how == "as_obj":
            y = type(x).as_obj(x.as_dict())
        else:
            y = _Rewrite("rewrite").transform(zoo.Tup((x, zoo.Leaf(v=1))))
        fail = _full_compare(snap)
        # (4) a transform that hoists an existing node (no origin) out of a wrapper that has one
        gc.collect()
        NODE_REGISTRY.clear()
        inner = zoo.Leaf(v=rng.randint(0, 3))
        outer = zoo.Un(zoo.Un(inner, origin=zoo.gen_origin(rng)), origin=zoo.gen_origin(rng))
        top = zoo.Tup((outer, zoo.Leaf(v=9)), origin=zoo.gen_origin(rng))
        snap4 = _full_snapshot([top] + [c for c, *_ in zoo.positions(top)])
        try:
            _Rewrite("hoist").transform(top)
            f4 = _full_compare(snap4)
        except Exception as e:  # noqa
            f4 = f"hoisting transform raised {type(e).__name__}"
        yield Case("directed:transform-hoists-existing", None, None, True, f"{zoo.show(top)}: visit_Un returns its (existing) argument",
                   oracle_fail=f4, sig="frame|directed|transform-hoists-existing")
        del inner, outer, top, snap4
        # (4b) a transform whose visit methods hand back an EQUAL shallow copy (dataclasses.replace without changes) of
        #      the node they were given, at the root / below it: the pre-existing children shared by original and copy
        #      keep their fields, ids and registry entries
        for deep in ((False, True) if _round < 6 else ()):
            for shape in ("un-root", "tup-below", "bin-below"):
                gc.collect()
                NODE_REGISTRY.clear()
                a, b = zoo.Leaf(v=rng.randint(0, 3)), zoo.Leaf(v=rng.randint(4, 7))
                if shape == "un-root":
                    top = zoo.Un(zoo.Un(a))
                elif shape == "tup-below":
                    top = zoo.Opt(zoo.Tup((a, b))) if hasattr(zoo, "Opt") else zoo.Un(zoo.Tup((a, b)))
                else:
                    top = zoo.Un(zoo.Bin(a, b))
                snap5 = _full_snapshot([top] + [c for c, *_ in zoo.positions(top)])
                tv = _Rewrite("equal-copy")
                tv.deep = deep
                try:
                    tv.transform(top)
                    f5 = _full_compare(snap5)
                except Exception as e:  # noqa
                    f5 = f"equal-copy transform raised {type(e).__name__}: {e}"[:200]
                yield Case("directed:transform-equal-copy", None, None, True,
                           f"{zoo.show(top)}: visit methods return dataclasses.replace(node) (deep={deep})",
                           oracle_fail=f5, sig="frame|directed|transform-equal-copy")
                del a, b, top, snap5
        # (4d) a node whose tuple-annotated child field was GIVEN a list (accepted when runtime type checks are off, which
        #      is the default): the list is that node's field value; a rewriting / removing transform builds new nodes and
        #      leaves the list of the existing node as it was
        if _round < 4:
            for mode in ("rewrite", "remove"):
                gc.collect()
                NODE_REGISTRY.clear()
                kids7 = [zoo.Leaf(v=rng.randint(0, 3)), zoo.Un(zoo.Leaf(v=5)), zoo.Leaf(v=rng.randint(4, 7))]
                f7 = None
                try:
                    h7 = zoo.Tup(list(kids7))            # a list where a tuple is annotated
                except Exception:  # noqa  (a library that refuses it: nothing to check)
                    h7 = None
                if h7 is not None and isinstance(h7.items, list):
                    top7 = zoo.Un(h7)
                    before7 = (h7.items, list(h7.items), h7.id, h7.content_id, hash(h7))
                    try:
                        _Rewrite(mode).transform(top7)
                    except Exception:  # noqa
                        pass
                    if h7.items is not before7[0] or len(h7.items) != len(before7[1]) or \
                            any(x is not y for x, y in zip(h7.items, before7[1])):
                        f7 = "the child list of a pre-existing node was changed in place by transform()"
                    elif (h7.id, h7.content_id, hash(h7)) != before7[2:]:
                        f7 = "id / content_id / hash of a pre-existing node changed"
                    del top7
                yield Case("directed:transform-list-valued-field", None, None, h7 is not None,
                           f"Tup(items=<list of 3 nodes>) under Un, transform mode={mode}", oracle_fail=f7,
                           sig="frame|directed|transform-list-valued-field")
                del kids7, h7
        # (4c) a payload whose id is held by a LIVE node that differs from the payload in a non-comparable property
        #      (the payload is older: the node was replaced keeping its id; or the payload was edited): reading it back
        #      returns / re-uses the live node and changes none of its fields -- alone and as a child of a tree
        for fmt in (("dict", "json", "msgpack", "yaml") if _round < 3 else ()):
            for how in ("older-payload", "edited-payload"):
                for nested in (False, True):
                    gc.collect()
                    NODE_REGISTRY.clear()
                    leaf = zoo.Leaf(v=rng.randint(0, 9), tag="a")
                    top = zoo.Un(leaf) if nested else leaf
                    try:
                        if how == "older-payload":
                            payload = {"dict": top.as_dict, "json": top.to_json, "msgpack": top.to_msgpck, "yaml": top.to_yaml}[fmt]()
                            live_leaf = leaf.replace(tag="b")       # same digest: takes over the id
                            live = zoo.Un(live_leaf) if nested else live_leaf
                            if nested:
                                top.detach_self()
                        else:
                            d = top.as_dict()
                            (d["arg"] if nested else d)["tag"] = "edited"
                            live_leaf, live = leaf, top
                            if fmt == "dict":
                                payload = d
                            else:
                                # the same edit through the other formats: write the edited dict with the format's own writer
                                import orjson as _oj, msgpack as _mp, yaml as _y
                                payload = {"json": lambda: _oj.dumps(d).decode(), "msgpack": lambda: _mp.packb(d),
                                           "yaml": lambda: _y.safe_dump(d)}[fmt]()
                        snap6 = _full_snapshot([live_leaf] + ([live] if nested else []))
                        cls = type(top)
                        {"dict": cls.as_obj, "json": cls.from_json, "msgpack": cls.from_msgpck, "yaml": cls.from_yaml}[fmt](payload)
                        f6 = _full_compare(snap6)
                    except Exception as e:  # noqa
                        f6 = None if how == "edited-payload" and fmt != "dict" else f"raised {type(e).__name__}: {e}"[:200]
                    yield Case("directed:deser-live-noncompare", None, None, True,
                               f"Leaf(tag) {how} format={fmt} nested={nested}: as_obj of a payload whose id is live",
                               oracle_fail=f6, sig="frame|directed|deser-live-noncompare")
                    del leaf, top, live_leaf, live
        # (5) free-form property values (annotation Any) holding nested containers: no serializer may touch them
        import copy
        from props.c14 import C14Holder
        free = {"geometry": {"size": (800, 600), "pos": [(1, 2), (3, 4)]}, "tags": [("a", 1)], "t": (1, (2, 3))}
        ref = copy.deepcopy(free)
        inner_ids = (id(free["geometry"]), id(free["geometry"]["pos"]), id(free["tags"]))
        h = C14Holder(key=None, payload=free, kid=C14Holder(payload=[free["geometry"]]))
        f5 = None
        for nm, fn in (("as_dict", lambda: h.as_dict()), ("to_json", lambda: h.to_json()), ("to_msgpck", lambda: h.to_msgpck()),
                       ("to_yaml", lambda: h.to_yaml())):
            try:
                fn()
            except Exception:  # noqa  (a format may refuse such values; what matters is that nothing is modified)
                pass
            if h.payload is not free or free != ref or repr(free) != repr(ref) or \
                    inner_ids != (id(free["geometry"]), id(free["geometry"]["pos"]), id(free["tags"])):
                f5 = f"{nm} changed a field value of an existing node: payload is now {free!r}"
                break
        yield Case("directed:free-form-values", None, None, True, "Holder(payload={nested dict / list / tuples}) through the four serializers",
                   oracle_fail=f5, sig="frame|directed|free-form-values")
        del h, free, ref
        yield Case("directed:falsy-twin", None, None, True, f"Falsy(n={x.n}) holder={holder is not None}; an equal node comes into being by {how}",
                   oracle_fail=fail, sig="frame|directed|falsy-twin")
        del x, y, holder, snap


def cases(rng: random.Random, tier: str):
    yield from frozen_cases()
    yield from directed_cases(rng, 40 if tier == "quick" else 1500)
    # registry membership may change only "as specified for detach and replace": the directed registry scenarios of C03
    from props.c03 import directed_registry_cases
    for c in directed_registry_cases(rng, 6 if tier == "quick" else 100):
        c.sig = "frame|" + c.sig
        yield c
    n = 100 if tier == "quick" else 2500
    for _ in range(n):
        size = rng.choice([8, 8, 2])
        nops = rng.choice([6, 10, 16, 24])
        fail = None
        kinds = []
        with Machine(rng, size) as m:
            box = {"snap": None, "fail": None}

            def settle(readonly=None):
                # compare and drop the snapshot *before* the machine observes liveness
                if readonly is None:
                    # registry membership of existing nodes may change "only as specified for detach and replace"
                    # (and when deserialization forces a serialized id: known finding F19 of C03); construction,
                    # duplicate, dataclasses.replace, serialization, aliasing and dropping references never touch it
                    readonly = getattr(m, "last_op", "") in ("construct", "new", "duplicate", "dcreplace", "alias", "drop",
                                                             "serialize", "readonly", "noop")
                snap = box["snap"]
                box["snap"] = None
                if snap is not None and box["fail"] is None:
                    f = compare(snap, readonly)
                    if f:
                        box["fail"] = f"after op #{len(kinds)} : {f}"
                del snap

            m.before_observe = settle
            for _k in range(nops):
                box["snap"] = snapshot(m)
                if rng.random() < 0.5:
                    nd = len(m.descr)
                    m.random_op()
                    kinds.append(m.descr[-1] if len(m.descr) > nd else "noop")
                else:
                    kinds.append(readonly_op(m, rng))
                    settle(readonly=not kinds[-1].endswith("roundtrip"))
            fail = box["fail"]
            m.before_observe = None
            line, real = m.request(), m.observation()
            desc = f"ID_DIGEST_SIZE={size}: " + "; ".join(kinds)
            ff = m.frame_fail
        yield Case("history-model", line, real, nops >= 8, desc, sig="frame|history-model")
        yield Case("frame-monitor", None, None, nops >= 8, desc, oracle_fail=fail or ff, sig="frame|monitor")
