"""C16 — serialization options apply to the whole call and to nothing after it.

Histories of 2-6 public (de)serialization calls of the real pyoak, each with a subset of the
options, on zoo trees, with failures injected at nested positions; after every call the two private
option slots of DataClassSerializeMixin are read and (mostly) a default `as_dict()` of a
reference tree is taken.  The same history is run by the Lean model (Model/SerOpts.lean,
`runSeq`), whose outputs the theorems of Props/C16.lean are about; outcomes, output trees (key
order included), the global state after each call and the states seen by nested hooks are
compared.  The statement's shape clauses are additionally evaluated directly on the real output
of every call (in-process oracle)."""
from __future__ import annotations

import copy
import itertools
import json
import random

import msgpack
import orjson
import yaml

from pyoak.node import AST_SERIALIZE_DIALECT_KEY, ASTSerializationDialects
from pyoak.origin import SOURCE_OPTIMIZED_SERIALIZATION_KEY, CodeOrigin, MultiOrigin, get_code_range
from pyoak.serialize import (
    TYPE_KEY,
    DataClassSerializeMixin,
    MessagePackDialect,
    OrjsonDialect,
    SerializationOption,
)

from proto import A, dumps
from run import Case
import zoo
import zoo_c16 as z
from kernels_tie import optional_seropts as optional_obligation  # noqa: F401  (as_dict / as_obj regenerated: optional bridge)

PROPERTY = "C16"
LEAN_MODULE = "PyOak.Props.C16All"
THEOREMS = ["PyOak.C16." + t for t in [
    "reset_after", "reset_after_raise", "call_unparsable", "seq_independent", "seq_final_default",
    "call_depends_on_own_args", "sorted_all", "untagged_all", "tagged_all", "default_tagged_all",
    "mk_carries_class_tag", "empty_only_placeholder", "explorer_lists_child_fields",
    "nested_same_options", "explorer_lists_child_fields_nested", "deser_sees_call_state",
    "unpatched_children_unsorted_fails", "unpatched_test_source_tagged_fails",
    "unpatched_test_source_unsorted_fails"]]
# additions (AUDIT C16 §4): tag FIRST + rest sorted in every nested mapping; the try/finally explicit
# (Model/SerOptsF.lean: callF threads the globals through a body with arbitrary writing / raising hooks)
THEOREMS += ["PyOak.C16." + t for t in [
    "sortedMap_too_weak", "sorted_tagged_all", "sorted_tagged_plain", "sorted_tagged_top", "sorted_untagged_all",
    "nested_tag_is_class", "nested_source_is_idx", "test_patches_noOrigin", "sorted_tagged_strict_fails",
    "serObjM_noHook", "deserM_noDHook", "bodyM_noHook", "tryFin_reset", "tryFin_outcome", "reset_afterF",
    "reset_after_raiseF", "callF_outcome", "callF_unparsable", "callF_eq_call", "runSeqF_eq_runSeq",
    "reset_after_via_finally", "seqF_independent", "later_call_default", "callNoFinally_fails",
    "callNoFinally_later_call_fails", "callNoResetDeser_fails", "reentrant_hook_breaks_options"]]
RULE = ("histories of 2-6 calls over as_dict/to_json/to_msgpck/to_yaml/as_obj/from_json/from_msgpck/from_yaml, "
        "each with a random subset of {SKIP_CLASS, SORT_KEYS, SOURCE_OPTIMIZED (True or explicit False), "
        "AST_EXPLORER | AST_TEST, user mashumaro dialect}, on seeded zoo trees with every origin kind, "
        "a raising property / raising source field at a random nested position, inputs malformed at a random "
        "nested mapping, unparsable text; plus every one of the 48 option subsets on one tree per run; "
        "non-trivial = >= 2 calls, at least one with options, tree with >= 3 serializable objects; "
        "distinct by request line")
TRUSTED = ["mashumaro's generated to_dict/from_dict (field order, hooks, dialect plumbing), orjson, msgpack, PyYAML "
           "(yaml.dump sorts keys itself: to_yaml outputs are compared modulo key order)",
           "dict preserves insertion order; sorted() on str keys is code-point order"]
ASSUMPTIONS = ["no __post_serialize__/_serialize hook starts a nested public call (pyoak has none)",
               "property values are scalars or sequences (no dict-valued properties); no field is named "
               "__type / _children; callers pass a dict as serialization_options",
               "for the sorted-shape theorem with the AST_TEST dialect: a node's origin is NoOrigin or an "
               "Origin (which always has a `source` field) — hypothesis OriginOK, checked on every generated tree",
               "deserialization inputs are produced by serializations that keep the type tags "
               "(SKIP_CLASS / AST_TEST outputs are not fed back); fields with init=False are never read back"]
BUDGET = {"quick": 200, "thorough": 1500}

M = DataClassSerializeMixin
SKIP, SORT = SerializationOption.SKIP_CLASS, SerializationOption.SORT_KEYS
SRC, AST = SOURCE_OPTIMIZED_SERIALIZATION_KEY, AST_SERIALIZE_DIALECT_KEY
EXPLORER, TEST = ASTSerializationDialects.AST_EXPLORER, ASTSerializationDialects.AST_TEST
SER_KINDS = ["as_dict", "to_json", "to_msgpck", "to_yaml"]
DESER_KINDS = ["as_obj", "from_json", "from_msgpck", "from_yaml"]
MD_NAME = {None: "none", OrjsonDialect: "orjson", MessagePackDialect: "msgpack", z.HashInts: "custom"}
_CLS_BY_NAME = {c.__name__: c for c in z.CHILD_FIELDS}
DIST: dict[str, int] = {}


def _count(key: str, n: int = 1):
    DIST[key] = DIST.get(key, 0) + n


def extra_coverage():
    return {"calls": dict(sorted(DIST.items()))}


# ------------------------------------------------------------------ slots and canonical state

THREADED = [False]      # per history: every library call (and the reading of the option state) runs in a thread of its own


def in_thread(thunk):
    """run thunk() in a brand-new thread when the history is a threaded one ("a later call" is a later call whichever
    thread makes it: the options of a call that has returned must be gone for every caller)"""
    if not THREADED[0]:
        return thunk()
    import threading
    box = {}

    def run():
        try:
            box["res"] = thunk()
        except BaseException as e:  # noqa
            box["exc"] = e
    t = threading.Thread(target=run)
    t.start()
    t.join()
    if "exc" in box:
        raise box["exc"]
    return box["res"]


def slots():
    return in_thread(_slots)


def _slots():
    # through the accessors the (de)serialization hooks themselves use (classmethods: no instance needed), so that the
    # observation does not depend on how the state is stored
    return (dict(M._get_deserialization_options()), M._get_deserialization_mashumaro_dialect())


def enc_ob(d: dict, k):
    if k not in d:
        return A("none")
    v = d[k]
    return v if isinstance(v, bool) else A(f"odd:{v!r}")


def enc_opts(d: dict | None):
    if d is None:
        return A("none")
    extra = set(d) - {SKIP, SORT, SRC, AST}
    ast = A("none")
    if AST in d:
        ast = A({EXPLORER: "explorer", TEST: "test"}.get(d[AST], "odd"))
    out = [A("o"), enc_ob(d, SKIP), enc_ob(d, SORT), enc_ob(d, SRC), ast]
    if extra:
        out.append(A("extra"))
    return out


def enc_state(opts: dict, md):
    return [A("g"), enc_opts(opts), A(MD_NAME.get(md, "odd"))]


# ------------------------------------------------------------------ shape oracles on a real output

def maps_of(x, path="$"):
    if isinstance(x, dict):
        yield path, x
        for k, v in x.items():
            yield from maps_of(v, f"{path}.{k}")
    elif isinstance(x, (list, tuple)):
        for i, v in enumerate(x):
            yield from maps_of(v, f"{path}[{i}]")


def shape_oracle(out, opts: dict | None, kind: str) -> str | None:
    """the statement's shape clauses evaluated on the real output of one call"""
    o = opts or {}
    skip, sort = bool(o.get(SKIP, False)), bool(o.get(SORT, False))
    dialect = o.get(AST)
    ordered = kind != "to_yaml"
    for path, m in maps_of(out):
        ks = list(m)
        if skip and TYPE_KEY in ks:
            return f"untagged:{path} carries a type tag under SKIP_CLASS"
        if sort and ordered:
            rest = ks[1:] if ks and ks[0] == TYPE_KEY else ks
            if TYPE_KEY in rest:
                return f"sorted:{path} type tag not first {ks}"
            if rest != sorted(rest):
                return f"sorted:{path} keys not sorted {ks}"
        if not skip and dialect is not TEST:
            if ks and ks != ["idx"] and TYPE_KEY not in ks:
                return f"tagged:{path} has no type tag {ks}"
            if ks and ks != ["idx"] and ordered and ks[0] != TYPE_KEY:
                return f"tagged:{path} type tag not first {ks}"
        if not o.get(SRC, False) and ks == ["idx"]:
            return f"idx:{path} index reference without the option"
        is_node = "id" in m and "content_id" in m
        if is_node and dialect is EXPLORER:
            if "_children" not in m:
                return f"explorer:{path} no _children"
            if TYPE_KEY in m:
                cls = _CLS_BY_NAME.get(m[TYPE_KEY])
                if cls is not None and list(m["_children"]) != [n for n, _ in z.CHILD_FIELDS[cls]]:
                    return f"explorer:{path} _children {m['_children']}"
        if is_node and dialect is not EXPLORER and "_children" in m:
            return f"explorer:{path} _children without the dialect"
    return None


# ------------------------------------------------------------------ generation of trees

def gen_upper(rng: random.Random, sub):
    """an `Upper` node (field names sorting before "__type") holding `sub` in one of its child fields"""
    o = z.upper_origin(rng.randint(0, 2), rng.randint(1, 3)) if rng.random() < 0.5 else zoo.gen_origin(rng)
    extra = zoo.Leaf(v=rng.randint(0, 3), origin=zoo.gen_origin(rng))
    kw = dict(DISTINCT=rng.random() < 0.5, ID=rng.randint(0, 9), _0=rng.choice(["", "u"]), Zz=rng.choice(["z", "Z"]),
              lower=rng.choice(["", "l"]), origin=o)
    where = rng.choice(["FROM", "_1k", "ARGS"])
    if where == "ARGS":
        return z.Upper(ARGS=(extra, sub) if rng.random() < 0.5 else (sub,), **kw)
    if where == "FROM":
        return z.Upper(FROM=sub, _1k=extra if rng.random() < 0.4 else None, **kw)
    return z.Upper(_1k=sub, ARGS=(extra,) if rng.random() < 0.4 else (), **kw)


def gen_tree(rng: random.Random, budget: int, allow_bomb: bool, force_upper: bool = False):
    """(tree, armed?)  — zoo tree with Upper / Probe / Risky wrappers spliced in, maybe one armed bomb"""
    g = zoo.Gen(rng, origins=True, share=0.05, long_tuples=False)
    t = g.tree(budget)
    armed = False
    n_wrap = rng.choice([0, 1, 1, 2, 3])
    if force_upper:
        n_wrap = max(n_wrap, 2)
    want_bomb = allow_bomb and rng.random() < 0.5
    for w in range(n_wrap):
        paths = list(z.wrap_positions(t))
        path = rng.choice(paths)
        k = rng.random()
        if want_bomb and not armed and (w == n_wrap - 1 or k < 0.4):
            armed = True
            if rng.random() < 0.7:
                t = z.rebuild(t, path, lambda s: z.Risky(b=z.Boom(True), c=s, origin=zoo.gen_origin(rng)))
            else:
                t = z.rebuild(t, path, lambda s: z.Risky(b=z.Boom(False), c=s, origin=z.boom_origin(True, rng.randint(0, 2))))
        elif k < 0.3 or (force_upper and w == 0):
            t = z.rebuild(t, path, lambda s: gen_upper(rng, s))
        elif k < 0.55:
            t = z.rebuild(t, path, lambda s: z.Probe(n=rng.randint(0, 9), c=s, origin=zoo.gen_origin(rng)))
        elif k < 0.8:
            t = z.rebuild(t, path, lambda s: z.Risky(b=z.Boom(False), c=s, origin=zoo.gen_origin(rng)))
        else:
            t = z.rebuild(t, path, lambda s: z.Risky(c=s, origin=z.boom_origin(False, rng.randint(0, 2))))
    if want_bomb and not armed:
        armed = True
        t = z.Risky(b=z.Boom(True), c=t)
    return t, armed


def has_union_kid(t) -> bool:
    if isinstance(t, zoo.UnionKid):
        return True
    return any(has_union_kid(c) for _, _, ns in z.kid_lists(t) for c in ns)


def gen_opts(rng: random.Random):
    """(dict | None) for serialization_options"""
    if rng.random() < 0.2:
        return None
    d = {}
    for k, alt in ((SKIP, "skip_class"), (SORT, "sort_keys"), (SRC, SRC)):
        if rng.random() < 0.45:
            d[k if rng.random() < 0.7 else alt] = rng.random() < 0.8
    r = rng.random()
    if r < 0.25:
        d[AST] = EXPLORER
    elif r < 0.5:
        d[AST] = TEST
    return d


# ------------------------------------------------------------------ deserialization inputs

def rewrite_ids(x, pre: str, ctr: list):
    """fresh ids at every occurrence, so that no existing (or earlier deserialized) node is reused"""
    if isinstance(x, dict):
        y = {k: rewrite_ids(v, pre, ctr) for k, v in x.items()}
        if "id" in y and "content_id" in y and isinstance(y["id"], str):
            ctr[0] += 1
            y["id"] = f"{pre}{ctr[0]}_{y['id']}"
        return y
    if isinstance(x, list):
        return [rewrite_ids(v, pre, ctr) for v in x]
    return x


def read_positions(x, path=(), depth=0):
    """paths of the nested mappings that from_dict really reads (not below init=False fields)"""
    if isinstance(x, dict):
        yield path, depth
        skip = z.NOT_INIT.get(x.get(TYPE_KEY), set())
        for k, v in x.items():
            if k not in skip:
                yield from read_positions(v, path + (k,), depth + 1)
    elif isinstance(x, list):
        for i, v in enumerate(x):
            yield from read_positions(v, path + (i,), depth)


def corrupt(d, path, how: str):
    d = copy.deepcopy(d)
    if not path:
        tgt_parent, key = None, None
        tgt = d
    else:
        tgt_parent = d
        for k in path[:-1]:
            tgt_parent = tgt_parent[k]
        key = path[-1]
        tgt = tgt_parent[key]
    if how == "garbage":
        new = "garbage"
    elif how == "idx":
        new = {"idx": "x"}
    elif how == "noid":
        new = {k: v for k, v in tgt.items() if k != "id"}
    else:
        new = dict(tgt)
        new[TYPE_KEY] = "NoSuchClass__"
    if tgt_parent is None:
        return new
    tgt_parent[key] = new
    return d


def to_dj(x, bad_path, path=(), intctx=False, dead=False):
    if bad_path is not None and path == bad_path and not dead:
        return A("bad")
    if isinstance(x, dict):
        cls = x.get(TYPE_KEY)
        ints = z.INT_FIELDS.get(cls, set())
        skip = z.NOT_INIT.get(cls, set())
        probe = (cls in z.PROBE_CLASSES) and not dead
        return [A("n"), probe] + [to_dj(v, bad_path, path + (k,), k in ints, dead or k in skip)
                                  for k, v in x.items()]
    if isinstance(x, list):
        return [A("n"), False] + [to_dj(v, bad_path, path + (i,), intctx, dead) for i, v in enumerate(x)]
    if intctx and not dead:
        if isinstance(x, int) and not isinstance(x, bool):
            return [A("i"), False]
        if isinstance(x, str) and x.startswith("#"):
            return [A("i"), True]
    return A("p")


class Inputs:
    """deserialization inputs prepared before a history starts (their production is itself a
    sequence of public calls and must not interleave with the observed history)"""

    def __init__(self, rng: random.Random, trees: list, seq_id: int):
        self.items = []
        ctr = [0]
        for t in trees:
            r = rng.random()
            opts = {}
            if r < 0.3:
                opts[SORT] = True
            if rng.random() < 0.25:
                opts[SRC] = True
            md = z.HashInts if rng.random() < 0.35 else None
            d = rewrite_ids(t.as_dict(mashumaro_dialect=md, serialization_options=opts), f"c16s{seq_id}n", ctr)
            self.items.append((t, d, md))


# ------------------------------------------------------------------ one history

def run_history(rng: random.Random, seq_id: int, n_calls: int, ref, ref_before, budget: int, forced=None):
    """returns (request objs, request calls, real answers, oracle failure, desc, stats)"""
    objs: list = []          # sobj descriptions
    obj_index: dict[int, int] = {}

    def obj_ref(t):
        k = obj_index.get(id(t))
        if k is None:
            k = len(objs)
            obj_index[id(t)] = k
            objs.append(z.sobj(t))
        return k

    plan = []
    ser_trees, deser_trees = [], []
    for i in range(n_calls):
        kind = rng.choice(SER_KINDS + DESER_KINDS) if forced is None else forced[i][0]
        if kind in SER_KINDS:
            t, armed = gen_tree(rng, budget, allow_bomb=True)
            ser_trees.append(t)
            plan.append((kind, t, armed))
        else:
            t, _ = gen_tree(rng, budget, allow_bomb=False)
            while has_union_kid(t):      # mashumaro turns a failing `A | B | None` member into None
                t, _ = gen_tree(rng, budget, allow_bomb=False)
            deser_trees.append(t)
            plan.append((kind, t, False))
    inputs = Inputs(rng, deser_trees, seq_id)
    it_inputs = iter(inputs.items)
    keep = []            # keep deserialized objects alive until the history ends (stable registry)

    calls, real, descs = [], [], []
    oracle = None
    stats = {"raise": 0, "opts": 0, "objs": 0, "depth": 0}

    def observe(kind, opts, md, inp_sx, thunk, post):
        nonlocal oracle
        z.PROBE_LOG.clear()
        try:
            res = in_thread(thunk)
            outcome = post(res)
        except Exception:  # noqa  (the statement names no exception class)
            outcome = [A("raise")]
            stats["raise"] += 1
        so, sd = slots()
        state = enc_state(so, sd)
        if oracle is None and (so != {} or sd is not None):
            oracle = f"slots {kind} left options={so!r} dialect={sd}"
        calls.append([A("call"), A(kind), enc_opts(opts), A(MD_NAME[md]), inp_sx])
        real.append([outcome, state])
        _count(f"{kind}:{outcome[0]}")
        _count("options:" + ("none" if opts is None else "+".join(
            sorted(str(getattr(k, "value", k)) + ("" if v is not False else "=False") for k, v in opts.items())) or "{}"))
        if md is not None:
            _count("user-dialect")

    for i, (kind, t, armed) in enumerate(plan):
        opts = gen_opts(rng) if forced is None else forced[i][1]
        md = None
        if kind in ("as_dict", "to_yaml", "as_obj", "from_yaml") and rng.random() < 0.3:
            md = z.HashInts
        if forced is not None:
            md = forced[i][2]
        kw = {} if opts is None else {"serialization_options": opts}
        if opts:
            stats["opts"] += 1
        if kind in SER_KINDS:
            stats["objs"] = max(stats["objs"], z.count_objs(t))
            if md is not None:
                kw["mashumaro_dialect"] = md
            parse = {"as_dict": lambda r: r, "to_json": orjson.loads,
                     "to_msgpck": lambda r: msgpack.unpackb(r, raw=False),
                     "to_yaml": lambda r: yaml.load(r, Loader=yaml.SafeLoader)}[kind]

            def post(res, kind=kind, opts=opts, parse=parse):
                nonlocal oracle
                out = parse(res)
                if oracle is None:
                    f = shape_oracle(out, opts, kind)
                    if f:
                        oracle = f"{f.split(':')[0]}:{ast_name(opts)} {kind} {f}"
                return [A("ok"), z.canon_j(out, sort=(kind == "to_yaml"))]

            observe(kind, opts, md, [A("ser"), obj_ref(t)], lambda: getattr(t, kind)(**kw), post)
            descs.append(f"{kind}({zoo_show(t)}, opts={opts}, md={MD_NAME[md]}){' [bomb]' if armed else ''}")
            if armed:
                _count("armed-bomb-in-tree")
        else:
            t, d, made_with = next(it_inputs)
            cls = type(t)
            r = rng.random()
            bad_path = None
            unparsable = False
            how = ""
            if r < 0.12 and kind != "as_obj":
                unparsable = True
                _count("unparsable-text")
            elif r < 0.5:
                cands = list(read_positions(d))
                bad_path, depth = rng.choice(cands)
                stats["depth"] = max(stats["depth"], depth)
                _count(f"malformed-at-depth:{min(depth, 6)}")
                tgt = d
                for k in bad_path:
                    tgt = tgt[k]
                if list(tgt) == ["idx"]:
                    how = rng.choice(["garbage", "idx"])
                elif "id" in tgt and "content_id" in tgt:
                    how = rng.choice(["garbage", "type", "noid"])
                else:
                    how = rng.choice(["garbage", "type"])
                d_in = corrupt(d, bad_path, how)
            if bad_path is None:
                d_in = d
            if unparsable:
                raw = {"from_json": b'{"a": [1, ', "from_msgpck": b"\xc1", "from_yaml": "{a: [1, "}[kind]
                inp_sx = [A("unparsable")]
            else:
                raw = {"as_obj": lambda x: x, "from_json": orjson.dumps,
                       "from_msgpck": lambda x: msgpack.packb(x, use_bin_type=True),
                       "from_yaml": lambda x: yaml.dump(x, Dumper=yaml.SafeDumper)}[kind](d_in)
                inp_sx = [A("deser"), to_dj(d, bad_path)]
            if md is not None:
                kw["mashumaro_dialect"] = md

            def post(res):
                nonlocal oracle
                keep.append(res)
                seen = []
                for so, sd in z.PROBE_LOG:
                    s = enc_state(so, sd)
                    if s not in seen:
                        seen.append(s)
                return [A("seen")] + seen

            observe(kind, opts, md, inp_sx, lambda: getattr(cls, kind)(raw, **kw), post)
            # oracle: whatever a nested hook saw is the entered state of this very call
            eff = {"from_json": OrjsonDialect, "from_msgpck": MessagePackDialect}.get(kind, md)
            for so, sd in z.PROBE_LOG:
                if oracle is None and (so != (opts or {}) or sd is not eff):
                    oracle = f"hook {kind} nested hook saw options={so!r} dialect={sd}"
            descs.append(f"{kind}(<{cls.__name__} input made with md={MD_NAME[made_with]}"
                         f"{', malformed:' + how + '@' + '.'.join(map(str, bad_path)) if bad_path is not None else ''}"
                         f"{', unparsable' if unparsable else ''}>, opts={opts}, md={MD_NAME[md]})")
        # reference check: a later call without options produces the default output
        if rng.random() < 0.7 or i == len(plan) - 1:
            def post_ref(res):
                nonlocal oracle
                if oracle is None and dumps(z.canon_j(res)) != ref_before:
                    oracle = f"later {kind} default as_dict of the reference tree changed after the call"
                return [A("ok"), z.canon_j(res)]
            observe("as_dict", None, None, [A("ser"), obj_ref(ref)], lambda: ref.as_dict(), post_ref)
    line = dumps([A("c16"), [A("objs")] + objs, [A("calls")] + calls])
    return line, dumps([A("res"), [A("wf"), True]] + real), oracle, "; ".join(descs), stats


def zoo_show(t):
    cls = type(t)
    if cls in zoo.CHILD_FIELDS:
        try:
            return zoo.show(t)[:300]
        except KeyError:
            pass
    return f"{cls.__name__}(…{z.count_objs(t)} objects…)"


def make_ref(rng: random.Random):
    o1 = CodeOrigin(zoo._SRC[0], get_code_range(0, 1, 0, 2, 1, 2))
    o2 = CodeOrigin(zoo._SRC[1], get_code_range(3, 1, 3, 5, 1, 5))
    return zoo.Bin(zoo.Leaf(v=rng.randint(0, 9), s="r", origin=o1),
                   zoo.Tup((z.Probe(n=1, c=zoo.Leaf2(v=2, extra=("x",))), zoo.Two(a="a", b="b", origin=MultiOrigin([o1, o2])),
                            z.Upper(FROM=zoo.Leaf(v=5), DISTINCT=True, ID=3, ARGS=(zoo.Falsy(n=1),), _0="u",
                                    origin=z.upper_origin(1, 2))),
                           origin=o2))


def ast_name(opts) -> str:
    return {EXPLORER: "explorer", TEST: "test"}.get((opts or {}).get(AST), "plain")


def sig_of(oracle: str | None) -> str:
    if not oracle:
        return "history"
    return oracle.split(" ")[0]


def bad_options_cases(rng):
    """a call whose options ARGUMENT is unusable (not a mapping) fails before it does anything; the calls after it behave
    as if it had never been made: a call with options applies them to itself only, a later call without options produces
    the default output"""
    import zoo
    t = zoo.Tup((zoo.Un(zoo.Leaf(v=1)), zoo.Leaf(v=2, s="x")))
    base = t.as_dict()
    bads = [{SKIP}, [SORT], "sort_keys", 5, [(SKIP, True, 1)], {SORT: True}.items()]
    for i, bad in enumerate(bads):
        fail = None
        for entry in ("as_dict", "as_obj", "to_json"):
            try:
                if entry == "as_dict":
                    t.as_dict(serialization_options=bad)
                elif entry == "to_json":
                    t.to_json(serialization_options=bad)
                else:
                    type(t).as_obj(base, serialization_options=bad)
            except Exception:  # noqa
                pass
            with_opts = t.as_dict(serialization_options={SKIP: True, SORT: True})
            after = t.as_dict()
            so, sd = slots()
            if "__type" in with_opts:
                fail = f"after {entry}(options={bad!r}): a call WITH SKIP_CLASS still carries a type tag"
            elif after != base:
                fail = f"after {entry}(options={bad!r}) and a call with options: the default output changed"
            elif so != {} or sd is not None:
                fail = f"after {entry}(options={bad!r}): option state left {so!r} / {sd}"
            if fail:
                break
        yield Case("directed:bad-options", None, None, True, f"options argument {bad!r} (not a mapping), then a call with options, then a default call",
                   oracle_fail=fail, sig="opts|directed|bad-options")


def cases(rng: random.Random, tier: str):
    yield from bad_options_cases(rng)
    n_hist = 140 if tier == "quick" else 2500
    ref = make_ref(rng)
    ref_before = dumps(z.canon_j(ref.as_dict()))     # order-sensitive rendering
    seq_id = 0
    # every subset of the options, one call each followed by the reference check
    combos = list(itertools.product([None, True, False], [None, True, False], [None, True], [None, EXPLORER, TEST],
                                    [None, z.HashInts]))
    for kind in (SER_KINDS if tier == "thorough" else ["as_dict", rng.choice(SER_KINDS[1:])]):
        t, _ = gen_tree(rng, 8, allow_bomb=False, force_upper=True)
        for chunk in range(0, len(combos), 3):
            forced = []
            for (sk, so, sr, ast, md) in combos[chunk:chunk + 3]:
                o = {}
                if sk is not None:
                    o[SKIP] = sk
                if so is not None:
                    o[SORT] = so
                if sr is not None:
                    o[SRC] = sr
                if ast is not None:
                    o[AST] = ast
                forced.append((kind, o, md if kind in ("as_dict", "to_yaml") else None))
            seq_id += 1
            THREADED[0] = rng.random() < 0.3
            line, real, oracle, desc, st = run_history_fixed(rng, seq_id, t, forced, ref, ref_before)
            desc += " [every call in a thread of its own]" if THREADED[0] else ""
            THREADED[0] = False
            yield Case("combo", line, real, True, desc, oracle_fail=oracle, sig=sig_of(oracle))
    for _ in range(n_hist):
        seq_id += 1
        n_calls = rng.randint(2, 6)
        budget = rng.choice([1, 3, 6, 10, 16])
        THREADED[0] = rng.random() < 0.3
        line, real, oracle, desc, st = run_history(rng, seq_id, n_calls, ref, ref_before, budget)
        desc += " [every call in a thread of its own]" if THREADED[0] else ""
        THREADED[0] = False
        nontrivial = st["opts"] >= 1 and st["objs"] >= 3 or (st["opts"] >= 1 and st["depth"] >= 1)
        yield Case("history", line, real, nontrivial, desc, oracle_fail=oracle, sig=sig_of(oracle))


def run_history_fixed(rng, seq_id, tree, forced, ref, ref_before):
    """a history of serializations of one given tree with prescribed options"""
    objs = [z.sobj(tree), z.sobj(ref)]
    calls, real, descs = [], [], []
    oracle = None
    for kind, opts, md in forced:
        kw = {"serialization_options": opts}
        if md is not None:
            kw["mashumaro_dialect"] = md
        parse = {"as_dict": lambda r: r, "to_json": orjson.loads,
                 "to_msgpck": lambda r: msgpack.unpackb(r, raw=False),
                 "to_yaml": lambda r: yaml.load(r, Loader=yaml.SafeLoader)}[kind]
        for which, thunk, o, m in ((0, lambda: parse(getattr(tree, kind)(**kw)), opts, md),
                                   (1, lambda: ref.as_dict(), None, None)):
            try:
                out = in_thread(thunk)
                if oracle is None:
                    f = shape_oracle(out, o, kind if which == 0 else "as_dict")
                    if f:
                        oracle = f"{f.split(':')[0]}:{ast_name(o)} {kind} {f}"
                    if which == 1 and dumps(z.canon_j(out)) != ref_before and oracle is None:
                        oracle = f"later {kind} default as_dict of the reference tree changed after the call"
                outcome = [A("ok"), z.canon_j(out, sort=(which == 0 and kind == "to_yaml"))]
            except Exception:  # noqa
                outcome = [A("raise")]
            so, sd = slots()
            if oracle is None and (so != {} or sd is not None):
                oracle = f"slots {kind} left options={so!r} dialect={sd}"
            calls.append([A("call"), A(kind if which == 0 else "as_dict"), enc_opts(o), A(MD_NAME[m]), [A("ser"), which]])
            real.append([outcome, enc_state(so, sd)])
        descs.append(f"{kind}({zoo_show(tree)}, opts={opts}, md={MD_NAME[md]})")
    line = dumps([A("c16"), [A("objs")] + objs, [A("calls")] + calls])
    return line, dumps([A("res"), [A("wf"), True]] + real), oracle, "; ".join(descs), {}
