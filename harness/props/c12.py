"""C12 — child and property accessors: the real generated accessors, the static variants, `children`
and `to_properties_dict` on generated class hierarchies vs. the Lean model (which Props/C12*.lean
prove equal to the filter-by-flags-then-order specification), under every order of first use."""
from __future__ import annotations

import dataclasses
import itertools
import random

from proto import A, dumps
from run import Case
import zoo
import zoo_c12 as Z

from kernels_tie import pre_build, restore_generated, build_failure_is_tie, build_ok  # noqa: F401  (tie by translation)

PROPERTY = "C12"
LEAN_MODULE = "PyOak.Props.C12All"
_NS = "PyOak.Acc.C12."
THEOREMS = [_NS + t for t in [
    "fields_eq_declOrder", "fields_names_nodup", "fields_names", "fields_most_derived",
    "childFields_eq", "props_eq",
    "get_child_nodes_with_field_eq_spec", "get_child_nodes_eq_spec", "children_eq_spec",
    "iter_child_fields_eq_spec", "get_child_fields_eq_spec",
    "get_properties_eq_spec", "get_property_fields_eq_spec", "static_agrees_with_instance",
    "ordered_isNameOrder", "nameOrder_unique", "property_fields_sorted", "get_properties_sorted",
    "get_properties_sorted_fields", "child_nodes_sorted_perm", "to_properties_dict_eq_spec",
    "with_field_mem", "children_complete",
    "with_field_truthiness_irrelevant", "child_uids_truthiness_irrelevant",
    "call_runs_own_function", "without_repointing_fails", "marker_sharing_fails", "F12_pre_fix_fails",
    "F17_pre_fix_fails", "foldl_resolved", "resolve_replay",
    "strLt_irrefl", "strLt_asymm", "strLt_total", "strLt_negtrans", "sortByName_perm", "sortByName_pairwise",
]]
THEOREMS += ["PyOak.GenBridge.propertyFieldYielded_eq_gen"] + ["PyOak.C12X." + t for t in [
    "sortByName_stable", "stableSort_unique", "edgesSorted_eq_stableSort", "edgesSorted_spec", "edgesSorted_unique",
    "get_child_nodes_with_field_sorted", "get_child_nodes_sorted", "iter_child_fields_sorted"]]
# additions (AUDIT C12 §4 (i), (iii)): END-TO-END first-use independence over Model/AccessorsWorld.lean
THEOREMS += [_NS + t for t in [
    "goodP_of_reach", "dispatch_own_code", "get_child_nodes_e2e", "get_child_nodes_with_field_e2e",
    "iter_child_fields_e2e", "get_properties_e2e", "children_e2e", "get_child_fields_e2e",
    "get_property_fields_e2e", "to_properties_dict_e2e", "first_use_independent", "call_then_call", "partition",
    "without_repointing_e2e_fails"]]
RULE = ("seeded generated families of node classes (source text exec'ed in a fresh module): chains of 1-4 classes with 0-6 "
        "fields per class and marker subclasses; MULTIPLE INHERITANCE: diamonds over ASTNode or over a common parent, "
        "`class C(A, B)` / `class C(A, B, E)` with and without own fields, marker / further subclasses of C, mix-ins "
        "without fields in any base position; 10 property shapes, 9 single-child shapes, 7 tuple shapes; overrides that "
        "keep or change the kind; defaults, init=False, compare=False, both, kw_only; re-declared origin; plain and "
        "postponed annotations) x schedules of first use (all classes defined then used in every / sampled permutation; "
        "each class defined just before its first use, in index order and in another order of use; random interleavings "
        "with repeated uses; static accessor first vs instance accessor first) each on a fresh copy of the family; TWINS: "
        "the family defined twice in one module under the same class names (same field names / kinds / flags, own Field "
        "objects with other metadata and defaults), either twin used first, interleaved and reversed x all "
        "2^5 x 2 flag vectors of get_properties and 2^5 of get_property_fields x instances with empty tuples, absent "
        "optionals, falsy children (__len__ -> 0, __bool__ -> False), an object twice in a tuple; a case is non-trivial "
        "when the class has >= 2 user fields; distinct by request line; in-process oracle on every case: each Field "
        "yielded by get_properties / iter_child_fields / get_child_nodes_with_field / get_property_fields / "
        "get_child_fields `is` the entry of dataclasses.fields(type(instance))")
TRUSTED = [
    "dataclasses.fields() of a class is modelled by `resolve` over the flat replay of the declarations met while expanding the reversed MRO recursively (Props/C12MI.lean `resolve_replay`: replaying = writing the bases' resolved field dicts, which is what dataclasses does); the C3 linearisation is computed by the harness from the generated data; the result is compared with the real fields() on every generated class",
    "the classification of an annotation as property / single child / tuple of children is data here (subject of C11); the harness's kind of every field is compared with pyoak's classification on every generated class",
    "CPython's sorted(key=...) is modelled by a stable insertion sort on code points",
    "the value stored in an attribute is read with plain getattr when the instance is described to the model",
]
ASSUMPTIONS = [
    "node classes below ASTNode with single or multiple inheritance; mix-ins declare no dataclass fields",
    "don't-care: diamonds in which dataclasses' field dict (reversed MRO, bases' resolved dicts) and the MRO attribute/annotation lookup pick different declarations of one name (P.x, A(P), B(P) overriding x, C(A, B)) are not generated",
    "instances are well typed (no runtime type check is involved)",
]
BUDGET = {"quick": 200, "thorough": 1800}

FLAG_GRID = list(itertools.product([False, True], repeat=5))   # skip_id skip_origin skip_content_id skip_non_compare skip_non_init


def _guard(fn):
    try:
        return fn()
    except Exception as e:  # noqa
        return dumps([A("raise"), A(type(e).__name__)])


class VTable:
    """property values -> small integers, by (type, repr)"""

    def __init__(self):
        self.t: dict = {}

    def tok(self, v) -> int:
        k = (type(v).__name__, repr(v))
        if k not in self.t:
            self.t[k] = len(self.t)
        return self.t[k]


class Use:
    """all observations on one instance of one class of one hierarchy copy"""

    def __init__(self, h: Z.Hier, k: int, rng: random.Random, toks: zoo.Tokens, vt: VTable, tag: str):
        self.h, self.k, self.rng, self.toks, self.vt, self.tag = h, k, rng, toks, vt, tag
        self.cls = h.classes[k]
        self.cls_sx = h.sexp_class(k)
        self.nfields = len(h.user_fields(k))
        self.nontriv = self.nfields >= 2
        self.foreign: list[str] = []

    def _own(self, f, fmap, where: str) -> bool:
        """oracle: a yielded Field must be the very entry of dataclasses.fields(type(instance))"""
        if fmap.get(f.name) is f:
            return True
        self.foreign.append(f"{where} yielded a Field {f.name!r} that is not dataclasses.fields({self.cls.__name__})"
                            f"[{f.name!r}] (default={f.default!r}, metadata={dict(f.metadata)!r})")
        return False

    def _oracle(self):
        msg = "; ".join(self.foreign[:3]) or None
        self.foreign = []
        return msg

    # ---- real side helpers
    def _fv(self, v):
        if v is None:
            return A("none")
        if isinstance(v, Z.ASTNode):
            return [A("n"), self.toks.tok(v)]
        if isinstance(v, tuple) and all(isinstance(x, Z.ASTNode) for x in v):
            return [A("t")] + [self.toks.tok(x) for x in v]
        return [A("weird"), type(v).__name__]

    def _pair(self, inst, v, f, fmap, child: bool):
        out = [f.name, self._fv(v) if child else self.vt.tok(v)]
        if not self._own(f, fmap, "iter_child_fields" if child else "get_properties"):
            out.append(A("stale-field"))
        if getattr(inst, f.name, None) is not v:
            out.append(A("not-the-stored-object"))
        return out

    def inst_sexp(self, inst, vals):
        items = [["id", [A("p"), self.vt.tok(inst.id)]], ["content_id", [A("p"), self.vt.tok(inst.content_id)]]]
        for f in self.h.user_fields(self.k):
            if f.name == "origin":
                continue
            v = vals[f.name]
            if f.kind == "p":
                items.append([f.name, [A("p"), self.vt.tok(v)]])
            elif v is None:
                items.append([f.name, A("none")])
            elif f.kind == "c1":
                items.append([f.name, [A("n"), self.toks.tok(v), bool(v)]])
            else:
                items.append([f.name, [A("t")] + [[self.toks.tok(x), bool(x)] for x in v]])
        items.append(["origin", [A("p"), self.vt.tok(vals["origin"])]])
        return [A("inst")] + items

    def desc(self, what: str) -> str:
        return f"[{self.tag}] class {self.h.cname(self.k)} of\n{self.h.source()}\n{what}"

    # ---- the observations
    def static_cases(self):
        cls, sx = self.cls, self.cls_sx

        def fields_real():
            cf = cls.get_child_fields()
            out = []
            for f in dataclasses.fields(cls):
                kind = "p"
                for g, info in cf.items():
                    if g.name == f.name:
                        kind = "ct" if info.is_collection else "c1"
                out.append([f.name, A(kind), f.compare, f.init, f.kw_only])
            return dumps([A("ok")] + out)

        fmap = {f.name: f for f in dataclasses.fields(cls)}

        def names(fs, where):
            return [f.name if self._own(f, fmap, where) else [f.name, A("stale-field")] for f in fs]

        def child_fields_real():
            return dumps([A("ok")] + names(cls.get_child_fields(), "get_child_fields"))

        def mk_child_fields():
            real = _guard(child_fields_real)
            return Case("get_child_fields", dumps([A("acc-child-fields"), sx]), real, self.nontriv,
                        self.desc("get_child_fields()"), sig="get_child_fields", oracle_fail=self._oracle())

        acts = [("fields", lambda: Case("fields", dumps([A("acc-fields"), sx]), _guard(fields_real), self.nontriv,
                                        self.desc("dataclasses.fields + classification"), sig="fields")),
                ("child_fields", mk_child_fields)]
        for fl in FLAG_GRID:
            def mk(fl=fl):
                real = _guard(lambda: dumps([A("ok")] + names(cls.get_property_fields(*fl), "get_property_fields")))
                return Case("get_property_fields", dumps([A("acc-prop-fields"), sx, [A("flags")] + list(fl)]), real,
                            self.nontriv, self.desc(f"get_property_fields{fl}"),
                            sig=f"get_property_fields|{_flagsig(fl)}", oracle_fail=self._oracle())
            acts.append(("pf", mk))
        return acts

    def instance_cases(self, all_flags: bool = True, n_flags: int = 6):
        try:
            inst, vals = Z.make_instance(self.rng, self.h, self.k)
        except Exception as e:  # noqa
            if isinstance(e, TypeError) and "__init__()" in str(e):
                raise RuntimeError(f"harness passed wrong constructor arguments: {e}\n{self.h.source()}")
            # the constructor itself runs get_properties / get_child_nodes_with_field
            err = f"constructing a well-typed instance raised {type(e).__name__}: {e}"
            return [("construct", lambda: Case("construct", None, None, self.nontriv, self.desc("construct an instance"),
                                               oracle_fail=err, sig="construct|raise"))]
        cls, sx = self.cls, self.cls_sx
        ix = self.inst_sexp(inst, vals)
        for v in vals.values():
            if isinstance(v, Z.FALSY):
                _stat("falsy single child")
            elif isinstance(v, tuple) and v and isinstance(v[0], Z.ASTNode):
                _stat("non-empty child tuple")
                if any(isinstance(x, Z.FALSY) for x in v):
                    _stat("falsy tuple element")
                if len(v) >= 11:
                    _stat("tuple of length >= 11")
        _stat("instances")
        fmap = {f.name: f for f in dataclasses.fields(cls)}
        idesc = "instance " + ", ".join(f"{n}={_short(v)}" for n, v in vals.items())
        acts = []
        for s in (False, True):
            def nodes(s=s):
                real = _guard(lambda: dumps([A("ok")] + [self.toks.tok(c) for c in inst.get_child_nodes(sort_keys=s)]))
                return Case("get_child_nodes", dumps([A("acc-nodes"), sx, ix, [A("sort"), s]]), real, self.nontriv,
                            self.desc(f"{idesc}\nget_child_nodes(sort_keys={s})"), sig=f"get_child_nodes|sort={s}")

            def wf(s=s):
                def run():
                    out = []
                    for c, f, i in inst.get_child_nodes_with_field(sort_keys=s):
                        e = [self.toks.tok(c), f.name, i]
                        if not self._own(f, fmap, "get_child_nodes_with_field"):
                            e.append(A("stale-field"))
                        out.append(e)
                    return dumps([A("ok")] + out)
                return Case("get_child_nodes_with_field", dumps([A("acc-wf"), sx, ix, [A("sort"), s]]), _guard(run),
                            self.nontriv, self.desc(f"{idesc}\nget_child_nodes_with_field(sort_keys={s})"),
                            sig=f"get_child_nodes_with_field|sort={s}", oracle_fail=self._oracle())

            def it(s=s):
                real = _guard(lambda: dumps([A("ok")] + [self._pair(inst, v, f, fmap, True)
                                                          for v, f in inst.iter_child_fields(sort_keys=s)]))
                return Case("iter_child_fields", dumps([A("acc-iter"), sx, ix, [A("sort"), s]]), real, self.nontriv,
                            self.desc(f"{idesc}\niter_child_fields(sort_keys={s})"), sig=f"iter_child_fields|sort={s}",
                            oracle_fail=self._oracle())
            acts += [("nodes", nodes), ("wf", wf), ("iter", it)]
            grid = FLAG_GRID if all_flags else self.rng.sample(FLAG_GRID, n_flags)
            for fl in grid:
                def props(s=s, fl=fl):
                    real = _guard(lambda: dumps([A("ok")] + [self._pair(inst, v, f, fmap, False)
                                                              for v, f in inst.get_properties(*fl, sort_keys=s)]))
                    return Case("get_properties", dumps([A("acc-props"), sx, ix, [A("flags")] + list(fl), [A("sort"), s]]),
                                real, self.nontriv, self.desc(f"{idesc}\nget_properties{fl} sort_keys={s}"),
                                sig=f"get_properties|{_flagsig(fl)}", oracle_fail=self._oracle())
                acts.append(("props", props))

        def children():
            real = _guard(lambda: dumps([A("ok")] + [self.toks.tok(c) for c in inst.children]))
            return Case("children", dumps([A("acc-children"), sx, ix]), real, self.nontriv,
                        self.desc(f"{idesc}\nchildren"), sig="children")

        def pdict():
            real = _guard(lambda: dumps([A("ok")] + [[n, self.vt.tok(v)] for n, v in
                                                     sorted(inst.to_properties_dict().items())]))
            return Case("to_properties_dict", dumps([A("acc-dict"), sx, ix]), real, self.nontriv,
                        self.desc(f"{idesc}\nto_properties_dict()"), sig="to_properties_dict")
        acts += [("children", children), ("dict", pdict)]
        return acts


def _flagsig(fl) -> str:
    return "".join("1" if b else "0" for b in fl)


def _short(v) -> str:
    if isinstance(v, tuple) and v and isinstance(v[0], Z.ASTNode):
        return "(" + ",".join(type(x).__name__ for x in v) + ")"
    if isinstance(v, Z.ASTNode):
        return type(v).__name__ + "()"
    if type(v).__name__.endswith("Origin"):
        return type(v).__name__
    return repr(v)


def _jit(order, modes):
    """define every class right before it is first needed (classes are defined in index order, which is
    a topological order of the family), use the classes in `order`"""
    ops, defined = [], 0
    for k, m in zip(order, modes):
        while defined <= k:
            ops.append(("def", defined))
            defined += 1
        ops.append(("use", k, m))
    return ops


def schedules(rng: random.Random, n: int, tier: str):
    """schedules of first use: lists of ('def', k) / ('use', k, mode); mode says which accessor family
    touches the class first"""
    out = []
    modes = ["static", "instance", "mixed"]
    perms = list(itertools.permutations(range(n)))
    cap = 3 if tier == "quick" else 8
    if len(perms) > cap:
        perms = [perms[0], perms[-1]] + rng.sample(perms[1:-1], cap - 2)
    for p in perms:
        mode = rng.choice(modes)
        # all classes defined, then used in the order p
        out.append([("def", k) for k in range(n)] + [("use", k, mode) for k in p])
    # subclasses defined only after the first use of their bases
    out.append(_jit(list(range(n)), [rng.choice(modes) for _ in range(n)]))
    if n >= 3:
        # just-in-time definition along another order of use
        p = list(rng.choice(perms[1:]))
        out.append(_jit(p, [rng.choice(modes) for _ in range(n)]))
    if n >= 2:
        # random admissible interleaving, classes used more than once
        ops = []
        defined = 0
        while defined < n or rng.random() < 0.5:
            if defined < n and (defined == 0 or rng.random() < 0.5):
                ops.append(("def", defined))
                defined += 1
            else:
                ops.append(("use", rng.randrange(defined), rng.choice(modes)))
            if len(ops) > 3 * n + 2:
                break
        for k in range(defined, n):
            ops.append(("def", k))
        ops += [("use", k, "mixed") for k in range(n) if ("use", k) not in {(o[0], o[1]) for o in ops}]
        out.append(ops)
    return out


def twin_schedules(rng: random.Random, n: int, tier: str):
    """the family and its twin (same module, same class names, own Field objects): which of the two
    same-named classes is used first"""
    modes = ["static", "instance", "mixed"]
    m = lambda: rng.choice(modes)  # noqa
    defs = [("def", k, t) for t in (0, 1) for k in range(n)]
    out = [
        defs + [("use", k, m(), 0) for k in range(n)] + [("use", k, m(), 1) for k in range(n)],
        defs + [("use", k, m(), 1) for k in range(n)] + [("use", k, m(), 0) for k in range(n)] +
        [("use", k, m(), 1) for k in range(n)],
    ]
    inter = [x for k in range(n) for t in (0, 1) for x in (("def", k, t), ("use", k, m(), t))]
    rev = defs + [("use", k, m(), t) for k in reversed(range(n)) for t in (1, 0)]
    out += [inter, rev] if tier != "quick" else [rng.choice([inter, rev])]
    return out


def _op_txt(o) -> str:
    return o[0] + str(o[1]) + ("'" if o[-1] == 1 and len(o) > (2 if o[0] == "def" else 3) else "")


def run_schedule(rng: random.Random, proto_h: Z.Hier, sched, tag: str):
    h = proto_h.copy(Z.next_uid())
    _stat("schedules")
    try:
        h.open_module()
    except Exception as e:  # noqa
        raise RuntimeError(f"generated header does not import: {e}")
    hs = {0: h}
    toks = zoo.Tokens()
    vt = VTable()
    used: set = set()
    stxt = " ".join(_op_txt(o) for o in sched)
    for op in sched:
        t = op[2] if op[0] == "def" and len(op) > 2 else (op[3] if op[0] == "use" and len(op) > 3 else 0)
        if t not in hs:
            hs[t] = h.twin(t)
            _stat("twin families (same module + class names)")
        ht = hs[t]
        if op[0] == "def":
            try:
                ht.define(op[1])
            except Exception as e:  # noqa
                # whether a class definition is accepted is not C12's subject: the hierarchy is skipped and
                # counted (cases() stops with a machinery error when rejections are not rare)
                _stat("rejected definitions")
                REJECTED.append(f"{type(e).__name__}: {e}\n{ht.source()}")
                return
            continue
        k, mode = op[1], op[2]
        u = Use(ht, k, rng, toks, vt, f"{tag}; schedule {stxt} (x' = the twin class of the same name); "
                                       f"{'twin ' if t else ''}first touch {mode}")
        first = (t, k) not in used
        used.add((t, k))
        if len(hs) == 1:
            st = u.static_cases() if first else rng.sample(u.static_cases(), 4)
            ins = u.instance_cases(all_flags=first)
            for _ in range(2):
                ins += u.instance_cases(all_flags=False)  # further instances: other values, absent / empty / falsy
        else:
            # twin runs are about *which class's Field objects* come back: fewer flag vectors
            st = u.static_cases()
            st = st[:2] + rng.sample(st[2:], 4)
            ins = u.instance_cases(all_flags=False, n_flags=3)
        if mode == "static":
            acts = st + ins
        elif mode == "instance":
            rng.shuffle(ins)
            acts = ins + st
        else:
            acts = st + ins
            rng.shuffle(acts)
        for _, mk in acts:
            yield mk()


STATS: dict[str, int] = {}
REJECTED: list[str] = []


def _stat(k: str, n: int = 1) -> None:
    STATS[k] = STATS.get(k, 0) + n


def _hier_stats(h: Z.Hier) -> None:
    _stat("hierarchies")
    _stat(f"shape={h.shape}")
    _stat(f"classes={len(h.levels)}")
    for k, lvl in enumerate(h.levels):
        _stat(f"own_fields={len(lvl)}")
        nb = sum(1 for b in h.bases[k] if isinstance(b, int))
        if nb >= 2:
            _stat("class with >= 2 node bases" + ("" if lvl else ", no own fields"))
        elif nb == 1 and not lvl:
            _stat("marker subclass (one base, no own fields)")
        if any(b in Z.MIXINS for b in h.bases[k]):
            _stat("class with a mix-in base")
        inherited = {f.name: f for a in reversed(h.node_ancestors(k)) for f in h.levels[a]}
        for f in lvl:
            _stat(f"kind={f.kind}")
            if not f.init and not f.compare:
                _stat("init=False,compare=False")
            elif not f.init:
                _stat("init=False")
            elif not f.compare:
                _stat("compare=False")
            if f.kw_only:
                _stat("kw_only")
            if f.name in inherited:
                _stat("override")
                if inherited[f.name].kind != f.kind:
                    _stat("override changes kind")
            if f.name == "origin":
                _stat("origin re-declared")
    if h.postponed:
        _stat("postponed annotations")


def extra_coverage():
    return {"generated": dict(sorted(STATS.items())),
            "generator_trials": {"families": Z.RETRIES[0], "discarded by trial definition": Z.RETRIES[1],
                                 "discarded: diamond where field dict and MRO lookup pick different declarations": Z.RETRIES[2]}}


def id_takeover_cases(rng, n):
    """accessors answer for the node they are called on, whatever was asked of OTHER nodes before: P's accessors are read,
    Q = P.replace(child = a distinct object with the same content and origin (differs in a non-comparable property only))
    takes over P's id and is == P; with P still alive every accessor of Q must return the objects stored in Q's fields"""
    for _ in range(n):
        tag1, tag2 = rng.sample(["a", "b", "c", "d"], 2)
        k1 = zoo.Leaf(v=rng.randrange(5), tag=tag1)
        k2 = zoo.Leaf(v=k1.v, tag=tag2)
        other = zoo.Leaf(v=7)
        shape = rng.choice(["bin", "tup", "mixed", "opt"])
        if shape == "bin":
            p, kw = zoo.Bin(k1, other), {"left": k2}
        elif shape == "tup":
            p, kw = zoo.Tup((other, k1)), {"items": (other, k2)}
        elif shape == "mixed":
            p, kw = zoo.Mixed(other, (k1,), None, name="m"), {"items": (k2,)}
        else:
            p, kw = zoo.Opt(k1), {"c": k2}
        reads = lambda n: {  # noqa
            "children": list(n.children), "get_child_nodes": list(n.get_child_nodes()),
            "get_child_nodes(sort_keys)": list(n.get_child_nodes(sort_keys=True)),
            "get_child_nodes_with_field": [x[0] for x in n.get_child_nodes_with_field()],
            "iter_child_fields": [x for v, f in n.iter_child_fields() for x in (v if isinstance(v, tuple) else (v,)) if x is not None],
            "get_properties": [v for v, f in n.get_properties()], "to_properties_dict": sorted(n.to_properties_dict().items()),
        }
        before = reads(p)
        q = p.replace(**kw)
        stored = [x for nm, coll, ns in zoo.kid_lists(q) for x in ns]
        got = reads(q)
        fail = None
        for k in ("children", "get_child_nodes", "get_child_nodes_with_field", "iter_child_fields"):
            if len(got[k]) != len(stored) or any(a is not b for a, b in zip(got[k], stored)):
                fail = f"{k} of the replacement returns objects that are not the ones stored in its fields (a same-id, ==-equal predecessor was queried before)"
                break
        if fail is None and (len(got["get_child_nodes(sort_keys)"]) != len(stored) or {id(x) for x in got["get_child_nodes(sort_keys)"]} != {id(x) for x in stored}):
            fail = "get_child_nodes(sort_keys=True) of the replacement returns other objects than its fields hold"
        if fail is None and (got["get_properties"] != reads(q)["get_properties"] or got["to_properties_dict"] != before["to_properties_dict"]):
            fail = "property accessors of the replacement differ from the (equal) original's"
        yield Case("directed:id-takeover", None, None, True,
                   f"P={zoo.show(p)}; accessors read; Q=P.replace({list(kw)[0]}=<equal content, other object>) (same id: {q.id == p.id})",
                   oracle_fail=fail, sig="accessors|directed|id-takeover")
        del p, q, k1, k2, other, before, got, stored


def cases(rng: random.Random, tier: str):
    yield from id_takeover_cases(rng, 12 if tier == "quick" else 200)
    n_h = 30 if tier == "quick" else 550
    directed = Z.directed_hiers(rng)
    _stat("directed_families", len(directed))
    for j in range(n_h):
        proto_h = directed[j] if j < len(directed) else Z.gen_hier(rng)
        _hier_stats(proto_h)
        for si, sched in enumerate(schedules(rng, len(proto_h.levels), tier)):
            yield from run_schedule(rng, proto_h, sched, f"hierarchy {j} schedule {si}")
        for si, sched in enumerate(twin_schedules(rng, len(proto_h.levels), tier)):
            yield from run_schedule(rng, proto_h, sched, f"hierarchy {j} twin schedule {si}")
        if len(REJECTED) > 3 and len(REJECTED) > 0.02 * STATS.get("schedules", 1):
            raise RuntimeError("too many generated class definitions are rejected, e.g.\n" + REJECTED[-1])
