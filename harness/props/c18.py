"""C18 — legacy parent-aware trees stay structurally consistent through any history.

Real `pyoak.legacy.node.AwareASTNode` histories vs. the Lean state machine `PyOak.Legacy.step`
(K1: full state dump after every operation) and, independently, the invariant of the property
evaluated on the real objects after every operation that returned (so that the branches the
theorems do not cover, and the transform visitor / transformer, are still explored)."""
from __future__ import annotations

import random
from run import Case

import legacy_machine as M

PROPERTY = "C18"
LEAN_MODULE = "PyOak.Props.C18Transform"      # imports PyOak.Props.C18
THEOREMS = ["PyOak.Legacy.C18." + t for t in [
    "inv_init", "inv_step_new", "inv_step_attach", "inv_step_detach", "inv_step_dup",
    "inv_step_replace", "inv_step_replace_partial", "inv_step_rwith_partial", "inv_step_rwith_parent_partial",
    "inv_step_partial", "inv_run_partial",
    "inv_run_init_partial", "inv_step_rwith", "inv_step", "inv_run", "inv_run_init", "parent_is_holder", "holder_is_parent", "ancestors_chain", "cid_eq_spec",
]] + ["PyOak.Legacy." + t for t in [
    "detachGo_facts", "inv_of_detachFacts", "detachGo_invX", "detachGo_inv", "commitOne_inv", "attachPlan_facts",
    "commit_prefix", "attach_invX", "attach_inv", "construct_invX", "construct_inv", "duplicate_ok",
    "clearParent_invX", "setContentId_invX", "resetContentId_inv", "kidsPos_swap", "swapped_invX",
    "swapped_cid_parent", "replaceChild_some_inv", "replace_inv_parent", "detachGo_desc", "upFree_of_desc",
    "not_desc_of_upFree", "posFrom_mem_iff", "shiftDown_mem", "replaceChild_none",
    "replaceWith_inv_parent_some",
    "detachGo_keeps", "detach_no_cycle", "rwith_open", "kidsPos_removed", "removed_invX", "replaceChild_none_inv",
    "replaceWith_inv_parent_none", "attach_roots", "commitOne_takeOver", "takeOver_attach_invX",
    "takeOver_parent_fails", "replaceWith_inv_root", "replaceWith_inv_parent_any", "replaceWith_inv",
    # transform visitor / transformer = runs of primitive operations (Props/LegacyTrace.lean)
    "primNode_tr", "primUnit_tr", "tKids_tr", "tFields_tr", "visitBody_tr", "visitGo_tr", "tvisit_tr",
    "ruleTransform_tr", "execLoop_tr", "texec_tr",
]] + ["PyOak.Legacy.C18T." + t for t in [
    "tvisit_is_run", "texec_is_run", "tvisit_ok_allOk", "texec_ok_allOk",
    "inv_tvisit_partial", "inv_texec_partial", "inv_stepX_partial", "inv_runX_partial",
    "texec_unchanged", "stepX_texec_unchanged", "visitGo_quiet", "tvisit_quiet_unchanged", "tvisit_clone_swap_partial",
]]
# AUDIT #10 (Props/C18Ranked.lean, C18Acyclic.lean, C18Queries.lean): acyclicity of admissible histories, the
# independently built tree of cid_eq_spec exists, upward queries = parent chain = downward structure
THEOREMS += ["PyOak.Legacy.C18." + t for t in [
    "not_desc_of_closed", "replaceChild_edges", "replaceWith_edges", "construct_ev", "ranked_of_ev", "ranked_add_edge",
    "replace_ranked", "duplicate_ev", "ranked_step", "ranked_init", "inv_ranked_run", "inv_ranked_run_init",
    "matches_exists", "cid_eq_tree", "cid_eq_tree_run", "notDescB_sound", "admB_sound", "admRun_of_B",
    "cyclic_reachable",
    "upChain_unique", "ancestorsGo_eq", "ancestorsGo_sound", "isAncestorGo_eq", "getDepthGo_none_eq",
    "getDepthGo_some_eq", "getDepth_eq", "chain_holds", "mem_chain_desc", "desc_mem_chain", "mem_chain_iff",
    "length_le_of_nodup_lt", "chain_exists", "ancestors_total", "cyclic_walk_hangs",
]]
PARTIAL = [
    "inv_step / inv_run / inv_run_init: ALL operations of the model (construct / attach / detach / detach_self / "
    "duplicate / replace / replace_with with any receiver and any argument: None, detached node, attached root) "
    "preserve the invariant whenever the call returned; no acyclicity hypothesis (on a heap with a cycle through the "
    "receiver the detach() inside replace_with does not return); side condition of construct / replace only: distinct "
    "child-field names, single fields hold at most one node",
    "transform visitor and ASTTransformer.execute (Model/LegacyTransform.lean, user callbacks = rule tables) are runs of "
    "primitive operations (tvisit_is_run / texec_is_run), none of them rejected when the transformation returns "
    "(tvisit_ok_allOk / texec_ok_allOk); inv_tvisit_partial / inv_texec_partial / inv_stepX_partial / inv_runX_partial: a "
    "transformation that returns preserves Inv under the side condition of its constituent construct / replace steps "
    "only (LOp.proved at the state of each step: distinct child-field names, single fields hold at most one node; "
    "decidable ProvedRun, not derived from the shape of the visitor)",
    "tvisit_clone_swap_partial: transform of an ATTACHED node with rules that match nothing replaces it by its clone (as "
    "coded: generic_visit returns the clone); the hypothesis that the clone's subtree is detached after duplicate is "
    "checked (decidable Quiet), not derived",
    "ancestors / is_ancestor / get_depth: heap-level definitions in Model/LegacyQueries.lean (a conservative extension of "
    "the model that the differential harness does NOT tie to the Python code; `parent`, which they walk, is tied by the K1 "
    "state dump) are proved equal to the unique parent chain (getDepth_eq, isAncestorGo_eq, ancestorsGo_eq/_sound), the "
    "chain is proved to be the downward structure (chain_holds, mem_chain_iff) and, on acyclic states, to exist with "
    "length < size so that the model's fuel suffices (chain_exists, ancestors_total); the calculated xpath of the HEAP is "
    "still compared with the structure by the oracle on the real objects only",
    "acyclicity: Inv does not exclude cycles (cyclic_reachable: with a colliding content digest an inadmissible "
    "replace_with returns and leaves an attached 2-cycle); Ranked (acyclic child graph) is preserved by every step, "
    "whatever its outcome, under the decidable side condition Admissible / admB on the request (ranked_step, "
    "inv_ranked_run), and then every node has an independently built equal tree (matches_exists, cid_eq_tree: "
    "cid_eq_spec is non-vacuous); admissibility of the generated histories is enforced by the generator, not proved",
]
RULE = ("seeded histories (25-45 generated operations + up to 3 operations built to be rejected) of construct "
        "(all child-field kinds, explicit / automatic ids, ensure_unique_id, create_as_duplicate, create_detached), "
        "attach, detach, detach_self, replace, replace_with(node | None), duplicate(clone | not), and in a second "
        "population the transform visitor and ASTTransformer (also compared with the model: stepX), over attached, detached and stale receivers and "
        "arguments; admissible = no cycle, no object twice in a built value; after EVERY executed operation the "
        "dump of every object ever seen is compared with the model and the invariant is evaluated on the real "
        "objects; a history is non-trivial when >= 8 operations returned, of >= 3 kinds, and an attached tree of "
        "depth >= 2 exists at the end; distinct by request line / history description")
TRUSTED = ["sha256 idealised: ids and content ids are compared as equality patterns (first-occurrence numbering); "
           "the driver instantiates both digests with injective renderings",
           "weak registry: everything the harness has seen stays alive; temporaries of a rejected call are dead when it "
           "returns (gc.collect in the harness, gcNew in Handle/Legacy.lean)"]
ASSUMPTIONS = ["histories never place one node object at two positions and never create a cycle (generator enforces it "
               "structurally; every real call runs under a 2 s CPU alarm)",
               "constructor arguments original_id / id_collision_with are left at None (documented: set automatically)",
               "user callbacks of visitors / transformers are the rule interpreters of legacy_machine.py"]
BUDGET = {"quick": 240, "thorough": 2400}


def cases(rng: random.Random, tier: str):
    n_prim, n_tr = (150, 60) if tier == "quick" else (3000, 1200)
    yield from dynamic_field_cases(rng, 10 if tier == "quick" else 150)
    yield from M.history_cases(rng, "C18", n_prim, n_tr, (25, 45), 3)


def extra_coverage():
    return {"traces_validated_against_impl": M.STATS.get("ops_compared_with_model", 0), "distribution_ops": dict(M.STATS)}


def dynamic_field_cases(rng, n):
    """classes whose child fields the library recognises only by the VALUES they hold (annotations `typing.Sequence[Node]`,
    `typing.Any`): construction, replace, replace_with, detach / attach and duplicate keep the tree consistent"""
    import warnings
    import zoo_c18 as Z
    from legacy_machine import ORIGINS
    O = ORIGINS[0]
    for _ in range(n):
        fail = None
        step = "construct"
        try:
            with warnings.catch_warnings():
                warnings.simplefilter("ignore")
                a, b, c, d = (Z.LLeaf(v=i, origin=O) for i in range(4))
                inner = Z.LSeq(body=(a, b), v=rng.randint(0, 3), origin=O)
                root = Z.LAnyKid(x=inner, v=rng.randint(0, 3), origin=O) if rng.random() < 0.5 else Z.LSeq(body=(inner,), v=9, origin=O)
                fail = Z.dyn_consistent(root)
                # (replace_with is left out: for a field the static scan does not know the library refuses it with a
                #  RuntimeError -- neither a successful operation nor a documented rejection)
                ops = rng.sample(["replace-body", "detach-attach", "duplicate", "replace-v"], 3)
                for step in ops:
                    if fail:
                        break
                    if step == "replace-body":
                        new_inner = inner.replace(body=(c, d) if rng.random() < 0.5 else (c,))
                        old_kids = list(inner.body)
                        inner = new_inner
                        if any(k.parent is not None for k in old_kids if k not in inner.body):
                            fail = "a child that is no longer stored anywhere still reports a parent"
                    elif step == "replace-v":
                        inner = inner.replace(v=inner.v + 1)
                    elif step == "rwith-child" and inner.body:
                        tgt = inner.body[0]
                        nw = Z.LLeaf(v=50 + rng.randint(0, 9), origin=O, create_detached=True)
                        tgt.replace_with(nw)
                    elif step == "rwith-none" and len(inner.body) > 1:
                        inner.body[0].replace_with(None)
                    elif step == "detach-attach":
                        root.detach()
                        root.attach()
                    elif step == "duplicate":
                        dup = root.duplicate()
                        fail = Z.dyn_consistent(dup)
                        dup.detach()
                    root = inner.parent if inner.parent is not None else root
                    while root.parent is not None:
                        root = root.parent
                    fail = fail or Z.dyn_consistent(root)
                root.detach()
        except Exception as e:  # noqa
            fail = fail or f"{step}: raised {type(e).__name__}: {e}"[:200]
        yield Case("directed:dynamic-child-fields", None, None, True, "LAnyKid / LSeq(body: typing.Sequence[LNode]) tree through " + step,
                   oracle_fail=(f"after {step}: {fail}" if fail else None), sig="inv|directed|dynamic-child-fields")
