"""C05 — traversals: real dfs/bfs/gather/get_child_nodes_with_field vs. the Lean model
(which Props/C05.lean proves equal to the pre/post/level-order specification)."""
from __future__ import annotations

import itertools
import random

from proto import A, dumps
from run import Case
import zoo
from kernels_tie import optional_traverse as optional_obligation  # noqa: F401  (dfs / bfs / gather regenerated from node.py: optional bridge)

PROPERTY = "C05"
LEAN_MODULE = "PyOak.Props.C05All"
THEOREMS = [
    "PyOak.C05.dfs_top_down",
    "PyOak.C05.dfs_bottom_up",
    "PyOak.C05.bfs_levels",
    "PyOak.C05.gather_eq",
    "PyOak.C05.dfs_yield_sound",
    "PyOak.C05.dfs_never_yields_start",
    "PyOak.C05.dfs_all_positions",
    "PyOak.C05.postItems_length",
]
THEOREMS += ["PyOak.C05X." + t for t in [
    "dfs_bottom_up_yield_sound", "bfs_yield_sound", "dfs_bottom_up_never_yields_start", "bfs_never_yields_start",
    "post_perm_pre", "bfs_perm_pre", "pre_filter", "post_filter", "bfs_filter", "dfsImpl_filter", "bfsImpl_filter",
    "preN_pruned", "postN_pruned", "mem_dfsImpl_iff", "mem_bfsImpl_iff", "pre_sublist_noprune",
    "pruned_descendants_not_visited_impl", "dfsImpl_keys_nodup", "bfsImpl_keys_nodup", "all_orders_length"]]
# q6: paths / depth / lookup forms (Spec/Traverse.lean, Props/C05Trails|Depth|Paths|Lookup.lean)
THEOREMS += ["PyOak.C05T." + t for t in [
    "trails_end", "trails_prune", "mem_trails_noprune", "mem_trails_iff", "dfs_eq_trails", "dfs_noprune_eq_trails",
    "gather_spec", "gather_noprune", "gather_eq_trails", "mem_dfsImpl_iff_trail", "mem_bfsImpl_iff_trail",
    "yielded_has_unpruned_trail", "level_iff_trail"]]
THEOREMS += ["PyOak.C05D." + t for t in [
    "trail_iff_chain", "level_iff_depth", "bfs_level_sorted", "bfs_depth_sorted_chain", "bfs_depth_sorted",
    "bfs_concat_depth"]]
THEOREMS += ["PyOak.C05P." + t for t in [
    "mem_paths_iff", "trail_inj", "paths_sorted", "pathLt_irrefl", "paths_nodup", "paths_length",
    "dfs_enumerates_paths", "dfs_pruned_paths"]]
THEOREMS += ["PyOak.C05P." + t for t in [
    "trailsPost_perm", "trailsPost_end", "dfs_bottom_up_eq_trails", "mem_trailsPost_iff", "postPaths_sorted",
    "pathLtPost_irrefl", "dfs_bottom_up_enumerates_paths",
    "levelTrails_end", "mem_levelTrails_iff", "mem_bfsTrails_iff", "bfs_eq_trails", "levelPaths_sorted",
    "bfsPaths_sorted", "shortLex_irrefl", "bfs_enumerates_paths", "bfs_pruned_paths"]]
THEOREMS += ["PyOak.C05L." + t for t in [
    "mem_edges_iff_stored", "dfs_yield_lookup", "bfs_yield_lookup", "gather_yield_lookup", "yield_lookup_wfn",
    "stored_getField", "kidsOK_iff", "wellKeyed_of_fieldsOK", "wellKeyed_of_wfn", "dfs_enumerates_paths_wfn",
    "path_iff_trail"]]
RULE = ("seeded zoo trees (single/optional/union/variadic/fixed-tuple child fields, inherited fields, shared "
        "objects, falsy children, tuples of length 11-14) x prune/filter predicates given as subsets of positions; "
        "thorough additionally enumerates all prune x filter subsets for trees with <= 4 positions; "
        "a case is non-trivial when the tree has >= 3 nodes; distinct by request line")
TRUSTED = ["predicates are modelled as pure functions of (node, parent, field, index)"]
ASSUMPTIONS = ["prune/filter callbacks are pure and total"]
BUDGET = {"quick": 200, "thorough": 1800}


def _key(toks, info):
    return (toks.tok(info.node), toks.tok(info.parent), info.field.name, info.findex)


def _items(toks, infos):
    return dumps([A("ok")] + [[a, b, c, d] for (a, b, c, d) in (_key(toks, i) for i in infos)])


def _guard(fn):
    try:
        return fn()
    except Exception as e:  # noqa
        return dumps([A("raise"), A(type(e).__name__)])


def _tree_cases(rng, root, all_subsets: bool):
    toks = zoo.Tokens()
    orgs = zoo.OrgTable()
    tree = zoo.enc_tree(root, toks, orgs)
    env = [zoo.class_table(), orgs.sexp(), [A("tree"), tree]]
    pos = [(toks.tok(c), toks.tok(p), f, i) for (c, p, f, i) in zoo.positions(root)]
    upos = sorted(set(pos), key=lambda k: (k[0], k[1], k[2], -1 if k[3] is None else k[3]))
    nontriv = len(pos) >= 2
    desc = zoo.show(root)

    def subsets():
        if all_subsets and len(upos) <= 4:
            for r in range(len(upos) + 1):
                for s in itertools.combinations(upos, r):
                    for r2 in range(len(upos) + 1):
                        for s2 in itertools.combinations(upos, r2):
                            yield set(s), set(s2)
        else:
            yield set(), None
            for _ in range(3):
                p = rng.choice([0.0, 0.15, 0.4])
                q = rng.choice([1.0, 0.7, 0.3])
                yield {k for k in upos if rng.random() < p}, {k for k in upos if rng.random() < q}

    for prune, filt in subsets():
        pf = lambda info: _key(toks, info) in prune  # noqa
        ff = None if filt is None else (lambda info: _key(toks, info) in filt)
        positional = rng.random() < 0.4
        if rng.random() < 0.35:
            # callbacks given as callable OBJECTS that happen to be falsy (an empty callable container): they
            # are callbacks all the same ("None" alone means: no callback)
            pf = _FalsyCallable(pf)
            ff = None if ff is None else _FalsyCallable(ff)
        extra = [[A("prune")] + [list(k) for k in sorted(prune, key=str)]]
        if filt is not None:
            extra.append([A("filter")] + [list(k) for k in sorted(filt, key=str)])
        d2 = f"{desc} prune={sorted(prune, key=str)} filter={None if filt is None else sorted(filt, key=str)}"
        for bu in (False, True):
            if positional:
                # the documented parameter order (prune, filter, bottom_up), arguments given by position
                real = _guard(lambda: _items(toks, root.dfs(pf if prune else None, ff, bu)))
            else:
                real = _guard(lambda: _items(toks, root.dfs(prune=pf if prune else None, filter=ff, bottom_up=bu)))
            yield Case("dfs_bu" if bu else "dfs", dumps([A("dfs")] + env + extra + [[A("bottom_up"), bu]]), real,
                       nontriv, d2, sig=f"dfs|bottom_up={bu}")
            # in-process oracle: position soundness on the real objects
            try:
                for info in root.dfs(prune=pf, filter=ff, bottom_up=bu):
                    v = getattr(info.parent, info.field.name)
                    if (v[info.findex] if info.findex is not None else v) is not info.node:
                        yield Case("dfs_sound", None, None, nontriv, d2,
                                   oracle_fail=f"yielded position {_key(toks, info)} does not hold that node",
                                   sig="dfs|position-unsound")
                        break
            except Exception:
                pass
        real = _guard(lambda: _items(toks, root.bfs(pf if prune else None, ff) if positional else root.bfs(prune=pf if prune else None, filter=ff)))
        yield Case("bfs", dumps([A("bfs")] + env + extra), real, nontriv, d2, sig="bfs")
        # gather
        classes = rng.sample(zoo.ALL_CLASSES, rng.randint(1, 3))
        exact = rng.random() < 0.4
        single = len(classes) == 1 and rng.random() < 0.5
        real = _guard(lambda: dumps([A("ok")] + [toks.tok(n) for n in root.gather(
            classes[0] if single else tuple(classes), exact_type=exact, extra_filter=ff,
            prune=pf if prune else None)]))
        yield Case("gather", dumps([A("gather")] + env + extra + [[A("gclasses")] + [c.__name__ for c in classes],
                                                                 [A("exact"), exact]]),
                   real, nontriv, d2 + f" classes={[c.__name__ for c in classes]} exact={exact}", sig="gather")
    # child enumeration of the root, both orders
    for s in (False, True):
        real = _guard(lambda: dumps([A("ok")] + [[toks.tok(c), f.name, i] for c, f, i in
                                                 root.get_child_nodes_with_field(sort_keys=s)]))
        yield Case("edges_sorted" if s else "edges", dumps([A("edges")] + env + [[A("sorted"), s]]), real, nontriv,
                   desc + f" sort_keys={s}", sig=f"edges|sorted={s}")


def deep_chain_cases(rng):
    """a tree nested deeper than the interpreter's recursion limit (built bottom-up, no recursion): the traversals are
    documented as generators over an explicit work list and must still enumerate every position"""
    import sys
    depth = sys.getrecursionlimit() * 2 + rng.randint(0, 200)
    n = zoo.Leaf(v=1)
    chain = [n]
    for i in range(depth):
        n = zoo.Un(n) if i % 3 else zoo.Opt(n)
        chain.append(n)
    root = chain[-1]
    want = list(reversed(chain[:-1]))           # pre-order below the root = the chain downwards
    fail = None
    try:
        got = [i.node for i in root.dfs()]
        if len(got) != len(want) or any(a is not b for a, b in zip(got, want)):
            fail = "dfs() does not enumerate the chain downwards"
        got = [i.node for i in root.dfs(bottom_up=True)]
        if fail is None and (len(got) != len(want) or any(a is not b for a, b in zip(got, reversed(want)))):
            fail = "dfs(bottom_up=True) does not enumerate the chain upwards"
        got = [i.node for i in root.bfs()]
        if fail is None and (len(got) != len(want) or any(a is not b for a, b in zip(got, want))):
            fail = "bfs() does not enumerate the chain level by level"
        cut = want[depth // 2]
        got = [i.node for i in root.dfs(prune=lambda i: i.node is cut, filter=lambda i: isinstance(i.node, zoo.Opt) or i.node is cut)]
        exp = [x for x in want[:depth // 2 + 1] if isinstance(x, zoo.Opt) or x is cut]
        if fail is None and (len(got) != len(exp) or any(a is not b for a, b in zip(got, exp))):
            fail = "dfs(prune, filter) wrong on the deep chain"
        got = list(root.gather(zoo.Leaf))
        if fail is None and not (len(got) == 1 and got[0] is chain[0]):
            fail = "gather(Leaf) wrong on the deep chain"
        for info in list(root.dfs())[:50]:
            if getattr(info.parent, info.field.name) is not info.node or info.findex is not None:
                fail = fail or "position info wrong on the deep chain"
    except RecursionError:
        fail = "traversal raised RecursionError on a tree deeper than the recursion limit"
    except Exception as e:  # noqa
        fail = f"traversal raised {type(e).__name__} on a deep chain"
    yield Case("deep-chain", None, None, True, f"chain of {depth} nested single-child nodes", oracle_fail=fail,
               sig="dfs|deep-chain")
    del chain, want, root, n


class _FalsyCallable:
    def __init__(self, fn):
        self.fn = fn

    def __call__(self, info):
        return self.fn(info)

    def __len__(self):
        return 0


import dataclasses as _dc


class _HasBody:
    """a plain (non-dataclass) mixin that only ANNOTATES a field the node class declares itself"""
    body: "zoo.Expr"
    orelse: "zoo.Expr | None"


@_dc.dataclass(frozen=True)
class C05If(zoo.Expr, _HasBody):
    cond: zoo.Expr | None = None
    body: zoo.Expr | None = None
    extra: tuple[zoo.Expr, ...] = ()
    orelse: zoo.Expr | None = None


def mixin_order_cases(rng):
    """"child fields in declaration order": the order in which the node class declares them, also when an annotation-only
    mixin names some of them (in another order)"""
    mk = lambda i: zoo.Leaf(v=i)  # noqa
    n = C05If(cond=zoo.Un(mk(1)), body=mk(2), extra=(mk(3), zoo.Un(mk(4))), orelse=mk(5))
    root = zoo.Tup((n, mk(6)))
    val = lambda x: x.v if isinstance(x, zoo.Leaf) else type(x).__name__  # noqa
    want_pre = ["C05If", "Un", 1, 2, 3, "Un", 4, 5, 6]
    want_post = [1, "Un", 2, 3, 4, "Un", 5, "C05If", 6]
    want_bfs = ["C05If", 6, "Un", 2, 3, "Un", 5, 1, 4]
    got = {"dfs": [val(i.node) for i in root.dfs()], "dfs(bottom_up)": [val(i.node) for i in root.dfs(bottom_up=True)],
           "bfs": [val(i.node) for i in root.bfs()],
           "fields": [(i.field.name, i.findex) for i in n.dfs() if i.parent is n]}
    want = {"dfs": want_pre, "dfs(bottom_up)": want_post, "bfs": want_bfs,
            "fields": [("cond", None), ("body", None), ("extra", 0), ("extra", 1), ("orelse", None)]}
    fail = None
    for k in want:
        if got[k] != want[k]:
            fail = f"{k}: {got[k]}, expected {want[k]} (declaration order cond, body, extra, orelse)"
            break
    yield Case("directed:mixin-order", None, None, True, "class C05If(Expr, _HasBody) with an annotation-only mixin naming body / orelse",
               oracle_fail=fail, sig="dfs|directed|mixin-order")


@_dc.dataclass(frozen=True)
class C05Triple(zoo.Expr):
    """child fields named like the identifiers a generated accessor body may use for its loop variables / parameters,
    declared AFTER a tuple-valued child field"""
    anns: tuple[zoo.Expr, ...] = ()
    s: zoo.Expr | None = None
    o: zoo.Expr | None = None
    i: zoo.Expr | None = None
    more: tuple[zoo.Expr, ...] = ()
    sort_keys: zoo.Expr | None = None
    f: zoo.Expr | None = None


zoo.CHILD_FIELDS[C05Triple] = [("anns", True), ("s", False), ("o", False), ("i", False), ("more", True), ("sort_keys", False), ("f", False)]


def _post(n):
    for name, coll, ns in zoo.kid_lists(n):
        for i, c in enumerate(ns):
            yield from _post(c)
            yield (c, n, name, i if coll else None)


def _levels(n):
    level = [(c, p, f, i) for (c, p, f, i) in ((c, n, name, (i if coll else None)) for name, coll, ns in zoo.kid_lists(n) for i, c in enumerate(ns))]
    while level:
        yield from level
        level = [(c, p, name, (i if coll else None)) for (p, _pp, _f, _i) in level for name, coll, ns in zoo.kid_lists(p) for i, c in enumerate(ns)]


def loop_variable_names_cases(rng):
    """traversals of a class whose child fields are called `o`, `i`, `sort_keys`, `f`: every yielded (node, parent, field,
    index) is the position the harness' own recursion over the dataclass fields finds, in pre- / post- / level order"""
    mk = lambda v: zoo.Leaf(v=v)  # noqa
    for variant in range(6):
        anns = tuple(mk(10 + k) for k in range(variant % 3))
        more = tuple(zoo.Un(mk(20 + k)) for k in range((variant + 1) % 3))
        t = C05Triple(anns=anns, s=mk(1), o=None if variant == 4 else zoo.Un(mk(2)), i=None if variant == 5 else mk(3), more=more,
                      sort_keys=mk(4) if variant % 2 else None, f=mk(5))
        root = zoo.Tup((t, C05Triple(anns=(mk(7),), o=mk(8)), mk(6)))
        key = lambda tup: (id(tup[0]), id(tup[1]), tup[2], tup[3])  # noqa
        real = lambda it: [(id(x.node), id(x.parent), x.field.name, x.findex) for x in it]  # noqa
        fail = None
        for what, got, want in (("dfs", real(root.dfs()), [key(p) for p in zoo.positions(root)]),
                                ("dfs(bottom_up)", real(root.dfs(bottom_up=True)), [key(p) for p in _post(root)]),
                                ("bfs", real(root.bfs()), [key(p) for p in _levels(root)]),
                                ("get_child_nodes_with_field", [(id(c), id(t), fl.name, ix) for c, fl, ix in t.get_child_nodes_with_field()],
                                 [key(p) for p in zoo.positions(t) if p[1] is t]),
                                ("get_child_nodes", [id(c) for c in t.get_child_nodes()], [id(p[0]) for p in zoo.positions(t) if p[1] is t])):
            if got != want:
                fail = f"{what} yields {len(got)} positions that differ from the {len(want)} stored ones (first difference at #{next((k for k, (a, b) in enumerate(zip(got, want)) if a != b), min(len(got), len(want)))})"
                break
        yield Case("directed:loop-variable-names", None, None, True, f"C05Triple(anns={len(anns)}, s, o, i, more={len(more)}, sort_keys, f) variant {variant}",
                   oracle_fail=fail, sig="dfs|directed|loop-variable-names")


def consumer_process_cases(rng):
    """trees are built and pickled here; a FRESH process that never constructs nodes of these classes unpickles and
    traverses them (the first use of each class's generated accessors comes from a traversal, not from a constructor), with
    each kind of traversal coming first once"""
    import json
    import os
    import pickle
    import subprocess
    import sys
    import zoo_c05w as W
    from run import VERIF, REPO
    nm = lambda s: W.W05Name(s)  # noqa
    trees = []
    for k in range(4):
        calls = tuple(W.W05Call(nm(f"f{k}{j}"), tuple(nm(f"a{k}{j}{m}") for m in range(rng.randint(2, 4))), nm("rest") if j % 2 == 0 else None)
                      for j in range(rng.randint(2, 3)))
        trees.append(W.W05Block(calls, last=W.W05Call(nm("g"), (calls[0], nm("y")))))
    work = VERIF / ".work"
    work.mkdir(exist_ok=True)
    f = work / f"c05-trees-{os.getpid()}.pkl"
    try:
        f.write_bytes(pickle.dumps(trees))
        for first in ("dfs", "post", "bfs", "gather"):
            env = dict(os.environ, PYTHONPATH=f"{VERIF / 'harness'}:{REPO / 'src'}")
            p = subprocess.run([sys.executable, str(VERIF / "harness" / "c05_worker.py"), str(f), first], env=env,
                               capture_output=True, text=True, timeout=120)
            if p.returncode != 0:
                fail = "consumer process failed: " + p.stderr[-300:]
            else:
                fails = json.loads(p.stdout.strip().splitlines()[-1])
                fail = fails[0] if fails else None
            yield Case("directed:consumer-process", None, None, True, f"4 pickled Block/Call/Name trees traversed in a fresh process, {first} first",
                       oracle_fail=fail, sig="dfs|directed|consumer-process")
    finally:
        f.unlink(missing_ok=True)


def cases(rng: random.Random, tier: str):
    yield from mixin_order_cases(rng)
    yield from consumer_process_cases(rng)
    yield from loop_variable_names_cases(rng)
    yield from deep_chain_cases(rng)
    n_trees = 250 if tier == "quick" else 6000
    for k in range(n_trees):
        g = zoo.Gen(rng, origins=False)
        budget = rng.choice([2, 3, 5, 8, 12, 20, 40]) if tier == "quick" else rng.choice([2, 3, 5, 8, 12, 20, 40, 120, 400])
        root = g.tree(budget)
        with zoo.config_variation(rng):
            yield from _tree_cases(rng, root, False)
    if tier == "thorough":
        # exhaustive predicates on small trees
        cnt = 0
        while cnt < 400:
            g = zoo.Gen(rng, origins=False, long_tuples=False)
            root = g.tree(rng.choice([3, 4, 5]))
            if 1 <= sum(1 for _ in zoo.positions(root)) <= 4:
                cnt += 1
                yield from _tree_cases(rng, root, True)
