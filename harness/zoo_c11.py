"""C11 — generated class definitions.

A *type term* (`Ty`) of the annotation grammar is a nested tuple

    ("atom", name)            name in ATOMS (int str bool float bytes Any Literal Enum)
    ("none",)                 None / NoneType (only at top level or as a union member)
    ("node", i)               a node class that exists when the annotated class is defined (i in 0..2)
    ("fwd", i)                a node class that is defined only *after* the annotated class (i in 0..1)
    ("nt", t)                 NewType("NTk", t)
    ("union", [t...])         Union / Optional / `|` (members: >= 2, distinct, no union, at most one none)
    ("vtuple", t)             tuple[t, ...]
    ("coll", kind, [t...])    kind in KINDS; tuple[()] / bare collections have no arguments

`render` turns a term into Python source in one of several spellings, `define_chain` execs a chain
of 1-3 frozen dataclasses deriving from pyoak's ASTNode in a fresh module, `observe` instantiates
them and reads get_child_fields / get_property_fields.  `spec_*` is a plain Python transcription of
the specification used ONLY to pick constructor arguments and to label the distribution; the
verdict that is compared comes from the Lean model.
"""
from __future__ import annotations

import __future__
import builtins
import itertools
import sys
import types

from proto import A

ATOMS = ["int", "str", "bool", "float", "bytes", "Any", "Literal", "Enum"]
KINDS = ["tuple", "frozenset", "sequence", "mapping", "list", "dict", "set"]
MUTABLE = {"list", "dict", "set"}
ARITY = {"tuple": None, "frozenset": 1, "sequence": 1, "mapping": 2, "list": 1, "dict": 2, "set": 1}
_counter = itertools.count()


# ---------------------------------------------------------------- plain-Python transcription of the spec
def strip(t):
    while t[0] == "nt":
        t = t[1]
    return t


def subterms(t):
    yield t
    if t[0] == "nt" or t[0] == "vtuple":
        yield from subterms(t[1])
    elif t[0] == "union":
        for m in t[1]:
            yield from subterms(m)
    elif t[0] == "coll":
        for m in t[2]:
            yield from subterms(m)


def mentions_node(t):
    return any(s[0] in ("node", "fwd") for s in subterms(t))


def mentions_fwd(t):
    return any(s[0] == "fwd" for s in subterms(t))


def mentions_mutable(t):
    return any(s[0] == "coll" and s[1] in MUTABLE for s in subterms(t))


def node_like(t):
    return strip(t)[0] in ("node", "fwd")


def elem_shape(t):
    s = strip(t)
    return node_like(s) or (s[0] == "union" and len(s[1]) > 0 and all(node_like(m) for m in s[1]))


def child_shape(t):
    s = strip(t)
    if node_like(s):
        return True
    if s[0] == "union":
        return all(m[0] == "none" or node_like(m) for m in s[1]) and any(node_like(m) for m in s[1])
    if s[0] == "vtuple":
        return elem_shape(s[1])
    if s[0] == "coll" and s[1] == "tuple":
        return len(s[2]) > 0 and all(elem_shape(m) for m in s[2])
    return False


def spec_verdict(t):
    if child_shape(t):
        return "child"
    if not mentions_node(t) and not mentions_mutable(t):
        return "prop"
    return "reject"


def depth(t):
    if t[0] in ("nt", "vtuple"):
        return 1 + depth(t[1])
    if t[0] == "union":
        return 1 + max(depth(m) for m in t[1])
    if t[0] == "coll":
        return 1 + max([depth(m) for m in t[2]] + [0])
    return 0


# ---------------------------------------------------------------- protocol encoding
def sx(t):
    k = t[0]
    if k == "atom":
        return [A("atom"), A(t[1])]
    if k == "none":
        return A("none")
    if k in ("node", "fwd"):
        return [A(k), t[1]]
    if k in ("nt", "vtuple"):
        return [A(k), sx(t[1])]
    if k == "union":
        return [A("union")] + [sx(m) for m in t[1]]
    if k == "coll":
        return [A("coll"), A(t[1])] + [sx(m) for m in t[2]]
    raise ValueError(t)


def show(t):
    k = t[0]
    if k == "atom":
        return t[1]
    if k == "none":
        return "None"
    if k == "node":
        return "N%d" % t[1]
    if k == "fwd":
        return "Fwd%d" % t[1]
    if k == "nt":
        return "NewType(%s)" % show(t[1])
    if k == "union":
        return "Union[%s]" % ", ".join(show(m) for m in t[1])
    if k == "vtuple":
        return "tuple[%s, ...]" % show(t[1])
    return "%s[%s]" % (t[1], ", ".join(show(m) for m in t[2]))


# ---------------------------------------------------------------- generation
def norm_union(members):
    """what typing does to Union arguments: flatten, drop duplicates; one member left => that member"""
    flat = []
    for m in members:
        for x in (m[1] if m[0] == "union" else [m]):
            if x not in flat:
                flat.append(x)
    return flat[0] if len(flat) == 1 else ("union", flat)


def permute_unions(t, rng, mode=None):
    """the same annotation with the members of every union in another order
    (mode: 'none_first' | 'none_last' | 'reversed' | 'shuffle'; None = random choice per union)"""
    k = t[0]
    if k in ("nt", "vtuple"):
        return (k, permute_unions(t[1], rng, mode))
    if k == "coll":
        return (k, t[1], [permute_unions(m, rng, mode) for m in t[2]])
    if k != "union":
        return t
    ms = [permute_unions(m, rng, mode) for m in t[1]]
    how = mode or rng.choice(["none_first", "none_last", "reversed", "shuffle", "shuffle"])
    if how == "reversed":
        ms.reverse()
    elif how == "shuffle":
        rng.shuffle(ms)
    else:
        rest = [m for m in ms if m[0] != "none"]
        nones = [m for m in ms if m[0] == "none"]
        ms = nones + rest if how == "none_first" else rest + nones
    return ("union", ms)


def clear_predicate_caches():
    """drop the lru_caches of pyoak.typing (pure memoisation): unions of *non-node* types (`None | list[int]`) cannot be
    made fresh per case, so the harness clears the memo tables before a random half of the cases"""
    import pyoak.typing as pt
    for v in vars(pt).values():
        cc = getattr(v, "cache_clear", None)
        if callable(cc):
            cc()


def ok_as_arg(t):
    """None is kept out of container arguments (mashumaro refuses `tuple[None, int]` before pyoak sees it)"""
    return t[0] != "none"


def ok_newtype_base(t):
    """NewType bases: anything that is (after other NewTypes) not a Union and not None (PEP 484: a class),
    and no forward reference (a NewType's base is evaluated eagerly, it cannot be a later class)"""
    return strip(t)[0] not in ("union", "none") and not mentions_fwd(t)


PASS_THROUGH = {"int", "str", "bool", "float", "Any"}


def third_party_ok(t):
    """mashumaro (DataClassSerializeMixin.__init_subclass__) raises TypeError for a Union that has a NewType of a
    pass-through scalar next to another non-None member; such annotations never reach a usable class"""
    for s in subterms(t):
        if s[0] == "union" and sum(1 for m in s[1] if m[0] != "none") >= 2:
            for m in s[1]:
                if m[0] == "nt" and strip(m)[0] == "atom" and strip(m)[1] in PASS_THROUGH:
                    return False
    return True


def ok_key(t):
    return t in (("atom", "str"), ("atom", "int"))


def leaves(n_fwd=2):
    out = [("atom", a) for a in ATOMS] + [("node", i) for i in range(3)] + [("fwd", i) for i in range(n_fwd)]
    return out


def random_ty(rng, d, bias="mixed"):
    """a random term of depth <= d.  bias: 'node' prefers node-ish leaves, 'prop' avoids nodes, 'mixed'"""
    def leaf():
        r = rng.random()
        if bias == "node" or (bias == "mixed" and r < 0.5):
            return rng.choice([("node", 0), ("node", 1), ("node", 2), ("fwd", 0), ("fwd", 1), ("node", 0), ("node", 1)])
        if bias == "mixed" and r < 0.55:
            return ("none",)
        return ("atom", rng.choice(ATOMS))

    def go(d, pos):
        # pos: 'top' | 'arg' | 'member' | 'base'
        if d == 0 or rng.random() < 0.18:
            for _ in range(20):
                t = leaf()
                if t[0] == "none" and pos in ("arg", "base"):
                    continue
                if t[0] == "fwd" and pos == "base":
                    continue
                return t
            return ("atom", "int")
        c = rng.choice(["nt", "union", "union", "union", "vtuple", "vtuple", "tuple", "tuple", "coll", "coll"])
        if c == "nt":
            for _ in range(10):
                b = go(d - 1, "base")
                if ok_newtype_base(b):
                    # a NewType derived from another NewType (unwrap_newtype loops) in a third of the cases
                    return ("nt", ("nt", b)) if rng.random() < 0.33 else ("nt", b)
            return ("nt", ("node", 0))
        if c == "union":
            if pos == "member":
                return go(0, pos)
            ms = [go(d - 1, "member") for _ in range(rng.choice([2, 2, 3]))]
            if rng.random() < 0.45:
                ms.insert(rng.randrange(len(ms) + 1), ("none",))
            u = norm_union(ms)
            if u[0] == "none" and pos in ("arg", "base"):
                return ("atom", "int")
            if pos == "base" and u[0] == "union":
                return go(0, pos)
            return u
        if c == "vtuple":
            return ("vtuple", go(d - 1, "arg"))
        if c == "tuple":
            n = rng.choice([0, 1, 2, 2, 3])
            return ("coll", "tuple", [go(d - 1, "arg") for _ in range(n)])
        k = rng.choice(KINDS[1:])
        if rng.random() < 0.12:
            return ("coll", k, [])
        if ARITY[k] == 2:
            return ("coll", k, [rng.choice([("atom", "str"), ("atom", "int")]), go(d - 1, "arg")])
        return ("coll", k, [go(d - 1, "arg")])

    for _ in range(50):
        t = go(d, "top")
        if third_party_ok(t):
            return t
    return ("atom", "int")


def all_terms(atoms, d):
    """every term of depth <= d over the given leaves (unions of 2 members (+ None), tuples of <= 2,
    one-argument containers, Mapping/dict with a str key)"""
    level = list(atoms)
    seen = list(level)
    for _ in range(d):
        args = [t for t in seen if ok_as_arg(t)]
        new = []
        for t in seen:
            if ok_newtype_base(t):
                new.append(("nt", t))
        mem = [t for t in seen if t[0] != "union"]
        for i, a in enumerate(mem):
            for b in mem[i + 1:]:
                if a[0] == "none" or b[0] == "none":
                    new.append(norm_union([a, b]))
                    new.append(norm_union([b, a]))
                else:
                    new.append(("union", [a, b]))
                    new.append(("union", [a, b, ("none",)]))
                    new.append(("union", [("none",), b, a]))
                    new.append(("union", [b, ("none",), a]))
        for a in args:
            new.append(("vtuple", a))
            new.append(("coll", "tuple", [a]))
            for k in KINDS[1:]:
                if ARITY[k] == 1:
                    new.append(("coll", k, [a]))
                else:
                    new.append(("coll", k, [("atom", "str"), a]))
        for a in args:
            for b in args:
                new.append(("coll", "tuple", [a, b]))
        new.append(("coll", "tuple", []))
        for k in KINDS[1:]:
            new.append(("coll", k, []))
        for t in new:
            if t not in seen:
                seen.append(t)
    return [t for t in seen if third_party_ok(t)]


# ---------------------------------------------------------------- rendering
class Spelling:
    def __init__(self, postponed, pipe, typing_generics, quote_whole):
        self.postponed = postponed            # from __future__ import annotations
        self.pipe = pipe                      # X | None  instead of Optional[X] / Union[...]
        self.typing_generics = typing_generics  # Tuple[...] / FrozenSet[...] / typing.Sequence instead of builtins / abc
        self.quote_whole = quote_whole        # plain mode: quote the whole annotation when it has a forward ref

    def tag(self):
        return ("post" if self.postponed else "plain") + ("-pipe" if self.pipe else "-typing") + \
            ("-T" if self.typing_generics else "-b") + ("-qw" if self.quote_whole else "-qp")


GEN_NAMES = {
    False: {"tuple": "tuple", "frozenset": "frozenset", "sequence": "ASeq", "mapping": "AMap",
            "list": "list", "dict": "dict", "set": "set"},
    True: {"tuple": "Tuple", "frozenset": "FrozenSet", "sequence": "Sequence", "mapping": "Mapping",
           "list": "List", "dict": "Dict", "set": "Set"},
}


class Renderer:
    """renders terms of one generated module; NewTypes become module-level definitions"""

    def __init__(self, uid, sp: Spelling):
        self.uid = uid
        self.sp = sp
        self.newtypes: list[str] = []
        self.nt_count = 0

    def expr(self, t, quoted_ctx):
        """quoted_ctx: the expression ends up inside a string (or postponed module): bare names for fwd refs.
        Every fifth rendered sub-term (by a per-class counter) is wrapped in `typing.Annotated[..., "meta"]`, which is
        transparent for the classification (metadata does not change what a field is)"""
        e = self._expr(t, quoted_ctx)
        self.ann_count = getattr(self, "ann_count", self.uid) + 1
        # (not inside the base of a NewType: that expression is evaluated eagerly and is not an annotation, so nothing
        #  strips the metadata there -- outside the annotation grammar of the property)
        if self.ann_count % 5 == 0 and not getattr(self, "in_nt_base", 0) and t[0] not in ("none", "fwd") \
                and not (e.startswith('"') or e.endswith('"')):
            return f'Annotated[{e}, "meta"]'
        return e

    def _expr(self, t, quoted_ctx):
        k = t[0]
        if k == "atom":
            return {"Literal": 'Literal["a", 1]', "Enum": "Color"}.get(t[1], t[1])
        if k == "none":
            return "None"
        if k == "node":
            return f"N{t[1]}"
        if k == "fwd":
            name = f"Later{t[1]}"
            return name if quoted_ctx else f'"{name}"'
        if k == "nt":
            # the base is evaluated eagerly at module level, never quoted (generation keeps fwd refs out of it)
            self.in_nt_base = getattr(self, "in_nt_base", 0) + 1
            try:
                base = Renderer.expr(self, t[1], True)
            finally:
                self.in_nt_base -= 1
            name = f"NT{self.nt_count}_{self.uid}"
            self.nt_count += 1
            self.newtypes.append(f'{name} = NewType("{name}", {base})')
            return name
        if k == "union":
            # members in the order of the term (None first / in the middle / last)
            allm = [self.expr(m, quoted_ctx) for m in t[1]]
            ms = [e for e, m in zip(allm, t[1]) if m[0] != "none"]
            has_none = any(m[0] == "none" for m in t[1])
            none_last = t[1][-1][0] == "none"
            use_pipe = self.sp.pipe and (quoted_ctx or not any(m[0] == "fwd" for m in t[1]))
            if use_pipe:
                return " | ".join(allm)
            if has_none and none_last and len(ms) == 1:
                return f"Optional[{ms[0]}]"
            if has_none and none_last and self.uid % 2:
                return f"Optional[Union[{', '.join(ms)}]]"
            return f"Union[{', '.join(allm)}]"
        g = GEN_NAMES[self.sp.typing_generics]
        if k == "vtuple":
            return f"{g['tuple']}[{self.expr(t[1], quoted_ctx)}, ...]"
        if k == "coll":
            name = g[t[1]]
            if not t[2]:
                if t[1] == "tuple":
                    return f"{name}[()]" if self.uid % 3 else name
                if t[1] == "list" and self.uid % 2:
                    # another bare mutable sequence class (collections.abc.MutableSequence like list): same verdicts
                    return "bytearray"
                return name
            return f"{name}[{', '.join(self.expr(m, quoted_ctx) for m in t[2])}]"
        raise ValueError(t)

    def annotation(self, t):
        if self.sp.postponed:
            return self.expr(t, True)
        if mentions_fwd(t):
            whole = self.sp.quote_whole or t[0] == "fwd" or self._needs_whole(t)
            if whole:
                return '"' + self.expr(t, True).replace('"', "'") + '"'
            return self.expr(t, False)
        return self.expr(t, False)

    def _needs_whole(self, t):
        # `"Later" | None` is a TypeError in Python itself: with the pipe spelling a union with a
        # forward reference can only be written inside a fully quoted annotation
        if not self.sp.pipe:
            return False
        return any(s[0] == "union" and any(m[0] == "fwd" for m in s[1]) for s in subterms(t))


SHARED_SRC = """
from enum import Enum

class C11Color(Enum):
    RED = 1
    BLUE = 2
"""

PRELUDE = """
from dataclasses import dataclass
from enum import Enum
from typing import (Annotated, Any, Dict, FrozenSet, List, Literal, Mapping, NewType, Optional, Sequence, Set, Tuple, Union)
from collections.abc import Sequence as ASeq, Mapping as AMap
from pyoak.node import ASTNode
from c11_shared import C11Color as Color
"""

# Node classes are FRESH for every generated module: pyoak's predicates are lru_cached and typing objects that
# differ only in the order of union members compare (and hash) equal, so with shared node classes the verdict of
# `Union[None, N0]` would be whatever an earlier `Union[N0, None]` got.  Only the classes a chain mentions are made.
NODE_SRC = {
    0: "@dataclass(frozen=True)\nclass C11N0_{u}(ASTNode):\n    v: int = 0\nN0 = C11N0_{u}\n",
    1: "@dataclass(frozen=True)\nclass C11N1_{u}(N0):\n    w: str = ''\nN1 = C11N1_{u}\n",
    2: "@dataclass(frozen=True)\nclass C11N2_{u}(ASTNode):\n    pass\nN2 = C11N2_{u}\n",
}
# the "later" node classes are defined in the generated module only after the chain has been defined:
# at class-definition time the names are unbound (NameError in get_type_hints), at first use they resolve
LATER_SRC = {
    0: "@dataclass(frozen=True)\nclass C11Later0_{u}(ASTNode):\n    v: int = 0\nLater0 = C11Later0_{u}\n",
    1: "@dataclass(frozen=True)\nclass C11Later1_{u}(Later0):\n    pass\nLater1 = C11Later1_{u}\n",
}


def _used(levels, kind):
    used = {s[1] for lvl in levels for _, t in lvl for s in subterms(t) if s[0] == kind}
    if 1 in used:
        used.add(0)          # N1 derives from N0, Later1 from Later0
    return sorted(used)


_shared = None


def shared():
    """node / enum classes used by every generated module (pyoak node class names are process-global)"""
    global _shared
    if _shared is None:
        mod = types.ModuleType("c11_shared")
        sys.modules["c11_shared"] = mod
        exec(builtins.compile(SHARED_SRC, "c11_shared", "exec", flags=0, dont_inherit=True), mod.__dict__)
        _shared = mod
    return _shared


class Chain:
    """levels: list of list of (field name, Ty).  Class k derives from class k-1 (class 0 from ASTNode)."""

    def __init__(self, levels, sp: Spelling):
        self.levels = levels
        self.sp = sp
        self.uid = next(_counter)
        self.modname = f"c11gen_{self.uid}"
        self.sources: list[str] = []
        r = Renderer(self.uid, sp)
        self.class_names = []
        for k, fields in enumerate(levels):
            base = self.base_expr(k)
            name = f"C{k}_{self.uid}"
            self.class_names.append(name)
            before = len(r.newtypes)
            body = [f"    {fn}: {r.annotation(ty)} = None" for fn, ty in fields] or ["    pass"]
            nts = r.newtypes[before:]
            self.sources.append("\n".join(nts + ["@dataclass(frozen=True)", f"class {name}({base}):"] + body) + "\n")
        self.header = ("from __future__ import annotations\n" if sp.postponed else "") + PRELUDE + "\n" + \
            "\n".join(NODE_SRC[i].format(u=self.uid) for i in _used(levels, "node"))
        self.later = "\n".join(LATER_SRC[i].format(u=self.uid) for i in _used(levels, "fwd")) + "\n"

    def base_expr(self, k):
        return f"C{k - 1}_{self.uid}" if k else "ASTNode"

    def text(self):
        return self.header + "\n" + "\n".join(self.sources) + self.later

    def effective(self, k):
        """dataclass field resolution: base fields first, an override keeps its slot"""
        out: list = []
        for lvl in self.levels[: k + 1]:
            for fn, ty in lvl:
                for i, (n, _) in enumerate(out):
                    if n == fn:
                        out[i] = (fn, ty)
                        break
                else:
                    out.append((fn, ty))
        return out


def c3_merge(seqs):
    out = []
    seqs = [list(q) for q in seqs if q]
    while seqs:
        for q in seqs:
            h = q[0]
            if not any(h in r[1:] for r in seqs):
                break
        else:
            raise TypeError("inconsistent MRO")
        out.append(h)
        seqs = [[x for x in q if x != h] for q in seqs]
        seqs = [q for q in seqs if q]
    return out


class Hier(Chain):
    """a family of generated node classes with multiple inheritance: class k declares `levels[k]` and derives from
    the classes `bases[k]` (indices of earlier classes; [] = ASTNode).  A chain has bases[k] = [k-1]."""

    def __init__(self, levels, bases, sp: Spelling):
        self.bases = bases
        self.mros = {}
        for k in range(len(levels)):
            self.mro(k)                         # TypeError for an inconsistent hierarchy
        Chain.__init__(self, levels, sp)

    def base_expr(self, k):
        return ", ".join(f"C{b}_{self.uid}" for b in self.bases[k]) or "ASTNode"

    def mro(self, k):
        if k not in self.mros:
            bs = self.bases[k]
            self.mros[k] = [k] + c3_merge([self.mro(b) for b in bs] + [list(bs)])
        return self.mros[k]

    def replay(self, k):
        """what `dataclasses` writes into the field dict of class k, as a flat list of declarations: for every class of
        the reversed MRO the *resolved fields of that class* (= its own replay), then the own declarations"""
        out = []
        for b in reversed(self.mro(k)[1:]):
            out += self.replay(b)
        return out + list(self.levels[k])

    def effective(self, k):
        out: list = []
        for fn, ty in self.replay(k):
            for i, (n, _) in enumerate(out):
                if n == fn:
                    out[i] = (fn, ty)
                    break
            else:
                out.append((fn, ty))
        return out

    def hinted(self, k):
        """name -> type as typing.get_type_hints resolves it: the first class of the MRO that declares the name"""
        out = {}
        for j in reversed(self.mro(k)):
            for fn, ty in self.levels[j]:
                out[fn] = ty
        return out

    def coherent(self):
        """dataclasses (replay of the resolved fields of every base) and get_type_hints (own annotations along the MRO)
        agree on the type of every field of every class.  They can differ in a diamond whose *later* branch overrides a
        field of the common base (`A.x: int; B(A).x: Node; C(A); D(C, B)`: the dataclass field of D is A's, the hint is
        B's) - a quirk of dataclasses, not a case the property speaks about; such hierarchies are not generated."""
        for k in range(len(self.levels)):
            h = self.hinted(k)
            if any(h[fn] != ty for fn, ty in self.effective(k)):
                return False
        return True


def run_hier(h: Hier, order):
    """exec the hierarchy in a fresh module.  Returns ({class index: observation}, phases); a class whose definition
    was not attempted (one of its bases could not be defined) has no entry.  The observation lists EVERY generated
    dataclass field of the class (dataclasses.fields minus the fields of ASTNode itself)."""
    import dataclasses
    from pyoak.error import InvalidFieldAnnotations
    from pyoak.node import ASTNode

    shared()
    mod = types.ModuleType(h.modname)
    sys.modules[h.modname] = mod
    ns = mod.__dict__
    flags = __future__.annotations.compiler_flag if h.sp.postponed else 0

    def compile(src, name, mode):  # noqa: A001
        return builtins.compile(src, name, mode, flags=flags, dont_inherit=True)

    own = {f.name for f in dataclasses.fields(ASTNode)}
    phases = []
    results: dict = {}
    defined = set()
    try:
        exec(compile(h.header, h.modname, "exec"), ns)
        for k, src in enumerate(h.sources):
            if any(b not in defined for b in h.bases[k]):
                continue
            try:
                exec(compile(src, h.modname, "exec"), ns)
                defined.add(k)
            except InvalidFieldAnnotations:
                results[k] = ("reject",)
                phases.append("def")
            except Exception as e:  # noqa
                results[k] = ("other", type(e).__name__ + "@def")
        exec(compile(h.later, h.modname, "exec"), ns)
        for k in order:
            if k not in defined:
                continue
            cls = ns[h.class_names[k]]
            types_ = dict(h.effective(k))
            try:
                names = [f.name for f in dataclasses.fields(cls) if f.name not in own]
                kwargs = {fn: sample_value(types_[fn], ns, h.uid) if fn in types_ and child_shape(types_[fn]) else None
                          for fn in names}
                cls(**kwargs)
                kids = {f.name for f in cls.get_child_fields()}
                props = {f.name for f in cls.get_property_fields()}
                obs = []
                for fn in names:
                    a, b = fn in kids, fn in props
                    obs.append((fn, "both" if a and b else "child" if a else "prop" if b else "neither"))
                results[k] = ("ok", obs)
            except InvalidFieldAnnotations:
                results[k] = ("reject",)
                phases.append("use")
            except Exception as e:  # noqa
                results[k] = ("other", type(e).__name__)
        return results, phases
    finally:
        sys.modules.pop(h.modname, None)


def request_class(h: Hier, k):
    """the class as ONE level holding the whole replay (duplicated names included): the model's own `addField`
    fold resolves it (Props/C11.lean `classOutcome_flatten`)"""
    return [A("c11-chain"), [A("level")] + [[A(fn), sx(ty)] for fn, ty in h.replay(k)]]


def sample_value(t, ns, uid):
    """a constructor argument: conforming where the annotation is child-shaped, None otherwise"""
    s = strip(t)
    if s[0] == "node":
        return ns[f"N{s[1]}"]()
    if s[0] == "fwd":
        return ns[f"Later{s[1]}"]()
    if s[0] == "union":
        for m in s[1]:
            if node_like(m):
                return sample_value(m, ns, uid)
        return None
    if s[0] == "vtuple":
        return (sample_value(s[1], ns, uid),)
    if s[0] == "coll" and s[1] == "tuple":
        return tuple(sample_value(m, ns, uid) for m in s[2])
    return None


def run_chain(ch: Chain, order):
    """exec the chain in a fresh module; returns (per-level observations, phases).
    observation of a level: ("reject",) | ("other", ExcName) | ("ok", [(field, verdict)...]);
    levels after the first one that did not come out "ok" are not observed."""
    from pyoak.error import InvalidFieldAnnotations

    shared()
    mod = types.ModuleType(ch.modname)
    sys.modules[ch.modname] = mod
    ns = mod.__dict__
    # never inherit this file's own `from __future__ import annotations`
    flags = __future__.annotations.compiler_flag if ch.sp.postponed else 0

    def compile(src, name, mode):  # noqa: A001
        return builtins.compile(src, name, mode, flags=flags, dont_inherit=True)

    phases = []
    try:
        exec(compile(ch.header, ch.modname, "exec"), ns)
        results: list = [None] * len(ch.levels)
        defined = 0
        for k, src in enumerate(ch.sources):
            try:
                exec(compile(src, ch.modname, "exec"), ns)
                defined += 1
            except InvalidFieldAnnotations:
                results[k] = ("reject",)
                phases.append("def")
                break
            except Exception as e:  # noqa
                results[k] = ("other", type(e).__name__ + "@def")
                break
        exec(compile(ch.later, ch.modname, "exec"), ns)
        for k in order:
            if k >= defined:
                continue
            cls = ns[ch.class_names[k]]
            eff = ch.effective(k)
            try:
                kwargs = {fn: sample_value(ty, ns, ch.uid) if child_shape(ty) else None for fn, ty in eff}
                cls(**kwargs)
                kids = {f.name for f in cls.get_child_fields()}
                props = {f.name for f in cls.get_property_fields()}
                obs = []
                for fn, _ in eff:
                    a, b = fn in kids, fn in props
                    obs.append((fn, "both" if a and b else "child" if a else "prop" if b else "neither"))
                import dataclasses
                names = [f.name for f in dataclasses.fields(cls) if f.name in dict(eff)]
                obs.sort(key=lambda p: names.index(p[0]))
                results[k] = ("ok", obs)
            except InvalidFieldAnnotations:
                results[k] = ("reject",)
                phases.append("use")
            except Exception as e:  # noqa
                results[k] = ("other", type(e).__name__)
        out = []
        for r in results:
            if r is None:
                break
            out.append(r)
            if r[0] != "ok":
                break
        return out, phases
    finally:
        sys.modules.pop(ch.modname, None)


def canon(obs):
    out = []
    for r in obs:
        if r[0] == "reject":
            out.append([A("reject")])
        elif r[0] == "other":
            out.append([A("other"), A(r[1])])
        else:
            out.append([A("ok")] + [[A(fn), A(v)] for fn, v in r[1]])
    return [A("ok")] + out


def request(ch: Chain):
    return [A("c11-chain")] + [[A("level")] + [[A(fn), sx(ty)] for fn, ty in lvl] for lvl in ch.levels]
