"""Generated node-class hierarchies for C12 (accessors).

A hierarchy is generated as *data* (levels of field specifications: name, shape, compare, init,
kw_only, default), rendered to Python source, exec'ed in a fresh module and described to the Lean
model from the data alone (never through pyoak's accessors or `dataclasses.fields`): the description
is the independent side of the correspondence.
"""
from __future__ import annotations

import enum
import random
import sys
import types
from dataclasses import dataclass, field
from typing import ClassVar, Any

from pyoak.node import ASTNode
from pyoak.origin import NO_ORIGIN, CodeOrigin, MemoryTextSource, get_code_range

from proto import A


class Hue(enum.Enum):
    RED = 1
    GREEN = 2


@dataclass(frozen=True)
class KBase(ASTNode):
    """base of the child node classes"""


@dataclass(frozen=True)
class KA(KBase):
    v: int = 0


@dataclass(frozen=True)
class KB(KBase):
    s: str = ""


@dataclass(frozen=True)
class KLen0(KBase):
    """falsy: defines __len__ returning 0"""

    v: int = 0

    def __len__(self) -> int:
        return 0


@dataclass(frozen=True)
class KBoolF(KBase):
    """falsy: defines __bool__ returning False, has a child of its own"""

    c: KBase | None = None

    def __bool__(self) -> bool:
        return False


KID_CLASSES = [KA, KB, KLen0, KBoolF]
FALSY = (KLen0, KBoolF)

_SRC = MemoryTextSource("0123456789 0123456789", source_uri="c12mem")


# ------------------------------------------------------------------ shapes
# (annotation text, kind, value class)   kind: p | c1 | ct

PROP_SHAPES = [
    ("int", "int"), ("str", "str"), ("bool", "bool"), ("float", "float"),
    ("int | None", "optint"), ("Optional[str]", "optstr"), ("tuple[int, ...]", "tint"),
    ("tuple[str, ...]", "tstr"), ("Hue", "hue"), ('Literal["a", "b"]', "lit"),
]
# (annotation, optional?, admissible classes)
ONE_SHAPES = [
    ("KBase", False, KID_CLASSES), ("KA", False, [KA]), ("KLen0", False, [KLen0]),
    ("KBase | None", True, KID_CLASSES), ("Optional[KA]", True, [KA]), ("KA | KB", False, [KA, KB]),
    ("Union[KLen0, KBoolF]", False, [KLen0, KBoolF]), ("KA | KLen0 | None", True, [KA, KLen0]),
    ("Union[KB, KBoolF, None]", True, [KB, KBoolF]),
]
# (annotation, fixed length or None, admissible classes per position / for all)
TUP_SHAPES = [
    ("tuple[KBase, ...]", None, KID_CLASSES), ("tuple[KA, ...]", None, [KA]),
    ("tuple[KA | KLen0, ...]", None, [KA, KLen0]), ("tuple[KLen0, ...]", None, [KLen0]),
    ("tuple[KA, KB]", 2, [[KA], [KB]]), ("tuple[KBase, KLen0, KA]", 3, [KID_CLASSES, [KLen0], [KA]]),
    ("Tuple[KBoolF, ...]", None, [KBoolF]),
]

NAMES = ["a", "b", "z", "aa", "ab", "B", "Z", "_x", "a1", "a_b", "ba", "x10", "x9", "child", "items", "root",
         "name", "value", "idx", "id_", "ident", "origin_", "content", "A", "a0", "zz", "m", "M", "_", "_d",
         # names that coincide with identifiers the generated accessor bodies / their signatures use
         "o", "i", "f", "sort_keys", "skip_id", "skip_origin", "ret"]


@dataclass
class FSpec:
    name: str
    kind: str                 # p | c1 | ct
    ann: str
    vclass: Any               # value class: a prop tag, or (optional, classes) / (fixed, classes)
    compare: bool = True
    init: bool = True
    kw_only: bool = False
    default: str | None = None    # source text of the default (None: no default)
    default_val: Any = None       # ... and its value


def _prop_value(rng: random.Random, tag: str):
    if tag == "int":
        return rng.choice([0, 1, -1, 7, 2**40])
    if tag == "str":
        return rng.choice(["", "x", "a b", "0", "None"])
    if tag == "bool":
        return rng.random() < 0.5
    if tag == "float":
        return rng.choice([0.0, 1.5, -2.25])
    if tag == "optint":
        return rng.choice([None, 0, 3])
    if tag == "optstr":
        return rng.choice([None, "", "s"])
    if tag == "tint":
        return tuple(rng.randrange(3) for _ in range(rng.choice([0, 0, 1, 3])))
    if tag == "tstr":
        return tuple(rng.choice("ab") for _ in range(rng.choice([0, 1, 2])))
    if tag == "hue":
        return rng.choice([Hue.RED, Hue.GREEN])
    if tag == "lit":
        return rng.choice(["a", "b"])
    raise AssertionError(tag)


def _src(v) -> str:
    if isinstance(v, Hue):
        return f"Hue.{v.name}"
    return repr(v)


def gen_field(rng: random.Random, name: str, kind: str | None = None) -> FSpec:
    kind = kind or rng.choice(["p", "p", "p", "c1", "c1", "ct"])
    if kind == "p":
        ann, tag = rng.choice(PROP_SHAPES)
        f = FSpec(name, "p", ann, tag)
        if rng.random() < 0.5:
            f.default_val = _prop_value(rng, tag)
            f.default = _src(f.default_val)
    elif kind == "c1":
        ann, opt, classes = rng.choice(ONE_SHAPES)
        f = FSpec(name, "c1", ann, (opt, classes))
        if opt and rng.random() < 0.6:
            f.default, f.default_val = "None", None
    else:
        ann, fixed, classes = rng.choice(TUP_SHAPES)
        f = FSpec(name, "ct", ann, (fixed, classes))
        if fixed is None and rng.random() < 0.6:
            f.default, f.default_val = "()", ()
    r = rng.random()
    if r < 0.18:
        f.compare = False
    elif r < 0.36:
        f.init = False
    elif r < 0.5:
        f.compare = False
        f.init = False
    if rng.random() < 0.15:
        f.kw_only = True
    if not f.init and f.default is None:
        # a non-init field needs a default
        if f.kind == "p":
            f.default_val = _prop_value(rng, f.vclass)
            f.default = _src(f.default_val)
        elif f.kind == "c1" and f.vclass[0]:
            f.default, f.default_val = "None", None
        elif f.kind == "ct" and f.vclass[0] is None:
            f.default, f.default_val = "()", ()
        else:
            f.init = True
    return f


def resolved(levels: list[list[FSpec]]) -> list[FSpec]:
    """the harness's own view of the fields of a class given the replay of declarations (`Hier.expand`):
    used only to keep the generated source *valid* (dataclass default-ordering rule) and to build
    instances; the order of the result is not used for any expectation"""
    d: dict[str, FSpec] = {}
    for lvl in levels:
        for f in lvl:
            d[f.name] = f
    return list(d.values())


# what ASTNode itself declares (node.py): replayed wherever ASTNode occurs in a reversed MRO
BASE_LEVEL = [
    FSpec("id", "p", "str", "base", compare=False, init=False, kw_only=False, default="_UNSET_ID"),
    FSpec("content_id", "p", "str", "base", compare=False, init=False, kw_only=False, default="_UNSET_ID"),
    FSpec("origin", "p", "Origin", "base", compare=True, init=True, kw_only=True, default="NO_ORIGIN",
          default_val=NO_ORIGIN),
]
BASE_NAMES = ("id", "content_id", "origin")
AST = "ASTNode"
MIXINS = ("MixPlain", "MixHelper", "MixAnnot")


class MixPlain:
    """a mix-in without fields"""

    def describe(self) -> str:
        return type(self).__name__


class MixAnnot:
    """an interface-like mix-in (not a dataclass): it only ANNOTATES attributes that node classes may then declare as
    fields (no class attribute is set, so no default is inherited); `typing.get_type_hints` lists these names at the
    mix-in's place of the reversed MRO, `dataclasses.fields` where the node class declares them.  The names are used only
    by `directed_hiers`, with the same kind (property / child / tuple of children) as annotated here: a mix-in that
    annotates a name with ANOTHER kind than the field declared under that name is a contradictory class definition
    (the resolved hint of the most derived annotation wins over the dataclass field's own) -- a don't-care"""

    mx_name: str
    mx_child: "KBase | None"
    mx_items: "tuple[KBase, ...]"
    mx_z: int
    mx_M: "ClassVar[int]"
    mx_o: "KBase | None"

    def label(self) -> str:
        return f"<{getattr(self, 'mx_name', None)}>"


class MixHelper:
    """a mix-in without fields that defines an unrelated attribute and a property"""

    marker = 7

    @property
    def n_children(self) -> int:
        return len(self.children)  # type: ignore[attr-defined]


def _c3_merge(seqs: list[list]) -> list:
    out = []
    seqs = [list(s) for s in seqs if s]
    while seqs:
        for s in seqs:
            h = s[0]
            if not any(h in t[1:] for t in seqs):
                break
        else:
            raise TypeError("inconsistent MRO")
        out.append(h)
        seqs = [[x for x in t if x != h] for t in seqs]
        seqs = [t for t in seqs if t]
    return out


@dataclass
class Hier:
    """a family of node classes: class k has own declarations `levels[k]` and the bases `bases[k]`
    (indices of earlier classes, mix-in names, "ASTNode"); a chain has bases[k] = [k-1]"""

    uid: int
    levels: list[list[FSpec]]
    postponed: bool               # `from __future__ import annotations` in the generated module
    bases: list[list] = field(default_factory=list)
    shape: str = "chain"
    classes: list[type] = field(default_factory=list)
    module: Any = None
    ns: Any = None                # the globals the class statements are executed in
    variant: int | None = None    # twins: same module, same class names, same field names / kinds / flags,
                                  # but their own Field objects (other metadata, other defaults)

    def __post_init__(self):
        if not self.bases:
            self.bases = [[AST] if k == 0 else [k - 1] for k in range(len(self.levels))]

    def cname(self, k: int) -> str:
        return f"C12h{self.uid}L{k}"

    # ---- linearisation (C3, on the specification data)
    def mro(self, k) -> list:
        if not isinstance(k, int):
            return [k]
        bs = self.bases[k]
        return [k] + _c3_merge([self.mro(b) for b in bs] + [list(bs)])

    def node_ancestors(self, k: int) -> list[int]:
        return [x for x in self.mro(k)[1:] if isinstance(x, int)]

    def expand(self, k) -> list[list[FSpec]]:
        """the declarations `dataclasses` writes into the field dict of class k, as a flat replay:
        for every class of the reversed MRO its own replay, then the own declarations (writing a
        base's resolved fields = replaying its declarations: Props/C12MI.lean `resolve_replay`)"""
        if k == AST:
            return [BASE_LEVEL]
        if not isinstance(k, int):
            return []                      # a mix-in without fields
        out: list[list[FSpec]] = []
        for b in reversed(self.mro(k)[1:]):
            out += self.expand(b)
        return out + [self.levels[k]]

    def all_fields(self, k: int) -> list[FSpec]:
        return resolved(self.expand(k))

    def user_fields(self, k: int) -> list[FSpec]:
        """fields other than id / content_id and the *inherited* origin"""
        return [f for f in self.all_fields(k) if f.vclass != "base"]

    def source_level(self, k: int) -> str:
        bases = ", ".join(self.cname(b) if isinstance(b, int) else b for b in self.bases[k])
        out = [f"@dataclass(frozen=True)", f"class {self.cname(k)}({bases}):"]
        if not self.levels[k]:
            out.append("    pass")
        for f in self.levels[k]:
            args = []
            if f.default is not None:
                args.append(f"default={self._default_src(f)}")
            if not f.init:
                args.append("init=False")
            if not f.compare:
                args.append("compare=False")
            if f.kw_only:
                args.append("kw_only=True")
            if self.variant is not None:
                args.append(f"metadata={{'variant': {self.variant}}}")
            if not args:
                out.append(f"    {f.name}: {f.ann}")
            elif args == [f"default={f.default}"]:
                out.append(f"    {f.name}: {f.ann} = {f.default}")
            else:
                out.append(f"    {f.name}: {f.ann} = field({', '.join(args)})")
        return "\n".join(out) + "\n"

    def _default_src(self, f: FSpec) -> str:
        """the second twin declares other defaults where the shape allows it"""
        if self.variant == 1 and f.kind == "p" and f.default is not None:
            if f.vclass == "int":
                return repr(f.default_val + 1)
            if f.vclass == "str":
                return repr(f.default_val + "'")
            if f.vclass == "tint":
                return repr(f.default_val + (9,))
        return f.default

    def header(self) -> str:
        h = "from __future__ import annotations\n" if self.postponed else ""
        return h + ("from dataclasses import dataclass, field\n"
                    "from typing import Literal, Optional, Tuple, Union\n"
                    "from pyoak.node import ASTNode\n"
                    "from pyoak.origin import NO_ORIGIN, Origin\n"
                    "from zoo_c12 import Hue, KBase, KA, KB, KLen0, KBoolF, MixPlain, MixHelper, MixAnnot\n")

    def open_module(self) -> None:
        name = f"c12gen_{self.uid}"
        self.module = types.ModuleType(name)
        sys.modules[name] = self.module
        self.ns = self.module.__dict__
        exec(self.header(), self.ns)

    def twin(self, variant: int) -> "Hier":
        """the same family once more **in the same module under the same class names** (what calling a class
        factory twice, or re-executing the class statements, produces): the classes of the twin are distinct
        objects with the same __module__ and __qualname__ as their counterparts"""
        t = Hier(self.uid, self.levels, self.postponed, self.bases, self.shape)
        t.module = self.module
        t.variant = variant
        t.ns = {"__name__": self.module.__name__}
        exec(self.header(), t.ns)
        return t

    def define(self, k: int) -> type:
        assert len(self.classes) == k
        exec(self.source_level(k), self.ns)
        cls = self.ns[self.cname(k)]
        self.classes.append(cls)
        return cls

    def source(self) -> str:
        return self.header() + "".join(self.source_level(k) for k in range(len(self.levels)))

    def copy(self, uid: int) -> "Hier":
        return Hier(uid, self.levels, self.postponed, self.bases, self.shape)

    # ---- description for the model (from the specification data only)
    def sexp_class(self, k: int):
        return [A("cls")] + [[A("lvl")] + [[f.name, A(f.kind), f.compare, f.init, f.kw_only] for f in lvl]
                             for lvl in self.expand(k)]


_counter = [0]


def next_uid() -> int:
    _counter[0] += 1
    return _counter[0]


def _legalise(h: Hier) -> None:
    """dataclasses: a positional init field without default must not follow one with a default, in the
    resolved field order of *every* class of the family.  An offending declaration becomes kw_only
    (which lifts the restriction, for the class that declares it and for all that inherit it)."""
    changed = True
    while changed:
        changed = False
        for k in range(len(h.levels)):
            seen_default = False
            for f in h.all_fields(k):
                if not f.init or f.kw_only:
                    continue
                if f.default is not None:
                    seen_default = True
                elif seen_default:
                    f.kw_only = True
                    changed = True


def _own_fields(rng: random.Random, h: Hier, k: int, n: int) -> list[FSpec]:
    """n declarations for class k (whose bases are already in `h`): new names and overrides"""
    anc = h.node_ancestors(k)
    inherited = []
    for a in anc:
        for f in h.levels[a]:
            if f.name not in inherited and f.name != "origin":
                inherited.append(f.name)
    lvl: list[FSpec] = []
    names_here: set[str] = set()
    for _ in range(n):
        if inherited and rng.random() < 0.3:
            name = rng.choice(inherited)          # override of an inherited field
        else:
            name = rng.choice(NAMES)
        if name in names_here:
            continue
        f = gen_field(rng, name)
        if f.default is None and any(g.name == name and g.default is not None for a in anc for g in h.levels[a]):
            # dataclasses would silently pick up a base's class attribute as the default of an
            # override that declares none: give the override its own default, or do not override
            if f.kind == "p":
                f.default_val = _prop_value(rng, f.vclass)
                f.default = _src(f.default_val)
            elif f.kind == "c1" and f.vclass[0]:
                f.default, f.default_val = "None", None
            elif f.kind == "ct" and f.vclass[0] is None:
                f.default, f.default_val = "()", ()
            else:
                fresh = [n for n in NAMES if n not in inherited and n not in names_here]
                if not fresh:
                    continue
                name = f.name = rng.choice(fresh)
        names_here.add(name)
        lvl.append(f)
    if anc and rng.random() < 0.08 and "origin" not in names_here:
        # a user class may re-declare `origin` (it stays under skip_origin whatever its flags are)
        lvl.insert(rng.randrange(len(lvl) + 1),
                   FSpec("origin", "p", "Origin", "origin", compare=rng.random() < 0.5, init=True,
                         kw_only=True, default="NO_ORIGIN", default_val=NO_ORIGIN))
    return lvl


def _add(rng: random.Random, h: Hier, bases: list, n: int) -> int:
    h.bases.append(bases)
    h.levels.append([])
    k = len(h.levels) - 1
    h.levels[k] = _own_fields(rng, h, k, n)
    return k


def _nf(rng: random.Random, hi: int) -> int:
    return rng.choice(list(range(hi + 1)))


def _gen_family(rng: random.Random, shape: str) -> Hier:
    h = Hier(next_uid(), [], rng.random() < 0.4, [[]], shape)
    h.bases = []
    if shape == "chain":
        for k in range(rng.choice([1, 2, 2, 3, 3])):
            _add(rng, h, [AST] if k == 0 else [k - 1], _nf(rng, 6))
        if rng.random() < 0.25:
            _add(rng, h, [len(h.levels) - 1], 0)                   # marker subclass
    elif shape == "diamond":
        # [P] <- A, B <- C(A, B) [<- D]
        top = [AST]
        if rng.random() < 0.4:
            top = [_add(rng, h, [AST], _nf(rng, 3))]
        a = _add(rng, h, list(top), rng.choice([1, 2, 3, 4]))
        b = _add(rng, h, list(top), rng.choice([0, 1, 2, 3, 4]))
        pair = [a, b] if rng.random() < 0.5 else [b, a]
        if top == [AST] and rng.random() < 0.3:
            pair.append(_add(rng, h, [AST], rng.choice([1, 2])))   # class C(A, B, E)
        c = _add(rng, h, pair, 0 if rng.random() < 0.55 else rng.choice([1, 2, 3]))
        if rng.random() < 0.5:
            _add(rng, h, [c], 0 if rng.random() < 0.6 else rng.choice([1, 2]))     # marker / further subclass
    else:  # mixin
        a = _add(rng, h, [AST] if rng.random() < 0.7 else [rng.choice(MIXINS), AST], rng.choice([1, 2, 3, 4]))
        m = rng.choice(MIXINS)
        c = _add(rng, h, [m, a] if rng.random() < 0.5 else [a, m], 0 if rng.random() < 0.5 else rng.choice([1, 2, 3]))
        if rng.random() < 0.5:
            b = _add(rng, h, [AST], rng.choice([1, 2, 3]))
            other = [x for x in MIXINS if x != m][0]
            _add(rng, h, rng.choice([[c, b], [b, c], [c, other, b]]), 0 if rng.random() < 0.6 else 1)
    _legalise(h)
    return h


def _trial(h: Hier) -> str | None:
    """define a throw-away copy of the family (no instance is made, no accessor is called): the
    generator's approximation of the dataclass rules is validated against CPython"""
    t = h.copy(next_uid())
    try:
        t.open_module()
        for k in range(len(t.levels)):
            t.define(k)
    except Exception as e:  # noqa
        return f"{type(e).__name__}: {e}"
    return None


def _coherent(h: Hier) -> bool:
    """Don't-care region (a quirk of `dataclasses` itself, not of pyoak's accessors): in a diamond with a
    common parent P, `class A(P)`, `class B(P)` overriding P's field x, `class C(A, B)`, the field dict of C
    holds **P's** Field x (A's resolved fields are written after B's) while attribute and annotation lookup
    along the MRO find **B's** x; flags, default and type of such a field come from different declarations.
    Families are generated only where both resolutions pick the same declaration of every name."""
    for k in range(len(h.levels)):
        for f in h.all_fields(k):
            for c in h.mro(k):
                own = BASE_LEVEL if c == AST else (h.levels[c] if isinstance(c, int) else [])
                hit = [g for g in own if g.name == f.name]
                if hit:
                    if hit[0] is not f:
                        return False
                    break
    return True


RETRIES = [0, 0, 0]      # families generated, discarded (no MRO / rejected by the trial definition), discarded as incoherent diamonds


def gen_hier(rng: random.Random, shapes=("chain", "chain", "diamond", "diamond", "mixin")) -> Hier:
    for _ in range(20):
        RETRIES[0] += 1
        try:
            h = _gen_family(rng, rng.choice(shapes))
        except TypeError:            # the drawn base lists have no C3 linearisation (mix-in on both sides)
            RETRIES[1] += 1
            continue
        if not _coherent(h):
            RETRIES[2] += 1
            continue
        if _trial(h) is None:
            return h
        RETRIES[1] += 1
    raise RuntimeError("the class generator cannot produce a family CPython/pyoak accept")


def directed_hiers(rng: random.Random) -> list[Hier]:
    """hand-made families for mechanisms the random generator reaches only by luck:
    (1) child / property fields named like the identifiers of the generated accessor bodies (`o`, `i`, `sort_keys`, ...)
        AFTER a tuple-valued child field (whose loop binds `i` and `o`);
    (2) fields whose names an annotation-only mix-in mentions first (either side of the base list), so that the order of
        `typing.get_type_hints` differs from the order of `dataclasses.fields`"""
    out = []
    for _ in range(40):
        try:
            h = Hier(next_uid(), [], rng.random() < 0.4, [[]], "chain")
            h.bases, h.levels = [], []
            names = ["a", "o", "i", "sort_keys", "f", "z", "ret", "skip_id"]
            kinds = ["ct", "c1", "c1", "p", rng.choice(["c1", "p"]), "ct", rng.choice(["c1", "ct"]), "p"]
            lvl = [gen_field(rng, n, k) for n, k in zip(names, kinds)]
            for f in lvl[:3]:
                f.init = True
            h.bases.append([AST]); h.levels.append(lvl)
            if rng.random() < 0.5:
                h.bases.append([0]); h.levels.append([gen_field(rng, "b", "ct"), gen_field(rng, "o", "c1")])
            _legalise(h)
            if _coherent(h) and _trial(h) is None:
                out.append(h)
                break
        except TypeError:
            continue
    for side in (0, 1):
        for _ in range(40):
            try:
                h = Hier(next_uid(), [], rng.random() < 0.4, [[]], "mixin")
                h.bases, h.levels = [], []
                h.bases.append([AST] if side else ["MixAnnot", AST])
                h.levels.append([gen_field(rng, "kind", "p"), gen_field(rng, "first", "c1"), gen_field(rng, "mx_name", "p")])
                h.bases.append([0, "MixAnnot"] if side else [0])
                h.levels.append([gen_field(rng, "aa", "p"), gen_field(rng, "mx_child", "c1"), gen_field(rng, "mx_z", "p"),
                                 gen_field(rng, "mx_M", "p"), gen_field(rng, "mx_items", "ct"), gen_field(rng, "mx_o", "c1")])
                _legalise(h)
                if _coherent(h) and _trial(h) is None:
                    out.append(h)
                    break
            except TypeError:
                continue
    return out


# ------------------------------------------------------------------ instances

def _kid(rng: random.Random, classes, depth: int = 0):
    c = rng.choice(classes)
    if c is KA:
        return KA(rng.randrange(5))
    if c is KB:
        return KB(rng.choice(["", "k"]))
    if c is KLen0:
        return KLen0(rng.randrange(3))
    if c is KBoolF:
        return KBoolF(_kid(rng, [KA, KLen0], depth + 1) if depth < 1 and rng.random() < 0.5 else None)
    raise AssertionError(c)


def gen_value(rng: random.Random, f: FSpec, falsy_bias: float):
    if f.kind == "p":
        if f.vclass == "origin":
            return rng.choice([NO_ORIGIN, CodeOrigin(_SRC, get_code_range(1, 1, 1, 4, 1, 4))])
        return _prop_value(rng, f.vclass)
    if f.kind == "c1":
        opt, classes = f.vclass
        if opt and rng.random() < 0.4:
            return None
        fcl = [c for c in classes if c in FALSY]
        if fcl and rng.random() < falsy_bias:
            return _kid(rng, fcl)
        return _kid(rng, classes)
    fixed, classes = f.vclass
    if fixed is not None:
        return tuple(_kid(rng, cl) for cl in classes)
    n = rng.choice([0, 0, 1, 2, 3, 11])
    out = []
    for _ in range(n):
        fcl = [c for c in classes if c in FALSY]
        out.append(_kid(rng, fcl) if fcl and rng.random() < falsy_bias else _kid(rng, classes))
    if out and rng.random() < 0.2:
        out.append(out[0])          # the same object twice in one tuple
    return tuple(out)


def make_instance(rng: random.Random, h: Hier, k: int):
    """returns (instance, {field name: stored value}) for class k of the family; the stored values are
    read back with plain `getattr` (attribute access, none of the accessors under test)"""
    fs = h.user_fields(k)
    falsy_bias = rng.choice([0.0, 0.5, 1.0])
    kwargs = {}
    for f in fs:
        if not f.init:
            continue
        if f.default is not None and rng.random() < 0.3:
            continue                            # argument omitted
        kwargs[f.name] = gen_value(rng, f, falsy_bias)
    if not any(f.name == "origin" for f in fs) and rng.random() < 0.5:
        kwargs["origin"] = CodeOrigin(_SRC, get_code_range(0, 1, 0, 3, 1, 3))
    inst = h.classes[k](**kwargs)
    vals = {f.name: getattr(inst, f.name) for f in fs}
    vals["origin"] = getattr(inst, "origin")
    return inst, vals
