"""C05 consumer process: argv[1] = pickle file with a list of trees, argv[2] = which traversal comes first.
Prints one JSON line: list of failure texts (empty = every traversal agrees with the recursion over the dataclass fields)."""
import dataclasses
import json
import pickle
import sys

import zoo_c05w  # noqa: F401  (classes for pickle; no instance is created here)
from pyoak.node import ASTNode


def kids(n):
    for f in dataclasses.fields(n):
        v = getattr(n, f.name)
        if isinstance(v, ASTNode):
            yield f.name, None, v
        elif isinstance(v, tuple) and v and all(isinstance(x, ASTNode) for x in v):
            for i, x in enumerate(v):
                yield f.name, i, x


def pre(n):
    for f, i, c in kids(n):
        yield (id(c), id(n), f, i)
        yield from pre(c)


def post(n):
    for f, i, c in kids(n):
        yield from post(c)
        yield (id(c), id(n), f, i)


def levels(n):
    level = [(c, n, f, i) for f, i, c in kids(n)]
    while level:
        for c, p, f, i in level:
            yield (id(c), id(p), f, i)
        level = [(c, p, f, i) for p, _pp, _f, _i in level for f, i, c in kids(p)]


trees = pickle.loads(open(sys.argv[1], "rb").read())
first = sys.argv[2]
real = lambda it: [(id(x.node), id(x.parent), x.field.name, x.findex) for x in it]  # noqa
fails = []
order = {"dfs": ["dfs", "post", "bfs", "gather"], "post": ["post", "dfs", "bfs", "gather"], "bfs": ["bfs", "dfs", "post", "gather"],
         "gather": ["gather", "dfs", "post", "bfs"]}[first]
for k, t in enumerate(trees):
    for what in order:
        if what == "dfs":
            got, want = real(t.dfs()), list(pre(t))
        elif what == "post":
            got, want = real(t.dfs(bottom_up=True)), list(post(t))
        elif what == "bfs":
            got, want = real(t.bfs()), list(levels(t))
        else:
            got, want = [id(x) for x in t.gather(ASTNode)], [p[0] for p in pre(t)]
        if got != want:
            fails.append(f"tree {k}, {what} (first traversal in this process: {first}): {len(got)} yielded positions differ from the "
                         f"{len(want)} stored ones")
print(json.dumps(fails))
