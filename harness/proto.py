"""S-expression line protocol shared with the Lean driver (lean/PyOak/Sexp.lean)."""
from __future__ import annotations


class Atom(str):
    """A bare token (as opposed to a quoted string)."""

    __slots__ = ()


def _esc(s: str) -> str:
    out = []
    for ch in s:
        o = ord(ch)
        if ch == '"':
            out.append('\\"')
        elif ch == "\\":
            out.append("\\\\")
        elif o < 32 or o > 126:
            out.append("\\u{%x}" % o)
        else:
            out.append(ch)
    return "".join(out)


def dumps(x) -> str:
    if isinstance(x, Atom):
        return str(x)
    if isinstance(x, bool):
        return "true" if x else "false"
    if x is None:
        return "none"
    if isinstance(x, int):
        return str(x)
    if isinstance(x, str):
        return '"' + _esc(x) + '"'
    if isinstance(x, (list, tuple)):
        return "(" + " ".join(dumps(e) for e in x) + ")"
    raise TypeError(f"cannot encode {type(x)}")


def A(s: str) -> Atom:
    return Atom(s)


def loads(s: str):
    pos = 0
    n = len(s)

    def skip():
        nonlocal pos
        while pos < n and s[pos].isspace():
            pos += 1

    def one():
        nonlocal pos
        skip()
        if pos >= n:
            raise ValueError("eof")
        c = s[pos]
        if c == "(":
            pos += 1
            out = []
            while True:
                skip()
                if pos >= n:
                    raise ValueError("eof in list")
                if s[pos] == ")":
                    pos += 1
                    return out
                out.append(one())
        if c == '"':
            pos += 1
            buf = []
            while True:
                ch = s[pos]
                if ch == '"':
                    pos += 1
                    return "".join(buf)
                if ch == "\\":
                    nx = s[pos + 1]
                    if nx == "u":
                        end = s.index("}", pos)
                        buf.append(chr(int(s[pos + 3 : end], 16)))
                        pos = end + 1
                        continue
                    buf.append({"n": "\n", "t": "\t", "r": "\r"}.get(nx, nx))
                    pos += 2
                    continue
                buf.append(ch)
                pos += 1
        start = pos
        while pos < n and not s[pos].isspace() and s[pos] not in '()"':
            pos += 1
        return Atom(s[start:pos])

    return one()
