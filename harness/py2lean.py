"""py2lean — a small Python-AST -> Lean 4 translator for the *pure kernels* of pyoak (DESIGN 2.1a).

It reads `src/pyoak/origin.py` as it is on disk and emits Lean definitions (deterministic text)
for a fixed list of functions whose bodies are plain boolean / arithmetic expressions over the
attributes of typed parameters.  The property theorems (Props/C15.lean) are proved about the
emitted definitions, so a semantic change of the Python source changes the Lean definitions
and breaks the proofs, while a harmless rewrite re-proves.

Accepted subset, per function (anything else is an `Unsupported` error naming the function —
never silently skipped):

  body   ::= [docstring] stmt*          (a body that falls off its end: `accept`, only in validators)
  stmt   ::= `if not isinstance(p, C): raise NotImplementedError()`   dropped when C is p's declared type
           | `if not isinstance(p, C): return super().m(p)`          narrows p to C (recorded as `<f>_narrow`)
           | `if cond: body` (body ends in return / raise)           -> `if cond then .. else <rest>`
           | `return expr`
           | `return super().m(..)`                                   -> `none` (the result type becomes Option)
           | `raise ValueError(..)`                                   -> `false` (validators only)
  expr   ::= parameter | expr.attr | int literal | True | False | expr if cond else expr
           | and / or / not | comparison chain with < <= > >= == != in
           | min(a, b) | max(a, b) | a + b | a - b | obj.method(args) | func(args)
           | Dataclass(kw=expr, ..) / Dataclass(expr, ..)
           | f"..{int expr}..{str expr}.."  (no conversion, no format spec) | "literal" | str(int expr) | str + str
             -> a character list (`List Char`); `{i}` / `str(i)` on an int is `pyIntStr i` (decimal, leading `-`)
  a method may carry the single decorator `@property` (translated as a function of `self`)

Python semantics respected:
  * a comparison on a dataclass uses the method the class defines, otherwise the *reflected* method of
    the right operand (`a > b` => `b.__lt__(a)`, `a >= b` => `b.__le__(a)`, `a < b` => `b.__gt__(a)`, ..);
  * `min(a, b)` => `b if b < a else a`;   `max(a, b)` => `b if b > a else a`   (CPython's tie rule);
  * `x in r` => `r.__contains__(x)`;  `a + b` => `a.__add__(b)`;
  * `==` / `!=` on a dataclass without an explicit `__eq__` is field-wise equality; on the abstract
    type `Source` it stays an abstract `BEq`.
Python `int` is Lean `Int`.  A dataclass becomes a Lean `structure` with the annotated fields
(field names that are Lean keywords get a trailing `_`).
"""
from __future__ import annotations

import ast
from pathlib import Path

LEAN_KEYWORDS = {"end", "from", "in", "at", "do", "then", "else", "if", "let", "have", "show", "fun", "open",
                 "where", "with", "match", "def", "theorem", "structure", "class", "instance", "section",
                 "namespace", "local", "by", "import", "export", "deriving", "for", "mut", "return", "prefix"}

METHOD_NAMES = {"__lt__": "lt", "__le__": "le", "__gt__": "gt", "__ge__": "ge", "__contains__": "contains",
                "__add__": "add", "__sub__": "sub", "__post_init__": "valid"}

CMP = {ast.Lt: ("__lt__", "__gt__", "<"), ast.LtE: ("__le__", "__ge__", "≤"),
       ast.Gt: ("__gt__", "__lt__", ">"), ast.GtE: ("__ge__", "__le__", "≥")}

# the kernels C15 is about: (class or None, function)
TARGETS = [
    ("CodePoint", "__post_init__"), ("CodePoint", "__lt__"), ("CodePoint", "__le__"),
    ("CodeRange", "__post_init__"), ("CodeRange", "overlaps"), ("CodeRange", "__contains__"),
    ("CodeRange", "__lt__"), ("CodeRange", "__le__"), ("CodeRange", "__add__"),
    (None, "get_code_range"), (None, "EMPTY_CODE_RANGE"),
    ("CodeOrigin", "__add__"),
    ("CodeRange", "fqn"),
]
STRUCTS = ["CodePoint", "CodeRange", "CodeOrigin"]
ABSTRACT = {"Source": "S"}           # abstract types: only == and != are available


class Unsupported(Exception):
    def __init__(self, where: str, why: str):
        super().__init__(f"{where}: {why}")
        self.where = where
        self.why = why


def mangle(name: str) -> str:
    return name + "_" if name in LEAN_KEYWORDS else name


class Translator:
    def __init__(self, source: str, filename: str = "origin.py"):
        self.tree = ast.parse(source, filename)
        self.classes: dict[str, ast.ClassDef] = {}
        self.funcs: dict[str, ast.FunctionDef] = {}
        self.consts: dict[str, ast.expr] = {}
        for st in self.tree.body:
            if isinstance(st, ast.ClassDef):
                self.classes[st.name] = st
            elif isinstance(st, ast.FunctionDef):
                self.funcs[st.name] = st
            elif isinstance(st, ast.Assign) and len(st.targets) == 1 and isinstance(st.targets[0], ast.Name):
                self.consts[st.targets[0].id] = st.value
        self.patched: list[str] = []
        for st in ast.walk(self.tree):
            # `CodeRange.__contains__ = f`, `setattr(CodeRange, ..)`, `del CodeRange.x` anywhere: the class body is
            # then not the whole truth about the methods
            tg = []
            if isinstance(st, (ast.Assign, ast.Delete)):
                tg = st.targets
            elif isinstance(st, (ast.AugAssign, ast.AnnAssign)):
                tg = [st.target]
            elif isinstance(st, ast.Call) and isinstance(st.func, ast.Name) and st.func.id in ("setattr", "delattr") \
                    and st.args:
                tg = [ast.Attribute(value=st.args[0], attr="?")]
            for t in tg:
                if isinstance(t, ast.Attribute) and isinstance(t.value, ast.Name) and t.value.id in STRUCTS:
                    self.patched.append(t.value.id)
        self.fields: dict[str, list[tuple[str, str]]] = {}
        self.done: dict[tuple[str | None, str], tuple[str, str]] = {}   # -> (lean name, result type)
        self.sigs: dict[tuple[str | None, str], list[str]] = {}         # -> effective parameter types
        self.in_progress: set = set()
        self.out: list[str] = []
        self.cur = ""
        self.uses_abstract = False
        self.uses_intstr = False
        self.inst: dict[tuple[str, str], bool] = {}     # isinstance(p, C) tests with a fixed outcome (see translate_function)

    # ------------------------------------------------------------------ classes
    def is_dataclass(self, c: ast.ClassDef) -> dict:
        for d in c.decorator_list:
            if isinstance(d, ast.Name) and d.id == "dataclass":
                return {}
            if isinstance(d, ast.Call) and isinstance(d.func, ast.Name) and d.func.id == "dataclass":
                return {k.arg: k.value for k in d.keywords}
        raise Unsupported(c.name, "not a dataclass")

    def struct_fields(self, cname: str) -> list[tuple[str, str]]:
        if cname in self.fields:
            return self.fields[cname]
        if cname not in self.classes:
            raise Unsupported(cname, "class not found")
        c = self.classes[cname]
        kw = self.is_dataclass(c)
        for flag in ("order", "eq"):
            if flag in kw and not (flag == "eq" and isinstance(kw[flag], ast.Constant) and kw[flag].value is True) \
                    and not (flag == "order" and isinstance(kw[flag], ast.Constant) and kw[flag].value is False):
                raise Unsupported(cname, f"dataclass({flag}=..) changes the comparison methods")
        fs: list[tuple[str, str]] = []
        for st in c.body:
            if isinstance(st, ast.AnnAssign) and isinstance(st.target, ast.Name):
                ann = st.annotation
                if isinstance(ann, ast.Constant) and isinstance(ann.value, str):
                    ann = ast.parse(ann.value, mode="eval").body
                if isinstance(ann, ast.Subscript) or (isinstance(ann, ast.Attribute) and ann.attr == "ClassVar"):
                    txt = ast.unparse(ann)
                    if "ClassVar" in txt:
                        continue
                if not isinstance(ann, ast.Name):
                    raise Unsupported(cname, f"field {st.target.id}: annotation {ast.unparse(ann)} not supported")
                fs.append((st.target.id, ann.id))
        if not fs:
            raise Unsupported(cname, "no fields")
        self.fields[cname] = fs
        return fs

    def lean_type(self, t: str) -> str:
        if t == "int":
            return "Int"
        if t == "bool":
            return "Bool"
        if t == "str":
            return "(List Char)"
        if t in ABSTRACT:
            self.uses_abstract = True
            return ABSTRACT[t]
        if t in STRUCTS:
            return self.struct_type(t)
        raise Unsupported(self.cur, f"type {t} not supported")

    def struct_is_generic(self, cname: str) -> bool:
        return any(ft in ABSTRACT or (ft in STRUCTS and ft != cname and self.struct_is_generic(ft))
                   for _, ft in self.struct_fields(cname))

    def struct_type(self, cname: str) -> str:
        return f"({cname} S)" if self.struct_is_generic(cname) else cname

    def emit_struct(self, cname: str) -> None:
        fs = self.struct_fields(cname)
        generic = self.struct_is_generic(cname)
        self.cur = cname
        head = f"structure {cname} (S : Type) where" if generic else f"structure {cname} where"
        lines = [head] + [f"  {mangle(n)} : {self.lean_type(t)}" for n, t in fs]
        lines.append("  deriving DecidableEq, Repr")
        self.out.append("\n".join(lines))

    def method(self, cname: str, m: str) -> ast.FunctionDef | None:
        """the method as Python would find it: class body first, then bases defined in this file"""
        seen = []
        todo = [cname]
        while todo:
            c = todo.pop(0)
            if c in seen or c not in self.classes:
                continue
            seen.append(c)
            for st in self.classes[c].body:
                if isinstance(st, ast.FunctionDef) and st.name == m:
                    return st
            todo += [b.id for b in self.classes[c].bases if isinstance(b, ast.Name)]
        return None

    # ------------------------------------------------------------------ functions
    def lean_name(self, cname: str | None, f: str) -> str:
        base = METHOD_NAMES.get(f, f)
        if base.startswith("__"):
            raise Unsupported(f"{cname}.{f}", "special method not supported")
        return f"{cname}.{base}" if cname else base

    def need(self, cname: str | None, f: str) -> tuple[str, str]:
        key = (cname, f)
        if key in self.done:
            return self.done[key]
        if key in self.in_progress:
            raise Unsupported(f"{cname}.{f}", "recursive definition")
        self.in_progress.add(key)
        saved = self.cur
        try:
            if cname is None and f in self.consts and f not in self.funcs:
                res = self.translate_const(f)
            else:
                fd = self.method(cname, f) if cname else self.funcs.get(f)
                if fd is None:
                    raise Unsupported(f"{cname}.{f}" if cname else f, "function not found")
                res = self.translate_function(cname, fd)
        finally:
            self.cur = saved
            self.in_progress.discard(key)
        self.done[key] = res
        return res

    def translate_const(self, name: str) -> tuple[str, str]:
        self.cur = name
        txt, ty = self.expr(self.consts[name], {})
        self.out.append(f"@[grind] def {name} : {self.lean_type(ty)} :=\n  {txt}")
        self.sigs[(None, name)] = []
        return name, ty

    def ann_type(self, ann: ast.expr | None, where: str) -> str:
        if isinstance(ann, ast.Constant) and isinstance(ann.value, str):
            ann = ast.parse(ann.value, mode="eval").body
        if isinstance(ann, ast.Name):
            return ann.id
        raise Unsupported(where, f"parameter annotation {ast.unparse(ann) if ann else None} not supported")

    def translate_function(self, cname: str | None, fd: ast.FunctionDef) -> tuple[str, str]:
        where = f"{cname}.{fd.name}" if cname else fd.name
        self.cur = where
        a = fd.args
        is_property = len(fd.decorator_list) == 1 and isinstance(fd.decorator_list[0], ast.Name) \
            and fd.decorator_list[0].id == "property" and cname is not None and len(a.args) == 1
        if a.vararg or a.kwarg or a.kwonlyargs or a.posonlyargs or a.defaults or (fd.decorator_list and not is_property):
            raise Unsupported(where, "signature with defaults / *args / decorators not supported")
        env: dict[str, str] = {}
        params: list[str] = []
        for i, p in enumerate(a.args):
            if cname and i == 0:
                env[p.arg] = cname
            else:
                env[p.arg] = self.ann_type(p.annotation, where)
            params.append(p.arg)
        body = list(fd.body)
        if body and isinstance(body[0], ast.Expr) and isinstance(body[0].value, ast.Constant) \
                and isinstance(body[0].value.value, str):
            body = body[1:]
        validator = fd.name == "__post_init__"
        narrow: list[tuple[str, str]] = []
        ctx = {"validator": validator, "narrow": narrow, "optional": False, "params": params}
        # first pass to find out whether the result is optional (a `return super()...` occurs)
        ctx["optional"] = any(isinstance(n, ast.Return) and self.is_super_call(n.value) for n in ast.walk(fd))
        # `isinstance(p, C)` on a parameter declared with a base type, C one of the translated records, in a function that
        # defers to `super()` otherwise: the function is translated for the case that the test HOLDS (p has type C, the
        # test is `true`), and a second time with the test `false` as `<name>_other` — which must be `none` (the super call)
        cands = []
        for n in ast.walk(fd):
            if isinstance(n, ast.Call) and isinstance(n.func, ast.Name) and n.func.id == "isinstance" and len(n.args) == 2 \
                    and isinstance(n.args[0], ast.Name) and isinstance(n.args[1], ast.Name):
                pn, cn = n.args[0].id, n.args[1].id
                if pn in params[1:] and cn in STRUCTS and env.get(pn) != cn and ctx["optional"] and (pn, cn) not in cands:
                    cands.append((pn, cn))
        other_txt = None
        if cands:
            for pn, cn in cands:
                env[pn] = cn
                narrow.append((pn, cn))
            saved_inst = dict(self.inst)
            try:
                for pc in cands:
                    self.inst[pc] = False
                other_txt, _ = self.block(body, dict(env), ctx)
                for pc in cands:
                    self.inst[pc] = True
                txt, ty = self.block(body, env, ctx)
            finally:
                self.inst = saved_inst
        else:
            txt, ty = self.block(body, env, ctx)
        name = self.lean_name(cname, fd.name)
        if validator:
            if ty != "bool":
                raise Unsupported(where, "validator does not reduce to a boolean")
            rty = "Bool"
        else:
            if fd.returns is not None and not ctx["optional"]:
                declared = self.ann_type(fd.returns, where)
                if declared != ty:
                    raise Unsupported(where, f"declared result {declared}, inferred {ty}")
            rty = self.lean_type(ty)
            if ctx["optional"]:
                rty = f"Option {rty}"
        binder = []
        for p in params:
            binder.append(f"({mangle(p)} : {self.lean_type(env[p])})")
        generic = any(env[p] in ABSTRACT or (env[p] in STRUCTS and self.struct_is_generic(env[p])) for p in params)
        pre = "{S : Type} [BEq S] " if generic else ""
        for p, c in narrow:
            self.out.append(f"/-- `{where}`: the parameter `{p}` is handled here only when `isinstance({p}, {c})` -/\n"
                            f"def {name}_narrow : String := \"{c}\"")
        self.out.append(f"@[grind] def {name} {pre}{' '.join(binder)} : {rty} :=\n  {txt}")
        if other_txt is not None:
            self.out.append(f"/-- `{where}` when the `isinstance` test on `{cands[0][0]}` FAILS (must be the `super()` call: `none`) -/\n"
                            f"@[grind] def {name}_other {pre}{' '.join(binder)} : {rty} :=\n  {other_txt}")
        self.sigs[(cname, fd.name)] = [env[p] for p in (params[1:] if cname else params)]
        return name, ("?" + ty if ctx["optional"] else ty)

    @staticmethod
    def is_super_call(e: ast.expr | None) -> bool:
        return (isinstance(e, ast.Call) and isinstance(e.func, ast.Attribute) and isinstance(e.func.value, ast.Call)
                and isinstance(e.func.value.func, ast.Name) and e.func.value.func.id == "super")

    @staticmethod
    def isinstance_guard(test: ast.expr) -> tuple[str, str] | None:
        if isinstance(test, ast.UnaryOp) and isinstance(test.op, ast.Not) and isinstance(test.operand, ast.Call):
            c = test.operand
            if isinstance(c.func, ast.Name) and c.func.id == "isinstance" and len(c.args) == 2 \
                    and isinstance(c.args[0], ast.Name) and isinstance(c.args[1], ast.Name):
                return c.args[0].id, c.args[1].id
        return None

    def block(self, stmts: list[ast.stmt], env: dict[str, str], ctx: dict) -> tuple[str, str]:
        where = self.cur
        if not stmts:
            if ctx["validator"]:
                return "true", "bool"
            raise Unsupported(where, "control reaches the end of the function without a return")
        st, rest = stmts[0], stmts[1:]
        if isinstance(st, ast.Pass) :
            return self.block(rest, env, ctx)
        if isinstance(st, ast.Return):
            if rest:
                raise Unsupported(where, "statements after return")
            if ctx["validator"]:
                raise Unsupported(where, "return inside a validator")
            if self.is_super_call(st.value):
                return "none", "?"
            if st.value is None:
                raise Unsupported(where, "bare return")
            txt, ty = self.expr(st.value, env)
            return (f"some {self.atom(txt)}" if ctx["optional"] else txt), ty
        if isinstance(st, ast.Raise):
            if rest:
                raise Unsupported(where, "statements after raise")
            exc = st.exc
            nm = exc.func.id if isinstance(exc, ast.Call) and isinstance(exc.func, ast.Name) else \
                (exc.id if isinstance(exc, ast.Name) else None)
            if ctx["validator"] and nm == "ValueError":
                return "false", "bool"
            raise Unsupported(where, f"raise {nm} outside a validator")
        if isinstance(st, (ast.Assign, ast.AnnAssign)):
            # a local name bound once: `x = e` -> `(let x := e; rest)`
            tg = st.targets[0] if isinstance(st, ast.Assign) and len(st.targets) == 1 else getattr(st, "target", None)
            if not isinstance(tg, ast.Name) or st.value is None:
                raise Unsupported(where, "assignment to something other than a local name")
            if tg.id in ctx["params"] or tg.id in env:
                raise Unsupported(where, f"re-assignment of {tg.id}")
            txt, ty = self.expr(st.value, env)
            env2 = dict(env)
            env2[tg.id] = ty
            r_txt, r_ty = self.block(rest, env2, ctx)
            return f"(let {mangle(tg.id)} := {txt}; {r_txt})", r_ty
        if isinstance(st, ast.If) and not st.orelse and isinstance(st.test, ast.BoolOp) and isinstance(st.test.op, ast.Or) \
                and self.isinstance_guard(st.test.values[0]) is not None and self.terminates(st.body) \
                and self.isinstance_guard(st.test.values[0]) not in self.inst:
            # `if not isinstance(p, C) or A or B: <exit>`  ==  `if not isinstance(p, C): <exit>` ; `if A or B: <exit>`
            # (Python evaluates A, B only when the isinstance test passed: they see p narrowed)
            vals = st.test.values
            first = ast.If(test=vals[0], body=st.body, orelse=[])
            second_test = vals[1] if len(vals) == 2 else ast.BoolOp(op=ast.Or(), values=vals[1:])
            second = ast.If(test=second_test, body=st.body, orelse=[])
            return self.block([first, second] + rest, env, ctx)
        if isinstance(st, ast.If):
            if st.orelse:
                a_txt, a_ty = self.block(st.body, env, ctx)
                b_txt, b_ty = self.block(st.orelse + rest, env, ctx) if not self.terminates(st.orelse) else \
                    self.block(st.orelse, env, ctx)
                if not self.terminates(st.body):
                    raise Unsupported(where, "if-branch that falls through")
                c_txt = self.cond(st.test, env)
                return self.ite(c_txt, a_txt, a_ty, b_txt, b_ty)
            g = self.isinstance_guard(st.test)
            if g is not None and g[0] in env and g not in self.inst:
                p, c = g
                if len(st.body) == 1 and isinstance(st.body[0], ast.Raise):
                    exc = st.body[0].exc
                    nm = exc.func.id if isinstance(exc, ast.Call) and isinstance(exc.func, ast.Name) else None
                    if nm == "NotImplementedError" and env[p] == c:
                        return self.block(rest, env, ctx)          # type guard on the declared type
                    raise Unsupported(where, f"isinstance guard on {p}: {c} vs declared {env[p]} / raises {nm}")
                if len(st.body) == 1 and isinstance(st.body[0], ast.Return) and self.is_super_call(st.body[0].value) \
                        and c in STRUCTS:
                    if ctx["params"].index(p) == 0:
                        raise Unsupported(where, "narrowing of self")
                    env2 = dict(env)
                    env2[p] = c
                    env[p] = c          # the binder gets the narrowed type
                    ctx["narrow"].append((p, c))
                    return self.block(rest, env2, ctx)
                raise Unsupported(where, "isinstance guard of unknown shape")
            if not self.terminates(st.body):
                raise Unsupported(where, "if-branch that falls through")
            a_txt, a_ty = self.block(st.body, env, ctx)
            b_txt, b_ty = self.block(rest, env, ctx)
            c_txt = self.cond(st.test, env)
            return self.ite(c_txt, a_txt, a_ty, b_txt, b_ty)
        raise Unsupported(where, f"statement {type(st).__name__} not supported")

    def terminates(self, stmts: list[ast.stmt]) -> bool:
        if not stmts:
            return False
        last = stmts[-1]
        if isinstance(last, (ast.Return, ast.Raise)):
            return True
        if isinstance(last, ast.If) and last.orelse:
            return self.terminates(last.body) and self.terminates(last.orelse)
        return False

    def ite(self, c: str, a: str, a_ty: str, b: str, b_ty: str) -> tuple[str, str]:
        ty = a_ty if a_ty != "?" else b_ty
        if "?" not in (a_ty, b_ty) and a_ty != b_ty:
            raise Unsupported(self.cur, f"branches of different types {a_ty} / {b_ty}")
        return f"if {c} then {a}\n  else {b}", ty

    def cond(self, e: ast.expr, env: dict[str, str]) -> str:
        txt, ty = self.expr(e, env)
        if ty != "bool":
            raise Unsupported(self.cur, f"condition `{ast.unparse(e)}` is not boolean (truthiness not supported)")
        return txt

    @staticmethod
    def atom(txt: str) -> str:
        if txt.startswith("(") or txt.startswith("{") or all(ch.isalnum() or ch in "._" for ch in txt):
            return txt
        return f"({txt})"

    # ------------------------------------------------------------------ expressions
    def expr(self, e: ast.expr, env: dict[str, str]) -> tuple[str, str]:
        where = self.cur
        if isinstance(e, ast.Name):
            if e.id in env:
                return mangle(e.id), env[e.id]
            if e.id in self.consts:
                nm, ty = self.need(None, e.id)
                return nm, ty
            raise Unsupported(where, f"unknown name {e.id}")
        if isinstance(e, ast.Constant):
            if isinstance(e.value, bool):
                return ("true" if e.value else "false"), "bool"
            if isinstance(e.value, int):
                return (str(e.value) if e.value >= 0 else f"({e.value})"), "int"
            if isinstance(e.value, str):
                return f"({self.char_list(e.value)} : List Char)", "str"
            raise Unsupported(where, f"literal {e.value!r}")
        if isinstance(e, ast.JoinedStr):
            parts = []
            for v in e.values:
                if isinstance(v, ast.Constant) and isinstance(v.value, str):
                    parts.append(self.char_list(v.value))
                elif isinstance(v, ast.FormattedValue):
                    if v.conversion != -1 or v.format_spec is not None:
                        raise Unsupported(where, "f-string with a conversion / format spec")
                    t, ty = self.expr(v.value, env)
                    if ty == "int":
                        self.uses_intstr = True
                        parts.append(f"(pyIntStr {self.atom(t)})")
                    elif ty == "str":
                        parts.append(self.atom(t))
                    else:
                        raise Unsupported(where, f"f-string field of type {ty}")
                else:
                    raise Unsupported(where, "f-string part not supported")
            return ("(" + " ++ ".join(parts) + ")" if parts else "([] : List Char)"), "str"
        if isinstance(e, ast.UnaryOp) and isinstance(e.op, ast.USub):
            t, ty = self.expr(e.operand, env)
            if ty != "int":
                raise Unsupported(where, "unary minus on non-int")
            return f"(-{self.atom(t)})", "int"
        if isinstance(e, ast.Attribute):
            b, bty = self.expr(e.value, env)
            if bty not in STRUCTS:
                raise Unsupported(where, f"attribute .{e.attr} of {bty}")
            for n, t in self.struct_fields(bty):
                if n == e.attr:
                    return f"{self.atom(b)}.{mangle(n)}", t
            raise Unsupported(where, f"{bty} has no field {e.attr}")
        if isinstance(e, ast.UnaryOp) and isinstance(e.op, ast.Not):
            return f"!{self.atom(self.cond(e.operand, env))}", "bool"
        if isinstance(e, ast.BoolOp):
            op = " && " if isinstance(e.op, ast.And) else " || "
            return "(" + op.join(self.atom(self.cond(v, env)) for v in e.values) + ")", "bool"
        if isinstance(e, ast.IfExp):
            a, aty = self.expr(e.body, env)
            b, bty = self.expr(e.orelse, env)
            if aty != bty:
                raise Unsupported(where, "conditional expression with different types")
            return f"(if {self.cond(e.test, env)} then {a} else {b})", aty
        if isinstance(e, ast.Compare):
            parts = []
            left = e.left
            for op, right in zip(e.ops, e.comparators):
                parts.append(self.compare(op, left, right, env))
                left = right
            return (parts[0] if len(parts) == 1 else "(" + " && ".join(parts) + ")"), "bool"
        if isinstance(e, ast.BinOp) and isinstance(e.op, (ast.Add, ast.Sub)):
            a, aty = self.expr(e.left, env)
            b, bty = self.expr(e.right, env)
            sym, dunder = ("+", "__add__") if isinstance(e.op, ast.Add) else ("-", "__sub__")
            if aty == "int" and bty == "int":
                return f"({a} {sym} {b})", "int"
            if aty == "str" and bty == "str" and sym == "+":
                return f"({a} ++ {b})", "str"
            if aty in STRUCTS and self.method(aty, dunder) is not None:
                nm, rty = self.need(aty, dunder)
                self.check_args(aty, dunder, [bty])
                return f"({nm} {self.atom(a)} {self.atom(b)})", rty
            raise Unsupported(where, f"`{sym}` on {aty}, {bty}")
        if isinstance(e, ast.Call) and isinstance(e.func, ast.Name) and e.func.id == "isinstance" and len(e.args) == 2 \
                and isinstance(e.args[0], ast.Name) and isinstance(e.args[1], ast.Name) \
                and (e.args[0].id, e.args[1].id) in self.inst:
            return ("true" if self.inst[(e.args[0].id, e.args[1].id)] else "false"), "bool"
        if isinstance(e, ast.Call):
            return self.call(e, env)
        raise Unsupported(where, f"expression `{ast.unparse(e)}` not supported")

    def char_list(self, text: str) -> str:
        """a str literal as an explicit Lean character list (printable ASCII only; no escapes needed)"""
        for ch in text:
            if not (32 <= ord(ch) < 127) or ch in "'\\":
                raise Unsupported(self.cur, f"character {ch!r} in a string literal")
        return "[" + ", ".join(f"'{ch}'" for ch in text) + "]"

    def check_args(self, cname: str | None, f: str, tys: list[str]) -> None:
        want = self.sigs[(cname, f)]
        if want != tys:
            raise Unsupported(self.cur, f"call of {f}: argument types {tys}, parameters {want}")

    def compare(self, op: ast.cmpop, l: ast.expr, r: ast.expr, env: dict[str, str]) -> str:
        where = self.cur
        a, aty = self.expr(l, env)
        b, bty = self.expr(r, env)
        if isinstance(op, (ast.In, ast.NotIn)):
            if bty in STRUCTS and self.method(bty, "__contains__") is not None:
                nm, _ = self.need(bty, "__contains__")
                self.check_args(bty, "__contains__", [aty])
                t = f"({nm} {self.atom(b)} {self.atom(a)})"
                return t if isinstance(op, ast.In) else f"!{t}"
            raise Unsupported(where, f"`in` on {bty}")
        if isinstance(op, (ast.Eq, ast.NotEq)):
            if aty != bty:
                raise Unsupported(where, f"== between {aty} and {bty}")
            neg = isinstance(op, ast.NotEq)
            if aty in ("int", "bool"):
                return f"decide ({a} {'≠' if neg else '='} {b})"
            if aty in ABSTRACT:
                return f"(!({a} == {b}))" if neg else f"({a} == {b})"    # default __ne__ inverts __eq__
            if aty in STRUCTS and not self.struct_is_generic(aty):
                if self.method(aty, "__eq__") is not None or self.method(aty, "__ne__") is not None:
                    raise Unsupported(where, f"{aty} defines __eq__/__ne__")
                return f"decide ({a} {'≠' if neg else '='} {b})"
            raise Unsupported(where, f"== on {aty}")
        if type(op) in CMP:
            direct, reflected, sym = CMP[type(op)]
            if aty == "int" and bty == "int":
                return f"decide ({a} {sym} {b})"
            if aty in STRUCTS and bty in STRUCTS:
                if self.method(aty, direct) is not None:
                    nm, rty = self.need(aty, direct)
                    self.check_args(aty, direct, [bty])
                    x, y = a, b
                elif self.method(bty, reflected) is not None:
                    nm, rty = self.need(bty, reflected)
                    self.check_args(bty, reflected, [aty])
                    x, y = b, a
                else:
                    raise Unsupported(where, f"neither {aty}.{direct} nor {bty}.{reflected} is defined")
                if rty != "bool":
                    raise Unsupported(where, f"comparison method returns {rty}")
                return f"({nm} {self.atom(x)} {self.atom(y)})"
            raise Unsupported(where, f"comparison `{sym}` on {aty}, {bty}")
        raise Unsupported(where, f"comparison operator {type(op).__name__}")

    def call(self, e: ast.Call, env: dict[str, str]) -> tuple[str, str]:
        where = self.cur
        f = e.func
        if isinstance(f, ast.Name) and f.id in ("min", "max"):
            if len(e.args) != 2 or e.keywords:
                raise Unsupported(where, f"{f.id} with other than two positional arguments")
            a, aty = self.expr(e.args[0], env)
            b, bty = self.expr(e.args[1], env)
            if aty != bty:
                raise Unsupported(where, f"{f.id} on {aty}, {bty}")
            # CPython: min keeps the first on ties (replaces when item < best), max likewise (item > best)
            c = self.compare(ast.Lt() if f.id == "min" else ast.Gt(), e.args[1], e.args[0], env)
            return f"(if {c} then {b} else {a})", aty
        if isinstance(f, ast.Name) and f.id == "str" and len(e.args) == 1 and not e.keywords:
            a, aty = self.expr(e.args[0], env)
            if aty == "int":
                self.uses_intstr = True
                return f"(pyIntStr {self.atom(a)})", "str"
            if aty == "str":
                return a, "str"
            raise Unsupported(where, f"str() of {aty}")
        if isinstance(f, ast.Name) and f.id in STRUCTS:
            fs = self.struct_fields(f.id)
            vals: dict[str, tuple[str, str]] = {}
            for (n, _), arg in zip(fs, e.args):
                vals[n] = self.expr(arg, env)
            if len(e.args) > len(fs):
                raise Unsupported(where, f"too many arguments for {f.id}")
            for k in e.keywords:
                if k.arg is None or k.arg in vals:
                    raise Unsupported(where, f"bad keyword for {f.id}")
                vals[k.arg] = self.expr(k.value, env)
            items = []
            for n, t in fs:
                if n not in vals:
                    raise Unsupported(where, f"constructor {f.id} without field {n}")
                if vals[n][1] != t:
                    raise Unsupported(where, f"constructor {f.id}: field {n} gets {vals[n][1]}, wants {t}")
                items.append(f"{mangle(n)} := {vals[n][0]}")
            if set(vals) - {n for n, _ in fs}:
                raise Unsupported(where, f"constructor {f.id}: unknown fields")
            return "{ " + ", ".join(items) + " }", f.id
        if isinstance(f, ast.Name) and f.id in self.funcs:
            if e.keywords:
                raise Unsupported(where, f"keyword arguments in call of {f.id}")
            nm, rty = self.need(None, f.id)
            args = [self.expr(a, env) for a in e.args]
            self.check_args(None, f.id, [t for _, t in args])
            return "(" + " ".join([nm] + [self.atom(t) for t, _ in args]) + ")", rty
        if isinstance(f, ast.Attribute) and not self.is_super_call(e):
            o, oty = self.expr(f.value, env)
            if oty in STRUCTS and self.method(oty, f.attr) is not None and not e.keywords:
                nm, rty = self.need(oty, f.attr)
                args = [self.expr(a, env) for a in e.args]
                self.check_args(oty, f.attr, [t for _, t in args])
                return "(" + " ".join([nm, self.atom(o)] + [self.atom(t) for t, _ in args]) + ")", rty
            raise Unsupported(where, f"method call .{f.attr} on {oty}")
        raise Unsupported(where, f"call `{ast.unparse(e)}` not supported")

    # ------------------------------------------------------------------ driver
    def run(self) -> tuple[str, list[str]]:
        failures: list[str] = [f"{c}: attributes of the class are assigned outside its body" for c in self.patched]
        for s in STRUCTS:
            try:
                self.emit_struct(s)
            except Unsupported as u:
                failures.append(str(u))
        for cname, f in TARGETS:
            mark = len(self.out)
            try:
                self.need(cname, f)
            except Unsupported as u:
                del self.out[mark:]
                failures.append(f"{cname + '.' if cname else ''}{f}: {u}")
        head = ("/- GENERATED by harness/py2lean.py from src/pyoak/origin.py on every run of `./check C15`.\n"
                "   Do not edit: the theorems of Props/C15.lean are proved about exactly these definitions.\n"
                "   Every definition carries `@[grind]`, so the proofs (`grind`) unfold whatever is generated here.\n"
                "   A constructor call `C(..)` is translated to the bare record; the validation done by `C.__post_init__`\n"
                "   is the generated `C.valid`, applied by the hand-written callers (Model/Origin.lean). -/\n"
                "namespace PyOak.Gen\n")
        if self.uses_intstr:
            head += ("\n/-- Python `str(i)` / `f\"{i}\"` for an int: decimal digits, a leading `-` for negatives -/\n"
                     "def pyIntStr (i : Int) : List Char := (toString i).toList\n")
        return head + "\n" + "\n\n".join(self.out) + "\n\nend PyOak.Gen\n", failures


def translate(source: str) -> tuple[str, list[str]]:
    return Translator(source).run()


def regenerate(repo: Path, lean: Path) -> list[str]:
    """(re)write lean/PyOak/Gen/Origin.lean from repo/src/pyoak/origin.py; returns the translation failures"""
    src = (Path(repo) / "src" / "pyoak" / "origin.py").read_text()
    try:
        text, failures = translate(src)
    except SyntaxError as e:
        return [f"origin.py: not parseable: {e}"]
    if failures:
        return failures      # keep the last good file so that everything else still builds
    target = Path(lean) / "PyOak" / "Gen" / "Origin.lean"
    target.parent.mkdir(parents=True, exist_ok=True)
    if not target.exists() or target.read_text() != text:
        target.write_text(text)
    return []


if __name__ == "__main__":
    import sys
    t, fl = translate(Path(sys.argv[1]).read_text())
    sys.stdout.write(t)
    for x in fl:
        print("-- FAILED:", x)
