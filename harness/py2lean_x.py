"""Sibling of py2lean_v.py: regenerates lean/PyOak/Gen/KernelsFindall.lean from `ASTXpath.findall`
(src/pyoak/match/xpath.py).  Same store-passing scheme as py2lean_v (a `for` loop is a `foldl` over the tuple of the
locals its body re-binds), with the idioms `findall` needs on top: a `dict[K, None]` used as an insertion-ordered set,
a local that is bound only inside a loop (UnboundLocalError when the loop runs zero times), `is` against a local object,
the two NamedTuples `_NodeTraversalInfo` / `NodeTraversalInfo` as one record with Optional fields.  Everything else raises
`Unsupported` (the caller then falls back on the correspondence and says so)."""
from __future__ import annotations

import ast
from pathlib import Path

from py2lean_k import Unsupported

IDIOMS = [
    ("_DUMMY_XPATH_ROOT(x)", "py.dummy_root x   -- a fresh node object whose only child is x (field `child`, no index)"),
    ("a is b   (a : Optional node, b a local node object)", "match a with | none => false | some a' => py.is_ a' b   -- object identity"),
    ("x.dfs()   (no arguments; fully consumed)", "py.dfs x : List (NodeTraversalInfo N)   -- tied to the generated `dfs` by C05 (dfs_defaults_eq_gen)"),
    ("x.get_child_nodes_with_field()", "py.child_items x : List (N × FieldR × Option Int)   -- as in KernelsTraverse (tied in C12)"),
    ("NodeTraversalInfo(c, p, f, i) / _NodeTraversalInfo(c, None, None, None)", "{ node := c, parent := some p / none, field := some f / none, findex := i / none }   -- one record, Optional fields"),
    ("{k: None} / {}   (dict[K, None] as an ordered set)", "[k] / []   -- the keys in insertion order"),
    ("k not in d", "!(d.any (fun k' => py.key_eq k' k))   -- hash + `==` of the NamedTuple keys"),
    ("d[k] = None   (only under `if k not in d`, checked)", "let d := d ++ [k]"),
    ("for k in d / d.keys()", "the list d"),
    ("map(f, e) / [E for x in e]", "e.map f / e.map (fun x => E)"),
    ("for T in e: BODY   (BODY re-binds vs)", "let vs := e.foldl (fun vs T => BODY; vs) vs"),
    ("v bound only inside a loop body, read after the loop", "the loop threads `v : Option _` (none = unbound); the first statement reading it: match v with | none => raise UnboundLocalError | some v => .."),
    ("_match_node_element(i, el) / el.anywhere / self._elements", "elem_ok i el / anywhere el / elements   -- parameters (the element test is generated and bridged separately: matchElem_eq_gen)"),
    ("def f(x): if c: return a; return b   (nested)", "let f := fun x => if c then a else b"),
    ("yield from [..]   (last statement)", "(the list, none) : List N × Option Err"),
]

REC = "NodeTraversalInfo N"


class Tr:
    def __init__(self, fn: ast.FunctionDef):
        self.fn = fn
        self.bound: set[str] = set()
        self.dicts: set[str] = set()
        self.optional: set[str] = set()
        self.closures: set[str] = set()
        self.n = 0

    def bad(self, node, why):
        raise Unsupported(f"ASTXpath.findall line {getattr(node, 'lineno', '?')}", why)

    # ---- expressions
    def expr(self, e) -> str:
        if isinstance(e, ast.Name):
            if e.id in self.optional:
                self.bad(e, f"`{e.id}` may be unbound here")
            if e.id not in self.bound:
                self.bad(e, f"unknown name `{e.id}`")
            return e.id
        if isinstance(e, ast.Constant) and e.value is None:
            return "none"
        if isinstance(e, ast.Attribute):
            if isinstance(e.value, ast.Name) and e.value.id == "self":
                if e.attr == "_elements":
                    return "elements"
                self.bad(e, f"self.{e.attr}")
            if e.attr in ("node", "parent", "field", "findex"):
                return f"{self.expr(e.value)}.{e.attr}"
            if e.attr == "anywhere":
                return f"(anywhere {self.expr(e.value)})"
            self.bad(e, f"attribute .{e.attr}")
        if isinstance(e, ast.Dict):
            if not all(isinstance(v, ast.Constant) and v.value is None for v in e.values):
                self.bad(e, "dict with values other than None")
            return "[" + ", ".join(self.expr(k) for k in e.keys) + "]"
        if isinstance(e, ast.ListComp):
            if len(e.generators) != 1 or e.generators[0].ifs or not isinstance(e.generators[0].target, ast.Name):
                self.bad(e, "comprehension shape")
            g = e.generators[0]
            it = self.iter_(g.iter)
            self.bound.add(g.target.id)
            body = self.expr(e.elt)
            self.bound.discard(g.target.id)
            return f"(({it}).map (fun {g.target.id} => {body}))"
        if isinstance(e, ast.Compare) and len(e.ops) == 1:
            l, r = e.left, e.comparators[0]
            if isinstance(e.ops[0], ast.Is) and isinstance(l, ast.Attribute) and l.attr == "parent" and isinstance(r, ast.Name):
                self.n += 1
                return f"(match {self.expr(l)} with | none => false | some p_{self.n} => py.is_ p_{self.n} {self.expr(r)})"
            if isinstance(e.ops[0], ast.NotIn) and isinstance(r, ast.Name) and r.id in self.dicts:
                self.n += 1
                return f"(!({self.expr(r)}.any (fun k_{self.n} => py.key_eq k_{self.n} {self.expr(l)})))"
            if isinstance(e.ops[0], ast.In) and isinstance(r, ast.Name) and r.id in self.dicts:
                self.n += 1
                return f"({self.expr(r)}.any (fun k_{self.n} => py.key_eq k_{self.n} {self.expr(l)}))"
            self.bad(e, "comparison")
        if isinstance(e, ast.UnaryOp) and isinstance(e.op, ast.Not):
            return f"(!{self.expr(e.operand)})"
        if isinstance(e, ast.Call):
            return self.call(e)
        self.bad(e, type(e).__name__)

    def call(self, e: ast.Call) -> str:
        if e.keywords:
            self.bad(e, "keyword arguments")
        f = e.func
        if isinstance(f, ast.Name):
            a = e.args
            if f.id == "_DUMMY_XPATH_ROOT" and len(a) == 1:
                return f"(py.dummy_root {self.expr(a[0])})"
            if f.id == "_match_node_element" and len(a) == 2:
                return f"(elem_ok {self.expr(a[0])} {self.expr(a[1])})"
            if f.id == "NodeTraversalInfo" and len(a) == 4:
                n, p, fl, i = (self.expr(x) for x in a)
                if "none" in (n, p, fl):
                    self.bad(e, "None in a non-Optional field of NodeTraversalInfo")
                return f"({{ node := {n}, parent := some {p}, field := some {fl}, findex := {i} }} : {REC})"
            if f.id == "_NodeTraversalInfo" and len(a) == 4:
                n = self.expr(a[0])
                if not all(isinstance(x, ast.Constant) and x.value is None for x in a[1:]):
                    self.bad(e, "_NodeTraversalInfo with a parent / field / index (only the root position is translated)")
                return f"({{ node := {n}, parent := none, field := none, findex := none }} : {REC})"
            if f.id in self.closures and len(a) == 1:
                return f"({f.id} {self.expr(a[0])})"
            if f.id == "map" and len(a) == 2 and isinstance(a[0], ast.Name) and a[0].id in self.closures:
                return f"(({self.iter_(a[1])}).map {a[0].id})"
            if f.id == "list" and len(a) == 1:
                return self.iter_(a[0])
        self.bad(e, "call")

    def iter_(self, e) -> str:
        """an iterable that is consumed completely, as a list"""
        if isinstance(e, ast.Name) and e.id in self.dicts:
            return self.expr(e)
        if isinstance(e, ast.Attribute) and e.attr == "_elements":
            return self.expr(e)
        if isinstance(e, ast.Call) and isinstance(e.func, ast.Attribute) and not e.args and not e.keywords:
            m, o = e.func.attr, e.func.value
            if m == "keys" and isinstance(o, ast.Name) and o.id in self.dicts:
                return self.expr(o)
            if m == "dfs":
                return f"(py.dfs {self.expr(o)})"
            if m == "get_child_nodes_with_field":
                return f"(py.child_items {self.expr(o)})"
        if isinstance(e, ast.Call) and isinstance(e.func, ast.Name) and e.func.id in ("map", "list"):
            return self.call(e)
        if isinstance(e, ast.ListComp):
            return self.expr(e)
        self.bad(e, "iterable")

    # ---- statements
    def mutated(self, stmts) -> list[str]:
        out: list[str] = []
        for s in stmts:
            for n in ast.walk(s):
                t = None
                if isinstance(n, (ast.Assign, ast.AnnAssign)):
                    tg = n.targets[0] if isinstance(n, ast.Assign) else n.target
                    t = tg.id if isinstance(tg, ast.Name) else tg.value.id if isinstance(tg, ast.Subscript) and isinstance(tg.value, ast.Name) else None
                if t and t not in out:
                    out.append(t)
        return out

    def tup(self, vs, wrap=()):
        xs = [f"some {v}" if v in wrap else v for v in vs]
        return xs[0] if len(xs) == 1 else "(" + ", ".join(xs) + ")"

    def reads(self, s, v) -> bool:
        return any(isinstance(n, ast.Name) and n.id == v and isinstance(n.ctx, ast.Load) for n in ast.walk(s))

    def block(self, stmts, tail: str | None, guard: ast.expr | None = None) -> str:
        """`tail`: the value of the block when it falls through (None: the method body, which must end in `yield from`)"""
        if not stmts:
            if tail is None:
                self.bad(self.fn, "the method does not end in `yield from [..]`")
            return tail
        s, rest = stmts[0], stmts[1:]
        for v in sorted(self.optional):
            if self.reads(s, v):
                if tail is not None:
                    self.bad(s, f"`{v}` may be unbound inside a loop")
                self.optional.discard(v)
                return f"(match {v} with\n    | none => ([], some Err.UnboundLocalError)\n    | some {v} =>\n    {self.block(stmts, tail)})"
        if isinstance(s, ast.Expr) and isinstance(s.value, ast.Constant):
            return self.block(rest, tail)
        if isinstance(s, ast.Expr) and isinstance(s.value, ast.YieldFrom):
            if tail is not None or rest:
                self.bad(s, "`yield from` not in tail position")
            return f"({self.iter_or_list(s.value.value)}, none)"
        if isinstance(s, (ast.Assign, ast.AnnAssign)):
            tg = s.targets[0] if isinstance(s, ast.Assign) else s.target
            if isinstance(s, ast.Assign) and len(s.targets) != 1:
                self.bad(s, "multiple targets")
            if isinstance(tg, ast.Subscript) and isinstance(tg.value, ast.Name) and tg.value.id in self.dicts:
                d = tg.value.id
                if not (isinstance(s.value, ast.Constant) and s.value.value is None):
                    self.bad(s, "dict value other than None")
                want = ast.dump(ast.Compare(left=tg.slice, ops=[ast.NotIn()], comparators=[ast.Name(id=d, ctx=ast.Load())]))
                if guard is None or ast.dump(guard) != want:
                    self.bad(s, f"`{d}[k] = None` not directly under `if k not in {d}` (re-insertion keeps the old position; not translated)")
                return f"(let {d} := {d} ++ [{self.expr(tg.slice)}];\n    {self.block(rest, tail)})"
            if not isinstance(tg, ast.Name):
                self.bad(s, "assignment target")
            v = s.value
            val = self.expr(v)
            ann = ""
            if isinstance(v, ast.Dict):
                self.dicts.add(tg.id)
                ann = f" : List ({REC})"
            elif isinstance(v, ast.Name) and v.id in self.dicts:
                self.dicts.add(tg.id)
            else:
                self.dicts.discard(tg.id)
            self.bound.add(tg.id)
            self.optional.discard(tg.id)
            return f"(let {tg.id}{ann} := {val};\n    {self.block(rest, tail)})"
        if isinstance(s, ast.FunctionDef):
            b = [x for x in s.body if not (isinstance(x, ast.Expr) and isinstance(x.value, ast.Constant))]
            if not (len(s.args.args) == 1 and len(b) == 2 and isinstance(b[0], ast.If) and not b[0].orelse and len(b[0].body) == 1
                    and isinstance(b[0].body[0], ast.Return) and isinstance(b[1], ast.Return)):
                self.bad(s, "nested function shape")
            x = s.args.args[0].arg
            self.bound.add(x)
            body = f"(if {self.expr(b[0].test)} then {self.expr(b[0].body[0].value)} else {self.expr(b[1].value)})"
            self.bound.discard(x)
            self.closures.add(s.name)
            return f"(let {s.name} := fun ({x} : {REC}) => {body};\n    {self.block(rest, tail)})"
        if isinstance(s, ast.If):
            vs = [v for v in self.mutated([s]) if v in self.bound]
            if not vs:
                self.bad(s, "`if` without effect")
            t = self.tup(vs)
            snap = (set(self.bound), set(self.dicts))
            a = self.block(s.body, t, guard=s.test)
            self.bound, self.dicts = set(snap[0]), set(snap[1])
            b = self.block(s.orelse, t)
            self.bound, self.dicts = snap
            return f"(let {t} := (if {self.expr(s.test)} then {a}\n    else {b});\n    {self.block(rest, tail)})"
        if isinstance(s, ast.For):
            if s.orelse:
                self.bad(s, "for-else")
            it = self.iter_(s.iter)
            if isinstance(s.target, ast.Name):
                pat, names = s.target.id, [s.target.id]
            elif isinstance(s.target, ast.Tuple) and all(isinstance(x, ast.Name) for x in s.target.elts):
                names = [x.id for x in s.target.elts]
                pat = "(" + ", ".join(names) + ")"
            else:
                self.bad(s, "loop target")
            vs = self.mutated(s.body)
            fresh = [v for v in vs if v not in self.bound]
            # temporaries of the body (never read after the loop) are not part of the store
            dead = [v for v in fresh if not any(self.reads(r, v) for r in rest)]
            vs, fresh = [v for v in vs if v not in dead], [v for v in fresh if v not in dead]
            if tail is not None:
                # temporaries of a nested loop body: not part of the store (reading one after the loop is an unknown name)
                vs, fresh = [v for v in vs if v in self.bound], []
            if not vs:
                self.bad(s, "loop without effect")
            snap = (set(self.bound), set(self.dicts))
            self.bound |= set(names)
            body = self.block(s.body, self.tup(vs, wrap=fresh))
            dicts_after = set(self.dicts)
            self.bound, self.dicts = snap
            for v in fresh:
                if v not in dicts_after:
                    self.bad(s, f"`{v}` is first bound inside the loop and is not a dict")
            none = f"(none : Option (List ({REC})))"
            init = "(" + ", ".join(none if v in fresh else v for v in vs) + ")" if len(vs) > 1 else (none if vs[0] in fresh else vs[0])
            for v in fresh:
                self.bound.add(v)
                self.optional.add(v)
                if v in dicts_after:
                    self.dicts.add(v)
            t = self.tup(vs)
            return f"(match ({it}).foldl (fun {t} {pat} => {body}) {init} with\n    | {t} =>\n    {self.block(rest, tail)})"
        self.bad(s, type(s).__name__)

    def iter_or_list(self, e) -> str:
        return self.expr(e) if isinstance(e, ast.ListComp) else self.iter_(e)


HEADER = """/- GENERATED by harness/py2lean_x.py from `ASTXpath.findall` (src/pyoak/match/xpath.py) on every run of `./check C07`.
   Do not edit: Props/GenBridgeFindall.lean proves the hand-written model (`findStep`, `findFirst`, `findallPos`, `findall` of
   Model/XPath.lean) equal to exactly this definition (an OPTIONAL obligation, see harness/kernels_tie.py).

   Python idiom -> primitive (the trusted base of this translation):
%s
-/
import PyOak.Gen.Kernels
set_option linter.unusedVariables false
namespace PyOak.GenF
open PyOak PyOak.GenK

/-- reading `new_work` after a loop over an empty `_elements` (no parsed xpath has none) -/
inductive Err where
  | UnboundLocalError
  deriving DecidableEq, Repr

/-- what the translation assumes about node objects -/
structure Py (N : Type) where
  /-- `_DUMMY_XPATH_ROOT(x)` -/
  dummy_root : N → N
  /-- `a is b` -/
  is_ : N → N → Bool
  /-- `list(x.get_child_nodes_with_field())` -/
  child_items : N → List (N × FieldR × Option Int)
  /-- `list(x.dfs())` -/
  dfs : N → List (NodeTraversalInfo N)
  /-- `==` of two `_NodeTraversalInfo | NodeTraversalInfo` (dict keys) -/
  key_eq : NodeTraversalInfo N → NodeTraversalInfo N → Bool

"""


def generate_findall(src: Path) -> str:
    path = Path(src) / "pyoak" / "match" / "xpath.py"
    mod = ast.parse(path.read_text())
    cls = next((c for c in mod.body if isinstance(c, ast.ClassDef) and c.name == "ASTXpath"), None)
    if cls is None:
        raise Unsupported("pyoak/match/xpath.py", "class ASTXpath not found")
    fn = next((f for f in cls.body if isinstance(f, ast.FunctionDef) and f.name == "findall"), None)
    if fn is None:
        raise Unsupported("class ASTXpath", "method findall not found")
    if fn.decorator_list or [a.arg for a in fn.args.args] != ["self", "root"] or fn.args.vararg or fn.args.kwarg or fn.args.kwonlyargs:
        raise Unsupported("ASTXpath.findall", "signature")
    tr = Tr(fn)
    tr.bound = {"root"}
    body = tr.block(fn.body, None)
    idioms = "\n".join(f"     {a.ljust(74)} ->  {b}" for a, b in IDIOMS)
    out = HEADER % idioms
    out += (f"/-- `ASTXpath.findall` (src/pyoak/match/xpath.py line {fn.lineno}): the yielded nodes and the exception (if any) -/\n"
            f"def findall {{N E : Type}} (py : Py N) (elem_ok : {REC} → E → Bool) (anywhere : E → Bool) (elements : List E) (root : N) :\n"
            f"    List N × Option Err :=\n  {body}\n\nend PyOak.GenF\n")
    return out


if __name__ == "__main__":
    import sys
    print(generate_findall(Path(sys.argv[1] if len(sys.argv) > 1 else "/repo/src")))
