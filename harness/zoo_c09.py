"""Extra node classes for C09 (dispatch): deeper subclass chains, so that "nearest class in the MRO
that has a method" has several candidates."""
from __future__ import annotations

from dataclasses import dataclass

import zoo


@dataclass(frozen=True)
class Leaf3(zoo.Leaf2):
    w: int = 0


@dataclass(frozen=True)
class Leaf4(Leaf3):
    pass


@dataclass(frozen=True)
class SubBin(zoo.Bin):
    pass


@dataclass(frozen=True)
class SubTup(zoo.Tup):
    k: int = 0


DISPATCH_CLASSES = zoo.ALL_CLASSES + [Leaf3, Leaf4, SubBin, SubTup]


def sample(cls):
    """an instance of every dispatch class"""
    L = zoo.Leaf
    if cls in (zoo.Un, zoo.UnPlus):
        return cls(L(v=1))
    if cls in (zoo.Bin, SubBin):
        return cls(L(v=1), L(v=2))
    if cls is zoo.Fix2:
        return cls((L(v=1), L(v=2)))
    if cls is zoo.Mixed:
        return cls(L(v=1), (L(v=2),))
    if cls is zoo.MixedR:
        return cls((L(v=2),), L(v=1))
    return cls()
