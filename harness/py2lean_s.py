"""py2lean_s — Python-AST -> Lean 4 translator for the option-slot wrappers of src/pyoak/serialize.py; sibling of
py2lean_r.py (same conventions: module/class-level state THREADED, `Except` results, idiom table printed into the generated
file, `Unsupported` outside the subset -- never a silent skip).

Regenerated on every run of `./check C16` from the tree under examination into lean/PyOak/Gen/KernelsSerOpts.lean:

  DataClassSerializeMixin.as_dict   (method)        -> GenS.as_dict
  DataClassSerializeMixin.as_obj    (classmethod)   -> GenS.as_obj

Props/GenBridgeSerOpts.lean proves the explicit try/finally model (Model/SerOptsF.lean: `tryFin body resetM (enter g c)`,
hence `callF`) equal to the generated definitions, for every body -- an OPTIONAL obligation of C16
(harness/kernels_tie.py: `optional_seropts`).

State = the two private class attributes of DataClassSerializeMixin (`St D Dia`: the options dict, the dialect as `Option`).
Every generated function takes the state and returns (outcome, state AT THE EXIT POINT).  The one call inside the `try:`
(`self._serialize()` / `cls._deserialize(value)`) is OPAQUE: a function parameter `St -> Except E R × St` -- it may read the
slots, write them, and raise.

Accepted subset (statements of the two methods, after the docstring):

  stmt ::= `if p is not None: slot*`  (p an Optional parameter, no else)      | slot
         | `x = <opaque call>` | `return <opaque call>` | `return x` (x bound by an earlier `x = <opaque call>`)
         | `try: stmt* finally: slot*`   (no except / else clause; the finally block only assigns slots: it neither raises
                                          nor returns, so the outcome of the statement is the outcome of the try block)
  slot ::= `DataClassSerializeMixin.__serialization_options.update(p)`        (p a narrowed parameter)
         | `DataClassSerializeMixin.__serialization_options = {}`
         | `DataClassSerializeMixin.__mashumaro_dialect = p | None`
  opaque call ::= `self._serialize()` | `cls._deserialize(value)`

Any other in-place mutation of the options dict (`.clear()`, `.pop(..)`, `[k] = v`) is REJECTED: the translation reads the
dict as a value, which is sound for `.update` + rebinding only as long as nothing else mutates an aliased object.
A path that falls off the end of a method is rejected.

THE PRIMITIVE TABLE is `PRIMITIVES` below together with the fixed prelude `HEADER`; both are part of the trusted base of the
tie and are printed into the generated file.
"""
from __future__ import annotations

import ast
from pathlib import Path

from py2lean_k import Unsupported

CLS = "DataClassSerializeMixin"
OPTS, DIA = "__serialization_options", "__mashumaro_dialect"
OPAQUE = {("self", "_serialize"), ("cls", "_deserialize")}

PRIMITIVES = [
    (f"{CLS}.{OPTS}, {CLS}.{DIA}   (class attributes)",
     "st : St D Dia, threaded: parameter of every function, returned (state at the exit point) next to the outcome"),
    (f"{CLS}.{OPTS}.update(p)", "st := { st with serialization_options := py.update st.serialization_options p }"),
    (f"{CLS}.{OPTS} = {{}}", "st := { st with serialization_options := py.empty }"),
    (f"{CLS}.{DIA} = p / = None", "st := { st with mashumaro_dialect := p } / := none"),
    ("if p is not None: ..   (p an Optional parameter)", "match p with | none => st | some p => .."),
    ("self._serialize() / cls._deserialize(value)   (opaque)",
     "parameter `_serialize : St D Dia → Except E R × St D Dia` / `_deserialize : V → St D Dia → Except E R × St D Dia`; "
     "a raise is the `.error e` outcome, with the state at the raise"),
    ("try: B finally: F   (F assigns slots only)",
     "let fin_i := fun st => (st after F); B with EVERY exit of B (raise, return, falling through) passing its state "
     "through fin_i; a raise stays a raise, a return stays a return"),
    ("x = <opaque call> / return <opaque call> / return x", "match call st with | (.error e, st) => raise | (.ok x, st) => .."),
]

HEADER = """namespace PyOak.GenS
set_option linter.unusedVariables false

/-- the two class-level slots of `DataClassSerializeMixin` -/
structure St (D Dia : Type) where
  serialization_options : D
  mashumaro_dialect : Option Dia

/-- what the translation assumes of `dict`: `d.update(e)` as a value, and the literal `{}` -/
structure Py (D : Type) where
  update : D → D → D
  empty : D
"""


class SerTr:
    def __init__(self, src: Path):
        self.path = Path(src) / "pyoak" / "serialize.py"
        self.mod = ast.parse(self.path.read_text(), str(self.path))
        cs = [s for s in self.mod.body if isinstance(s, ast.ClassDef) and s.name == CLS]
        if len(cs) != 1:
            raise Unsupported(CLS, "class not found")
        self.cls = cs[0]
        self.where = CLS
        self.nfin = 0

    def bad(self, node, why=""):
        try:
            src = ast.unparse(node)
        except Exception:  # pragma: no cover
            src = "?"
        raise Unsupported(self.where, f"{why or 'construct'} (line {getattr(node, 'lineno', '?')}): {src}"[:300])

    # ---- slots
    def slot_attr(self, e):
        """`DataClassSerializeMixin.__x` -> field name, else None"""
        if isinstance(e, ast.Attribute) and isinstance(e.value, ast.Name) and e.value.id == CLS and e.attr in (OPTS, DIA):
            return e.attr
        return None

    def slot_stmt(self, s, env) -> str | None:
        """one slot statement -> the Lean term of the new state (over `st`), None if `s` is not a slot statement"""
        if isinstance(s, ast.Expr) and isinstance(s.value, ast.Call) and isinstance(s.value.func, ast.Attribute):
            f = s.value.func
            if self.slot_attr(f.value) is not None:
                if self.slot_attr(f.value) == OPTS and f.attr == "update" and len(s.value.args) == 1 and not s.value.keywords:
                    a = s.value.args[0]
                    if isinstance(a, ast.Name) and env.get(a.id) == "D":
                        return f"{{ st with serialization_options := py.update st.serialization_options {a.id} }}"
                    self.bad(s, "argument of .update must be a parameter narrowed by `is not None`")
                self.bad(s, "in-place mutation of a slot other than `.update(p)` (aliasing is not modelled)")
        if isinstance(s, ast.Assign) and len(s.targets) == 1 and self.slot_attr(s.targets[0]) is not None:
            slot, v = self.slot_attr(s.targets[0]), s.value
            if slot == OPTS:
                if isinstance(v, ast.Dict) and not v.keys:
                    return "{ st with serialization_options := py.empty }"
                self.bad(s, "the options slot may only be rebound to `{}`")
            if isinstance(v, ast.Constant) and v.value is None:
                return "{ st with mashumaro_dialect := none }"
            if isinstance(v, ast.Name) and env.get(v.id) == "?Dia":
                return f"{{ st with mashumaro_dialect := {v.id} }}"
            self.bad(s, "the dialect slot may only be assigned an Optional dialect parameter or None")
        if isinstance(s, (ast.Assign, ast.AugAssign, ast.Delete)):
            for t in ast.walk(s):
                if self.slot_attr(t) is not None:
                    self.bad(s, "unsupported write to a slot")
        return None

    def opaque(self, e, env) -> str | None:
        if isinstance(e, ast.Call) and isinstance(e.func, ast.Attribute) and isinstance(e.func.value, ast.Name) \
                and (e.func.value.id, e.func.attr) in OPAQUE and env.get(e.func.value.id) == "recv" and not e.keywords:
            args = []
            for a in e.args:
                if not (isinstance(a, ast.Name) and env.get(a.id) == "V"):
                    self.bad(e, "argument of the opaque call must be the value parameter")
                args.append(a.id)
            want = 0 if e.func.attr == "_serialize" else 1
            if len(args) != want:
                self.bad(e, "arity of the opaque call")
            self.used.add(e.func.attr)
            return " ".join([e.func.attr] + args + ["st"])
        return None

    # ---- blocks.  `fins`: the enclosing finally functions, innermost last; every exit applies them innermost first
    def exit_state(self, fins) -> str:
        t = "st"
        for f in reversed(fins):
            t = f"{f} ({t})" if t != "st" else f"{f} st"
        return t

    def block(self, stmts, env, fins, ind, rest) -> list[str]:
        """`stmts` followed by the continuation `rest` (a list of (stmts, fins) frames to run when this block falls through)"""
        p = "  " * ind
        if not stmts:
            if not rest:
                raise Unsupported(self.where, "a path falls off the end of the method (implicit `return None`)")
            (nstmts, nfins), rest2 = rest[0], rest[1:]
            # leaving a try block normally: run its finally (the frames dropped between fins and nfins)
            out = []
            for f in reversed(fins[len(nfins):]):
                out.append(f"{p}let st : St D Dia := {f} st")
            return out + self.block(nstmts, env, nfins, ind, rest2)
        s, tail = stmts[0], stmts[1:]
        if isinstance(s, ast.Pass) or (isinstance(s, ast.Expr) and isinstance(s.value, ast.Constant) and isinstance(s.value.value, str)):
            return self.block(tail, env, fins, ind, rest)
        new = self.slot_stmt(s, env)
        if new is not None:
            return [f"{p}let st : St D Dia := {new}"] + self.block(tail, env, fins, ind, rest)
        if isinstance(s, ast.If):
            t = s.test
            if (isinstance(t, ast.Compare) and len(t.ops) == 1 and isinstance(t.ops[0], ast.IsNot) and isinstance(t.left, ast.Name)
                    and isinstance(t.comparators[0], ast.Constant) and t.comparators[0].value is None
                    and env.get(t.left.id, "").startswith("?") and not s.orelse):
                x = t.left.id
                env2 = dict(env)
                env2[x] = env[x][1:]
                out = [f"{p}let st : St D Dia := match {x} with", f"{p}  | none => st", f"{p}  | some {x} =>"]
                for b in s.body:
                    if isinstance(b, ast.Pass):
                        continue
                    new = self.slot_stmt(b, env2)
                    if new is None:
                        self.bad(b, "only slot assignments are accepted under `if p is not None:`")
                    out.append(f"{p}    let st : St D Dia := {new}")
                out.append(f"{p}    st")
                return out + self.block(tail, env, fins, ind, rest)
            self.bad(s, "only `if <Optional parameter> is not None:` without else")
        if isinstance(s, ast.Try):
            if s.handlers or s.orelse or not s.finalbody:
                self.bad(s, "only try/finally without except/else")
            self.nfin += 1
            fn = f"fin_{self.nfin}"
            out = [f"{p}let {fn} : St D Dia → St D Dia := fun st =>"]
            for b in s.finalbody:
                if isinstance(b, ast.Pass):
                    continue
                new = self.slot_stmt(b, env)
                if new is None:
                    self.bad(b, "only slot assignments are accepted in a finally block")
                out.append(f"{p}  let st : St D Dia := {new}")
            out.append(f"{p}  st")
            return out + self.block(s.body, env, fins + [fn], ind, [(tail, fins)] + rest)
        if isinstance(s, ast.Assign) and len(s.targets) == 1 and isinstance(s.targets[0], ast.Name):
            call = self.opaque(s.value, env)
            if call is None:
                self.bad(s, "only `x = <opaque call>`")
            x = s.targets[0].id
            env2 = dict(env)
            env2[x] = "R"
            return ([f"{p}match {call} with", f"{p}| (.error e, st) => (.error e, {self.exit_state(fins)})", f"{p}| (.ok {x}, st) =>"]
                    + self.block(tail, env2, fins, ind + 1, rest))
        if isinstance(s, ast.Return):
            if s.value is not None and isinstance(s.value, ast.Name) and env.get(s.value.id) == "R":
                return [f"{p}(.ok {s.value.id}, {self.exit_state(fins)})"]
            call = self.opaque(s.value, env) if s.value is not None else None
            if call is None:
                self.bad(s, "only `return <opaque call>` / `return x`")
            return [f"{p}match {call} with", f"{p}| (.error e, st) => (.error e, {self.exit_state(fins)})",
                    f"{p}| (.ok v_ret, st) => (.ok v_ret, {self.exit_state(fins)})"]
        self.bad(s)

    def method(self, name: str) -> str:
        fds = [s for s in self.cls.body if isinstance(s, ast.FunctionDef) and s.name == name]
        if len(fds) != 1:
            raise Unsupported(f"{CLS}.{name}", "method not found (or defined twice)")
        fd = fds[0]
        self.where, self.nfin, self.used = f"{CLS}.{name}", 0, set()
        decos = [ast.unparse(d) for d in fd.decorator_list]
        if decos not in ([], ["classmethod"]):
            self.bad(fd.decorator_list[0], "decorator")
        a = fd.args
        if a.vararg or a.kwarg or a.posonlyargs:
            self.bad(fd, "*args / **kwargs / positional-only parameters")
        params = a.args + a.kwonlyargs
        if not params or params[0].arg != ("cls" if decos else "self"):
            self.bad(fd, "receiver")
        env, sig = {params[0].arg: "recv"}, []
        for prm in params[1:]:
            ann = ast.unparse(prm.annotation) if prm.annotation is not None else ""
            if prm.arg == "mashumaro_dialect" and ann == "Type[Dialect] | None":
                env[prm.arg] = "?Dia"
                sig.append(f"({prm.arg} : Option Dia)")
            elif prm.arg == "serialization_options" and ann == "dict[str, Any] | None":
                env[prm.arg] = "?D"
                sig.append(f"({prm.arg} : Option D)")
            elif prm.arg == "value" and ann == "dict[str, Any]":
                env[prm.arg] = "V"
                sig.append(f"({prm.arg} : V)")
            else:
                self.bad(prm, "parameter / annotation")
        body = self.block(fd.body, env, [], 1, [])
        opaque_sig = []
        if "_serialize" in self.used:
            opaque_sig.append("(_serialize : St D Dia → Except E R × St D Dia)")
        if "_deserialize" in self.used:
            opaque_sig.append("(_deserialize : V → St D Dia → Except E R × St D Dia)")
        head = (f"/-- `{CLS}.{name}` (src/pyoak/serialize.py:{fd.lineno}) -/\n"
                f"def {name} {{D Dia {'V ' if 'V' in env.values() else ''}E R : Type}} (py : Py D) " + " ".join(opaque_sig) + "\n"
                f"    (st : St D Dia) " + " ".join(sig) + " : Except E R × St D Dia :=\n")
        return head + "\n".join(body) + "\n"

    def generate(self) -> str:
        w = max(len(a) for a, _ in PRIMITIVES)
        table = "\n".join(f"     {a.ljust(w)}  ->  {b}" for a, b in PRIMITIVES)
        out = ("/- GENERATED by harness/py2lean_s.py from DataClassSerializeMixin.as_dict / as_obj of src/pyoak/serialize.py on every\n"
               "   run of `./check C16`.  Do not edit: Props/GenBridgeSerOpts.lean proves the explicit try/finally model\n"
               "   (Model/SerOptsF.lean) equal to exactly these definitions (an OPTIONAL obligation, see harness/kernels_tie.py).\n\n"
               "   Python idiom -> primitive (the trusted base of this translation):\n" + table + "\n-/\n" + HEADER + "\n")
        out += self.method("as_dict") + "\n" + self.method("as_obj") + "\nend PyOak.GenS\n"
        return out


def generate_seropts(src: Path) -> str:
    return SerTr(Path(src)).generate()


if __name__ == "__main__":
    import sys
    print(generate_seropts(Path(sys.argv[1] if len(sys.argv) > 1 else "/repo/src")))
