"""Extra classes and the harness' own description of serializable objects for C16
(scope of serialization options).  `zoo.py` is imported read-only.

* `HashInts`   a user mashumaro dialect that writes every `int`-annotated value as "#<n>"
* `Boom`       a property value (mashumaro `SerializableType`) whose serialization raises when armed
* `Risky`      a node class with a `Boom` property (failure injection at any nested node position)
* `BoomSource` a source class with a `Boom` field (failure injection below an origin)
* `Probe`      a node class whose `__pre_deserialize__` hook records the options / dialect it sees
* `Upper`, `UpperSource`, `UpperPos`   a node / source / position class whose property AND child field names
               sort *before* the type tag key "__type" (upper-case names, "_<digit>" names): "tag first" is
               then not a consequence of sorting the whole mapping
"""
from __future__ import annotations

import dataclasses
import enum
import json
import re
from dataclasses import dataclass
from pathlib import Path

from mashumaro.dialect import Dialect
from mashumaro.types import SerializableType

from pyoak.node import ASTNode
from pyoak.origin import (
    NO_ORIGIN,
    CodeOrigin,
    CodePoint,
    NoOrigin,
    NoPosition,
    NoSource,
    Origin,
    Position,
    Source,
    get_code_range,
)
from pyoak.serialize import DataClassSerializeMixin

from proto import A
import zoo


def _ser_int(x: int) -> str:
    return f"#{x}"


def _de_int(s) -> int:
    return int(s[1:])


class HashInts(Dialect):
    serialization_strategy = {int: {"serialize": _ser_int, "deserialize": _de_int}}  # noqa: RUF012


@dataclass(frozen=True)
class Boom(SerializableType):
    armed: bool = False

    def _serialize(self):
        if self.armed:
            raise RuntimeError("boom")
        return "boom"

    @classmethod
    def _deserialize(cls, v):
        return Boom(False)


@dataclass(frozen=True)
class Risky(zoo.Expr):
    b: Boom = Boom()
    c: zoo.Expr | None = None


PROBE_LOG: list = []


@dataclass(frozen=True)
class Probe(zoo.Expr):
    n: int = 0
    c: zoo.Expr | None = None

    @classmethod
    def __pre_deserialize__(cls, d):
        PROBE_LOG.append((dict(cls._get_deserialization_options()),
                          cls._get_deserialization_mashumaro_dialect()))
        return d


@dataclass(frozen=True)
class BoomSource(Source):
    b: Boom = Boom()


@dataclass(frozen=True)
class UpperSource(Source):
    KIND: str = "k"
    _9z: int = 0


@dataclass(frozen=True)
class UpperPos(Position):
    LINE: int = 1
    Col: int = 0
    _0: str = ""

    @property
    def fqn(self) -> str:
        return f"U{self.LINE}:{self.Col}{self._0}"


@dataclass(frozen=True)
class Upper(zoo.Expr):
    """property and child field names that sort before "__type" """

    FROM: zoo.Expr | None = None
    DISTINCT: bool = False
    _1k: zoo.Expr | None = None
    ID: int = 0
    ARGS: tuple[zoo.Expr, ...] = ()
    _0: str = ""
    Zz: str = "z"
    lower: str = ""


def upper_origin(k: int = 0, line: int = 1):
    return Origin(UpperSource(f"up{k}", "U", KIND=f"K{k}", _9z=k), UpperPos(LINE=line, Col=k, _0="p"))


# ---------------------------------------------------------------- the harness' own knowledge

CHILD_FIELDS = dict(zoo.CHILD_FIELDS)
CHILD_FIELDS[Risky] = [("c", False)]
CHILD_FIELDS[Probe] = [("c", False)]
CHILD_FIELDS[Upper] = [("FROM", False), ("_1k", False), ("ARGS", True)]

# fields whose annotation mentions `int` (the custom dialect rewrites the ints below them)
class _IntFields(dict):
    """class name -> names of the fields whose *annotation text* mentions `int` (the harness' own reading of
    the dataclass definitions: `int`, `int | None`, `tuple[int, ...]`, `frozenset[int]`; enums, bools and
    Literals are untouched by the dialect).  Computed on demand so that classes added to zoo.py later need
    no table entry here."""

    def _classes(self):
        import pyoak.origin as _po
        import sys
        out = {}
        for mod in (_po, zoo, sys.modules[__name__]):
            for name, c in vars(mod).items():
                if isinstance(c, type) and dataclasses.is_dataclass(c):
                    out.setdefault(name, c)
        return out

    def __missing__(self, name):
        c = self._classes().get(name)
        v = set() if c is None else {f.name for f in dataclasses.fields(c) if re.search(r"\bint\b", str(f.type))}
        self[name] = v
        return v

    def get(self, name, default=None):
        return self[name]


INT_FIELDS = _IntFields()
class _NotInit(_IntFields):
    """class name -> fields with init=False: the generated from_dict never reads them"""

    def __missing__(self, name):
        c = self._classes().get(name)
        v = set() if c is None else {f.name for f in dataclasses.fields(c) if not f.init}
        self[name] = v
        return v


NOT_INIT = _NotInit()
PROBE_CLASSES = {"Probe"}


def kind_of(o) -> str:
    if isinstance(o, ASTNode):
        return "node"
    if isinstance(o, Origin):
        return "origin"
    if isinstance(o, Source):
        return "source"
    if isinstance(o, Position):
        return "position"
    if isinstance(o, CodePoint):
        return "point"
    return "other"


def scalar(v):
    if isinstance(v, enum.Enum):
        v = v.value
    if isinstance(v, Path):
        v = v.as_posix()
    if isinstance(v, str):
        return [A("s"), v]
    return [A("l"), json.dumps(v)]


def sval(v, intctx: bool):
    if isinstance(v, DataClassSerializeMixin):
        return sobj(v)
    if isinstance(v, Boom):
        return [A("bomb")] if v.armed else [A("a"), scalar("boom"), scalar("boom")]
    if isinstance(v, (tuple, list, frozenset)):
        return [A("q")] + [sval(x, intctx) for x in v]
    d = scalar(v)
    if intctx and isinstance(v, int) and not isinstance(v, bool):
        return [A("a"), d, [A("s"), f"#{v}"]]
    return [A("a"), d, d]


def sobj(o):
    """the harness' own description of one serializable object (never through pyoak's to_dict)"""
    if isinstance(o, (NoOrigin, NoSource, NoPosition)):
        return [A("e")]
    cls = type(o)
    ints = INT_FIELDS.get(cls.__name__, set())
    fields = [A("f")]
    for f in dataclasses.fields(o):
        fields.append([f.name, sval(object.__getattribute__(o, f.name), f.name in ints)])
    cn = [A("c")]
    if isinstance(o, ASTNode):
        cn += [n for n, _ in CHILD_FIELDS[cls]]
    idx = Source._sources.get(o, 0) if isinstance(o, Source) else 0
    return [A("o"), A(kind_of(o)), cls.__name__, idx, fields, cn]


def count_objs(o) -> int:
    """number of non-placeholder serializable objects below (and including) `o`"""
    if isinstance(o, (NoOrigin, NoSource, NoPosition)):
        return 0
    n = 1
    for f in dataclasses.fields(o):
        n += _count_val(object.__getattribute__(o, f.name))
    return n


def _count_val(v) -> int:
    if isinstance(v, DataClassSerializeMixin):
        return count_objs(v)
    if isinstance(v, (tuple, list, frozenset)):
        return sum(_count_val(x) for x in v)
    return 0


# ---------------------------------------------------------------- canonical J of a real output

def canon_j(x, sort: bool = False):
    if isinstance(x, dict):
        items = list(x.items())
        if sort:
            items.sort(key=lambda kv: kv[0])
        return [A("m")] + [[k, canon_j(v, sort)] for k, v in items]
    if isinstance(x, (list, tuple)):
        return [A("a")] + [canon_j(v, sort) for v in x]
    return scalar(x)


# ---------------------------------------------------------------- tree surgery

def kid_lists(n):
    out = []
    for name, coll in CHILD_FIELDS[type(n)]:
        v = object.__getattribute__(n, name)
        out.append((name, coll, list(v) if coll else ([] if v is None else [v])))
    return out


def _props(n):
    kids = {k for k, _ in CHILD_FIELDS[type(n)]}
    return {f.name: object.__getattribute__(n, f.name) for f in dataclasses.fields(n)
            if f.init and f.name not in kids and f.name not in ("id", "content_id", "origin")}


# positions (parent class, field) whose annotation is narrower than Expr: never wrapped
_NARROW = {("UnionKid", "c"), ("Fix2", "pair")}


def wrap_positions(n, path=()):
    """paths of all positions (incl. the root) where a wrapper node may be spliced in"""
    yield path
    for name, coll, ns in kid_lists(n):
        if (type(n).__name__, name) in _NARROW:
            continue
        for i, c in enumerate(ns):
            yield from wrap_positions(c, path + ((name, i if coll else None),))


def rebuild(n, path, f):
    """a new tree equal to `n` except that the subtree at `path` is `f(subtree)`"""
    if not path:
        return f(n)
    (name, i), rest = path[0], path[1:]
    kw = _props(n)
    for kname, coll, ns in kid_lists(n):
        if coll:
            kw[kname] = tuple(rebuild(c, rest, f) if (kname == name and j == i) else c for j, c in enumerate(ns))
        else:
            c = ns[0] if ns else None
            kw[kname] = rebuild(c, rest, f) if (kname == name and c is not None) else c
    return type(n)(origin=object.__getattribute__(n, "origin"), **kw)


def boom_origin(armed: bool, k: int = 0):
    return CodeOrigin(BoomSource(f"boom{k}", "B", b=Boom(armed)), get_code_range(0, 1, 0, 1, 1, 1))
