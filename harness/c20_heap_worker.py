"""Fresh-process half of the C20 heap-level correspondence (`lhxpath` request).

Why a separate process: the legacy history machine (harness/legacy_machine.py) uses the class zoo of C18
(harness/zoo_c18.py), C20's own cases use harness/zoo_c20.py; both zoos define classes of the same names and pyoak
refuses to register two classes of one name in one interpreter.

For every seeded history of REAL legacy operations (construct / attach / detach / replace / replace_with / duplicate,
accepted and rejected mixed — the generator of C18 / C19), on the FINAL state and for EVERY object the harness has
ever seen (attached or not) this worker observes, on the real objects:

  * `ASTXpath(text).match(obj)` for a batch of texts spelled from the parent chains of real objects (class / field /
    index kept or perturbed, `//` gaps, relative texts) plus malformed / unknown-class texts;
  * `list(obj.ancestors())`;
  * `obj.dfs(prune, filter, bottom_up, skip_self)` for the four (bottom_up, skip_self) combinations, `obj.bfs(prune, filter,
    skip_self)` for both, `obj.gather(classes, exact_type=, extra_filter=, prune=)` — prune / filter given as sets of objects;
  * `obj.calculate_xpath()` and, when it returns True, the `xpath` of every node below (harness' own walk).

The request carries the history (as for `legacy`) and the texts / sets; the Lean driver replays the history on the model
heap (`PyOak.Legacy.step`) and answers the same questions with the HEAP-LEVEL definitions of
Model/LegacyHeapWalk.lean (`lxmatchH`, `Legacy.ancestors`, `hdfsImpl`, `hbfsImpl`, `hgatherImpl`, `hcalcXpath`), i.e. by
following the model's parent pointers.  Output: one JSON object per history on stdout.
"""
from __future__ import annotations

import json
import random
import sys

import legacy_machine as M
import zoo_c18 as Z
from proto import A, dumps

from pyoak.legacy.match.error import ASTXpathDefinitionError
from pyoak.legacy.match.xpath import ASTXpath

FIELDS = sorted({f for d in Z.CLASSES.values() for f, _k, _al in d["fields"]}) + ["nofield", "root"]
KNOWN = list(Z.CLASSES) + ["LNode", "AwareASTNode"]
BAD = ["Nope", "ASTNode", "CodeOrigin", "lleaf"]


def class_table():
    """the C18 class table with the legacy base class made explicit in every MRO (the legacy default class of a
    step without class is `AwareASTNode`)"""
    return [A("lclasses")] + [
        [n, list(d["mro"]) + ["AwareASTNode"], [[f, A(k), list(al)] for f, k, al in d["fields"]]]
        for n, d in Z.CLASSES.items()
    ]


def chain_of(o):
    """root-first [(object, parent_field name | None, parent_index)] read off the REAL parent pointers"""
    ch = []
    x = o
    n = 0
    while x is not None and n < 200:
        pf = x.parent_field
        ch.append((x, None if pf is None else pf.name, x.parent_index))
        x = x.parent
        n += 1
    return ch[::-1]


def ws(rng):
    return rng.choice(["", "", "", "", " ", "  ", "\t"])


def render(rng, toks):
    out = ""
    prev = None
    for t in toks:
        sep = ws(rng) if out else ""
        if prev is not None and (prev[-1].isalnum() or prev[-1] == "_") and (t[0].isalnum() or t[0] == "_") \
                and sep == "" and not (prev.isdigit() and t.isdigit()):
            sep = " "
        out += sep + t
        prev = t
    return out


def gen_text(rng, chains):
    k = rng.random()
    if k < 0.06:
        return rng.choice(["", "/", "//", "/@arg", "/LLeaf/", "/[1]", "LLeaf[1]", "/LLeaf//", "$", "/@[0]LLeaf", "/@arg[x]LLeaf"])
    chain = rng.choice(chains)
    deep = [c for c in chains if len(c) >= 3]
    if deep and rng.random() < 0.6:
        chain = rng.choice(deep)
    idxs = sorted(set(rng.sample(range(len(chain)), min(len(chain), rng.choice([1, 1, 2, 3, 4]))) + [len(chain) - 1]))
    toks = []
    prev = -1
    for k, j in enumerate(idxs):
        n, f, i = chain[j]
        gap = j - prev > 1
        prev = j
        if k == 0:
            sep = rng.choice(["//", "//", ""]) if j > 0 else rng.choice(["/", "/", "/", "//", ""])
            if j > 0 and rng.random() < 0.1:
                sep = "/"                                   # absolute path that starts below the root: no match
        else:
            sep = "//" if (gap or rng.random() < 0.15) else "/"
            if gap and rng.random() < 0.1:
                sep = "/"                                   # a missing `//`: no match
        toks += list(sep)
        if f is not None and rng.random() < 0.6:
            toks += ["@", f if rng.random() < 0.9 else rng.choice(FIELDS)]
        elif f is None and rng.random() < 0.1:
            toks += ["@", rng.choice(FIELDS)]               # a field on a node without parent: no match
        if rng.random() < 0.5 and (i is not None or rng.random() < 0.25):
            d = i if (i is not None and rng.random() < 0.85) else rng.choice([0, 1, 2, 10])
            toks += ["["] + list(str(d) if rng.random() < 0.9 else "0" + str(d)) + ["]"]
        elif rng.random() < 0.06:
            toks += ["[", "]"]
        if k == len(idxs) - 1 or rng.random() < 0.7:
            mro = [c.__name__ for c in type(n).__mro__ if c.__name__ in KNOWN]
            r = rng.random()
            toks.append(rng.choice(mro) if r < 0.9 else (rng.choice(KNOWN) if r < 0.97 else rng.choice(BAD)))
    return render(rng, toks)


def tok(w, o):
    t = w.t(o)
    return A("?") if t is None else t


def obs_list(w, fn):
    try:
        return [tok(w, n) for n in M.guarded(fn)]
    except M.Hang:
        return A("hang")


def observe(w, rng):
    """-> (extra request fields, real observation, statistics)"""
    objs = list(w.objs)
    chains = [chain_of(o) for o in objs]
    texts = []
    for _ in range(rng.choice([6, 8, 10])):
        texts.append(gen_text(rng, chains))
    stats = {"texts": 0, "rejected": 0, "matching_some_object": 0, "matches": 0, "matches_at_depth_ge_2": 0,
             "matches_on_detached_objects": 0}
    xs = []
    for text in texts:
        stats["texts"] += 1
        try:
            xp = M.guarded(lambda: ASTXpath(text))
        except ASTXpathDefinitionError:
            xs.append([A("raise"), A("ASTXpathDefinitionError")])
            stats["rejected"] += 1
            continue
        except M.Hang:
            xs.append([A("raise"), A("hang")])
            continue
        except Exception as e:  # noqa: BLE001
            xs.append([A("raise"), A("Other-" + type(e).__name__)])
            continue
        row = []
        for o, ch in zip(objs, chains):
            try:
                m = bool(M.guarded(lambda: xp.match(o)))
            except M.Hang:
                m = A("hang")
            row.append(m)
            if m is True:
                stats["matches"] += 1
                stats["matches_at_depth_ge_2"] += 1 if len(ch) >= 3 else 0
                stats["matches_on_detached_objects"] += 1 if o.detached else 0
        stats["matching_some_object"] += 1 if any(m is True for m in row) else 0
        xs.append([A("m")] + row)
    # walks
    p_ = rng.choice([0.0, 0.0, 0.15, 0.4])
    q_ = rng.choice([1.0, 1.0, 0.7, 0.3])
    prune = {id(o) for o in objs if rng.random() < p_}
    filt = None if q_ == 1.0 and rng.random() < 0.5 else {id(o) for o in objs if rng.random() < q_}
    pf = (lambda n: id(n) in prune) if (prune or rng.random() < 0.5) else None
    ff = None if filt is None else (lambda n: id(n) in filt)
    gnames = rng.sample(list(Z.CLASSES), rng.randint(1, 3))
    gcls = tuple(Z.CLASSES[n]["cls"] for n in gnames)
    exact = rng.random() < 0.4
    walks = []
    for o in objs:
        row = [obs_list(w, lambda: list(o.ancestors()))]
        for skip in (False, True):
            for bu in (False, True):
                row.append(obs_list(w, lambda: list(o.dfs(prune=pf, filter=ff, bottom_up=bu, skip_self=skip))))
        for skip in (False, True):
            row.append(obs_list(w, lambda: list(o.bfs(prune=pf, filter=ff, skip_self=skip))))
        row.append(obs_list(w, lambda: list(o.gather(gcls if len(gcls) > 1 or rng.random() < 0.5 else gcls[0],
                                                     exact_type=exact, extra_filter=ff, prune=pf))))
        try:
            r = M.guarded(lambda: o.calculate_xpath())
            if r is True:
                row.append([A("ok")] + [[tok(w, n), n.xpath] for n in w.closure([o])])
            else:
                row.append(A("refused"))
        except M.Hang:
            row.append(A("failed"))
        except RuntimeError:
            row.append(A("failed"))
        walks.append(row)
    extra = [[A("texts")] + texts, [A("prune")] + sorted(w.tok[i] for i in prune)]
    if filt is not None:
        extra.append([A("filter")] + sorted(w.tok[i] for i in filt))
    extra += [[A("gclasses")] + gnames, [A("exact"), exact]]
    return extra, [A("ok"), xs, walks], stats, texts


def main():
    seed, n_hist, lo, hi = (int(a) for a in sys.argv[1:5])
    rng = random.Random(seed)
    for h in range(n_hist):
        sub = random.Random(rng.getrandbits(64))
        g = M.run_history(sub, sub.randint(lo, hi), False, sub.choice([0, 1, 2]), explicit_ids=sub.choice([0.0, 0.12, 0.3]))
        g_dead = g.dead
        w = g.w
        if w.hung or not w.objs:
            print(json.dumps({"skip": "hang" if w.hung else "empty"}))
            continue
        extra, real, stats, texts = observe(w, sub)
        reqs = [s[1] for s in w.steps]
        line = dumps([A("lhxpath"), class_table(), [A("ops")] + reqs] + extra)
        attached = [o for o in w.objs if not o.detached]
        depth2 = any(o.parent is not None and o.parent.parent is not None for o in attached)
        nontrivial = len(attached) >= 3 and depth2 and stats["matching_some_object"] >= 1
        tail = " ; ".join(o.show() for o in g.history[-5:])
        desc = (f"heap history#{h} ({len(g.history)} ops, {len(w.objs)} objects, {len(attached)} attached"
                f"{', ended by an oracle failure' if g_dead else ''}) … {tail} ; texts={texts!r}")
        print(json.dumps({"line": line, "real": dumps(real), "nontrivial": nontrivial, "desc": desc, "stats": stats,
                          "ops": len(w.steps), "objects": len(w.objs)}))
        sys.stdout.flush()


if __name__ == "__main__":
    main()
