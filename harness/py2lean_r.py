"""py2lean_r — Python-AST -> Lean 4 translator for the registry-level functions of src/pyoak/node.py; sibling of
py2lean_t.py (same conventions: monadic, `Except Err T` for a function that can raise, a `while` loop becomes a fuel-bounded
auxiliary definition `<fn>_loop`, `Unsupported` outside the subset -- never a silent skip).

Regenerated on every run of `./check C03` from the tree under examination into lean/PyOak/Gen/KernelsRegistry.lean:

  _get_next_unique_id (module level)                               -> GenR._get_next_unique_id_loop, GenR._get_next_unique_id
  ASTNode.get_any, ASTNode.get (classmethods)                      -> GenR.get_any, GenR.get
  ASTNode.detach_self, ASTNode.detach (methods)                    -> GenR.detach_self, GenR.detach

Props/GenBridgeRegistry.lean proves the hand-written registry machine (Model/Registry.lean) equal to the generated
definitions (`<fn>_eq_gen`), an OPTIONAL obligation of C03 (harness/kernels_tie.py: `optional_registry`).

What differs from py2lean_t: the module global `NODE_REGISTRY` is a STATE COMPONENT.  Every generated function takes the
registry `reg : Reg N` (association list id string -> object, read as the plain mapping it is at the moment of the call:
the weak-value semantics is NOT translated, it is the `gc` step of the model); a function that (transitively) writes to
`NODE_REGISTRY` returns the pair (new registry, result).  Whether a function writes / can raise / needs fuel is inferred
(fixpoint over the call graph).

Accepted subset:

  stmt ::= docstring | pass | `x [: T] = e` | `x += e` (int) | `return [e]` | `if c: .. [elif/else ..]` (a branch that does
           not exit continues with a copy of the statements after the `if`; `if x is [not] None` narrows x by `match`)
         | `while c: ..` at the top level of the function (with `break` / `continue`)
         | `for v in x.dfs(): ..` (body without return / break / assignment to locals; v used only as `v.node`)
         | `del NODE_REGISTRY[k]` | `NODE_REGISTRY[k] = v` | a call as a statement (result dropped)
  e    ::= name | True | False | None | int / str literal | `x.id` (x a node) | `not e` | `e and e` | `e or e`
         | `e + e` (int) | f-string of str / int pieces | `e == e` / `e != e` on str / int / bool / class
         | `e is [not] e` on nodes (either side Optional) | `e is [not] None` | `type(e)` | `isinstance(e, c)` | `cast(T, e)`
         | `NODE_REGISTRY.get(k)` | `NODE_REGISTRY.get(k, d)` | `k [not] in NODE_REGISTRY` | `NODE_REGISTRY[k]`
         | `NODE_REGISTRY.pop(k, None)` | `f(args)` / `x.m(args)` / `cls.m(args)` for a translated f / m

An operand of `and` / `or` other than the first, and a `while` condition, may not write to the registry or raise.

THE PRIMITIVE TABLE (Python idiom -> model primitive) is `PRIMITIVES` below together with the fixed prelude `HEADER`; both
are part of the trusted base of the tie and are printed into the generated file.
"""
from __future__ import annotations

import ast
from pathlib import Path

from py2lean_k import K, Unsupported, str_lit

# ------------------------------------------------------------------------------------------------ trusted base
PRIMITIVES = [
    ("NODE_REGISTRY   (module global, a WeakValueDictionary)", "reg : Reg N = List (Str × N), threaded: parameter of every function, returned by a writer"),
    ("NODE_REGISTRY.get(k)", "Reg.get reg k : Option N   -- first entry with key k"),
    ("NODE_REGISTRY.get(k, d)   (d : node | None)", "(Reg.get reg k).or d"),
    ("k in NODE_REGISTRY / k not in NODE_REGISTRY", "Reg.contains reg k / !Reg.contains reg k"),
    ("NODE_REGISTRY[k]", "match Reg.get reg k with | none => .error .KeyError | some v => .."),
    ("NODE_REGISTRY[k] = v", "reg := Reg.setitem reg k v   -- drop the entries with key k, append (k, v)"),
    ("del NODE_REGISTRY[k]", "if Reg.contains reg k then reg := Reg.discard reg k else .error .KeyError"),
    ("NODE_REGISTRY.pop(k, None)", "value Reg.get reg k, then reg := Reg.discard reg k   -- drop the entries with key k"),
    ("x.id   (x a node)", "py.id_attr x : Str"),
    ("a is b / a is not b   (nodes, either side may be Optional)", "py.uid a == py.uid b  (Option-lifted; None is only None)"),
    ("x is None / x is not None", "match x with | none | some x' (narrowing, in an `if` test) / x.isNone / x.isSome"),
    ("type(x) == c   (== on classes is identity)", "py.type_of x == c"),
    ("isinstance(x, c)", "py.isinstance x c"),
    ("cast(T, e)", "e"),
    ("cls   (first parameter of a @classmethod)", "cls : C"),
    ("f\"..{s}..{i}..\"", "++ of the literal pieces, s (a str) itself, py_str_int i"),
    ("i = 1 / i += 1 / i + 1", "(1 : Int) / i := i + 1   -- Python ints are unbounded: Int"),
    ("while c: ..", "recursion on fuel : Nat (one unit per test of c), `.error .OutOfFuel` at 0 (no Python run produces it)"),
    ("for ni in x.dfs(): .. ni.node ..", "fold over py.dfs_nodes x : List N   -- the `.node`s of the stream, in order; the body writes "
                                          "only to the registry, which dfs() does not read, so laziness is not observable"),
    ("return e in a function that writes NODE_REGISTRY", ".ok (reg, e) / (reg, e)"),
    ("-> None", "Unit"),
]

HEADER = """/- GENERATED by harness/py2lean_r.py from the registry-level functions of src/pyoak/node.py on every run of
   `./check C03`.  Do not edit: Props/GenBridgeRegistry.lean proves the hand-written model (Model/Registry.lean) equal to
   exactly these definitions (an OPTIONAL obligation, see harness/kernels_tie.py).

   Python idiom -> primitive (the trusted base of this translation):
%PRIMS%
-/
import PyOak.Sexp
namespace PyOak.GenR
open PyOak
set_option linter.unusedVariables false

/-- `KeyError`, plus the marker of an exhausted fuel (no Python run produces it) -/
inductive Err where
  | KeyError
  | OutOfFuel
  deriving DecidableEq, Repr

/-- `NODE_REGISTRY` read as a plain mapping: association list keyed by the id string -/
abbrev Reg (N : Type) := List (Str × N)

/-- `NODE_REGISTRY.get(k)` -/
def Reg.get {N : Type} (d : Reg N) (k : Str) : Option N := (d.find? (·.1 == k)).map (·.2)

/-- `k in NODE_REGISTRY` -/
def Reg.contains {N : Type} (d : Reg N) (k : Str) : Bool := d.any (·.1 == k)

/-- the mapping without the key `k` (`del` / `pop` once the key is known to be there or a default is given) -/
def Reg.discard {N : Type} (d : Reg N) (k : Str) : Reg N := d.filter (·.1 != k)

/-- `NODE_REGISTRY[k] = v` -/
def Reg.setitem {N : Type} (d : Reg N) (k : Str) (v : N) : Reg N := d.filter (·.1 != k) ++ [(k, v)]

/-- `str(i)` for an int -/
def py_str_int (i : Int) : Str := (toString i).toList

/-- what the translation assumes about node objects and classes -/
structure Py (N C : Type) where
  /-- `id(x)`: object identity (`a is b` iff `uid a == uid b`) -/
  uid : N → Nat
  /-- the attribute `x.id` -/
  id_attr : N → Str
  /-- `type(x)` -/
  type_of : N → C
  /-- `isinstance(x, c)` -/
  isinstance : N → C → Bool
  /-- `[ni.node for ni in x.dfs()]` -/
  dfs_nodes : N → List N
"""

REG = "NODE_REGISTRY"
SIG = "{N C : Type} [BEq C] (py : Py N C)"
RESERVED = {"at", "end", "from", "fun", "in", "do", "then", "else", "if", "let", "have", "show", "with", "match", "where",
            "open", "by", "calc", "def", "theorem", "instance", "structure", "class", "namespace", "section", "variable",
            "return", "for", "mut", "py", "reg", "fuel", "e", "r", "id", "default", "Type", "Prop", "Sort", "some", "none"}
TARGETS = [(None, "_get_next_unique_id"), ("ASTNode", "get_any"), ("ASTNode", "get"), ("ASTNode", "detach_self"),
           ("ASTNode", "detach")]


def lean_ty(t) -> str:
    if isinstance(t, tuple) and t[0] == "opt":
        return f"(Option {lean_ty(t[1])})"
    if t in ("N", "C", "Str", "Int", "Bool", "Unit"):
        return t
    raise Unsupported("type", str(t))


def is_opt(t) -> bool:
    return isinstance(t, tuple) and t[0] == "opt"


class NeedFlags(Exception):
    """a flag (writes / raises / fuelled) of the function being translated was switched on: translate again"""


class Fun:
    def __init__(self, owner: str | None, fn: ast.FunctionDef, kind: str, params, ret):
        self.owner, self.fn, self.name, self.kind, self.params, self.ret = owner, fn, fn.name, kind, params, ret
        self.writes = self.raises = self.fueled = False
        self.calls: set[str] = set()

    @property
    def qual(self) -> str:
        return f"{self.owner}.{self.name}" if self.owner else self.name

    def result_ty(self) -> str:
        t = lean_ty(self.ret)
        if self.writes:
            t = f"(Reg N × {t})"
        return f"Except Err {t}" if self.raises else t


class Tr:
    """translation of one function body (continuation-passing over the statement list)"""

    def __init__(self, o: "RegTr", f: Fun):
        self.o, self.f, self.where = o, f, f.qual
        self.env: dict[str, object] = {}
        self.lean: dict[str, str] = {}
        self.pending: list[tuple] = []       # effects of the expression being translated, in evaluation order
        self.fresh = 0
        self.aux: list[str] = []
        self.loop_k = None
        self.fuel_var = "fuel"

    # ---------------------------------------------------------------- helpers
    def bad(self, node, why=""):
        line = getattr(node, "lineno", None)
        src = ast.unparse(node) if isinstance(node, ast.AST) else str(node)
        raise Unsupported(self.where, f"{why or 'construct'} (line {line}): {src}"[:300])

    def new(self, base="v"):
        self.fresh += 1
        return f"{base}_{self.fresh}"

    def bind_var(self, name: str, ty):
        lname = (name.strip("_") or "x") + "_v" if (name in RESERVED or name.startswith("_")) else name
        self.env[name], self.lean[name] = ty, lname
        return lname

    def flag(self, what: str):
        if not getattr(self.f, what):
            setattr(self.f, what, True)
            if what == "fueled":
                self.f.raises = True
            raise NeedFlags()

    def snapshot(self):
        return dict(self.env), dict(self.lean)

    def restore(self, snap):
        self.env, self.lean = dict(snap[0]), dict(snap[1])

    def collect(self, fn):
        save, self.pending = self.pending, []
        try:
            r = fn()
            eff = self.pending
        finally:
            self.pending = save
        return r, eff

    def wrap(self, effs, body: str) -> str:
        """the pending effects, in order, around `body`"""
        for e in reversed(effs):
            if e[0] == "let":
                body = f"(let {e[1]} := {e[2]};\n    {body})"
            elif e[0] == "bind":
                body = f"(match {e[2]} with\n    | .error e => .error e\n    | .ok {e[1]} => {body})"
            elif e[0] == "getitem":
                body = f"(match Reg.get reg {e[2]} with\n    | none => .error .KeyError\n    | some {e[1]} => {body})"
            elif e[0] == "del":
                body = f"(if Reg.contains reg {e[1]} then (let reg := Reg.discard reg {e[1]};\n    {body})\n    else .error .KeyError)"
        return body

    def pure_only(self, fn, node, why):
        r, eff = self.collect(fn)
        if eff:
            self.bad(node, why)
        return r

    def ret_term(self, t: str) -> str:
        if self.f.writes:
            t = f"(reg, {t})"
        return f".ok {t}" if self.f.raises else t

    # ---------------------------------------------------------------- types
    def ann(self, a: ast.expr | None, where_: str):
        if a is None:
            raise Unsupported(self.where, f"{where_} without annotation")
        return self.o.ann(a, self.where)

    # ---------------------------------------------------------------- expressions
    def coerce(self, t, ty, want, node):
        if want is None or ty == want:
            return t, ty
        if is_opt(want):
            if ty == ("opt", "?"):
                return "none", want
            if not is_opt(ty) and ty == want[1]:
                return f"(some {t})", want
        self.bad(node, f"type {lean_ty(ty) if ty != ('opt', '?') else 'None'} where {lean_ty(want)} is expected")

    def expr(self, e: ast.expr, want=None):
        t, ty = self.expr0(e, want)
        return self.coerce(t, ty, want, e)

    def is_reg(self, e) -> bool:
        return isinstance(e, ast.Name) and e.id == REG and REG not in self.env

    def expr0(self, e: ast.expr, want=None):
        if isinstance(e, ast.Name):
            if e.id in self.env:
                return self.lean[e.id], self.env[e.id]
            self.bad(e, "unknown name")
        if isinstance(e, ast.Constant):
            if e.value is True:
                return "true", "Bool"
            if e.value is False:
                return "false", "Bool"
            if e.value is None:
                return "none", ("opt", "?")
            if isinstance(e.value, int):
                return f"({e.value} : Int)", "Int"
            if isinstance(e.value, str):
                return f"({str_lit(e.value)} : Str)", "Str"
            self.bad(e, "literal")
        if isinstance(e, ast.Attribute):
            b, bt = self.expr(e.value)
            if bt == "N" and e.attr == "id":
                return f"(py.id_attr {b})", "Str"
            if bt == "Trav" and e.attr == "node":
                return b, "N"
            self.bad(e, f"attribute .{e.attr} of a value of type {bt}")
        if isinstance(e, ast.Subscript) and self.is_reg(e.value):
            k, _ = self.expr(e.slice, "Str")
            self.flag("raises")
            v = self.new()
            self.pending.append(("getitem", v, k))
            return v, "N"
        if isinstance(e, ast.UnaryOp) and isinstance(e.op, ast.Not):
            t, _ = self.expr(e.operand, "Bool")
            return f"(!{t})", "Bool"
        if isinstance(e, ast.BoolOp):
            op = "&&" if isinstance(e.op, ast.And) else "||"
            parts = [self.expr(e.values[0], "Bool")[0]]
            for v in e.values[1:]:
                parts.append(self.pure_only(lambda v=v: self.expr(v, "Bool")[0], v,
                                            "an operand of and / or (other than the first) that writes to the registry or can raise"))
            return "(" + f" {op} ".join(parts) + ")", "Bool"
        if isinstance(e, ast.Compare) and len(e.ops) == 1:
            return self.compare(e, e.left, e.ops[0], e.comparators[0])
        if isinstance(e, ast.Call):
            return self.call(e, want)
        if isinstance(e, ast.BinOp) and isinstance(e.op, ast.Add):
            a, ta = self.expr(e.left)
            b, tb = self.expr(e.right)
            if ta == tb == "Int":
                return f"({a} + {b})", "Int"
            self.bad(e, "`+` on other than two ints")
        if isinstance(e, ast.JoinedStr):
            parts = []
            for v in e.values:
                if isinstance(v, ast.Constant) and isinstance(v.value, str):
                    parts.append(str_lit(v.value))
                    continue
                if not isinstance(v, ast.FormattedValue) or v.conversion != -1 or v.format_spec is not None:
                    self.bad(e, "f-string piece with a conversion / format spec")
                a, ta = self.expr(v.value)
                if ta == "Str":
                    parts.append(a)
                elif ta == "Int":
                    parts.append(f"py_str_int {a}")
                else:
                    self.bad(v.value, "f-string piece that is neither a str nor an int")
            return ("(" + " ++ ".join(parts) + ")") if parts else "([] : Str)", "Str"
        self.bad(e)

    def compare(self, e, l, op, r):
        base = lambda t: t[1] if is_opt(t) else t  # noqa: E731
        if isinstance(op, (ast.Is, ast.IsNot)):
            pos = isinstance(op, ast.Is)
            if isinstance(r, ast.Constant) and r.value is None:
                t, ty = self.expr(l)
                if is_opt(ty):
                    return (f"{t}.isNone" if pos else f"{t}.isSome"), "Bool"
                return ("false" if pos else "true"), "Bool"
            a, ta = self.expr(l)
            b, tb = self.expr(r)
            if base(ta) != "N" or base(tb) != "N":
                self.bad(e, "`is` between values that are not nodes")
            if not is_opt(ta) and not is_opt(tb):
                t = f"(py.uid {a} == py.uid {b})"
            else:
                ia = f"({a}.map py.uid)" if is_opt(ta) else f"(some (py.uid {a}))"
                ib = f"({b}.map py.uid)" if is_opt(tb) else f"(some (py.uid {b}))"
                t = f"({ia} == {ib})"
            return (t if pos else f"(!{t})"), "Bool"
        if isinstance(op, (ast.Eq, ast.NotEq)):
            a, ta = self.expr(l)
            b, tb = self.expr(r)
            if base(ta) == "N" or base(tb) == "N":
                self.bad(e, "`==` between nodes is ASTNode.__eq__ (content equality), not identity: not a primitive")
            if ta != tb or ta not in ("Int", "Str", "Bool", "C"):
                self.bad(e, "`==` between values of these types")
            t = f"({a} == {b})"
            return (t if isinstance(op, ast.Eq) else f"(!{t})"), "Bool"
        if isinstance(op, (ast.In, ast.NotIn)) and self.is_reg(r):
            a, _ = self.expr(l, "Str")
            t = f"(Reg.contains reg {a})"
            return (t if isinstance(op, ast.In) else f"(!{t})"), "Bool"
        self.bad(e, f"comparison {type(op).__name__}")

    def call(self, e: ast.Call, want=None):
        f = e.func
        if any(isinstance(a, ast.Starred) for a in e.args) or any(k.arg is None for k in e.keywords):
            self.bad(e, "* / ** arguments")
        if isinstance(f, ast.Attribute) and self.is_reg(f.value):
            if f.attr == "get" and not e.keywords and len(e.args) in (1, 2):
                k, _ = self.expr(e.args[0], "Str")
                if len(e.args) == 1:
                    return f"(Reg.get reg {k})", ("opt", "N")
                d, _ = self.expr(e.args[1], ("opt", "N"))
                return f"((Reg.get reg {k}).or {d})", ("opt", "N")
            if f.attr == "pop" and not e.keywords and len(e.args) == 2 and isinstance(e.args[1], ast.Constant) \
                    and e.args[1].value is None:
                k, _ = self.expr(e.args[0], "Str")
                self.flag("writes")
                v = self.new()
                self.pending.append(("let", v, f"Reg.get reg {k}"))
                self.pending.append(("let", "reg", f"Reg.discard reg {k}"))
                return v, ("opt", "N")
            self.bad(e, f"NODE_REGISTRY.{f.attr}(..) in this form")
        if isinstance(f, ast.Name):
            if f.id == "isinstance" and len(e.args) == 2 and not e.keywords:
                a, _ = self.expr(e.args[0], "N")
                b, _ = self.expr(e.args[1], "C")
                return f"(py.isinstance {a} {b})", "Bool"
            if f.id == "type" and len(e.args) == 1 and not e.keywords:
                a, _ = self.expr(e.args[0], "N")
                return f"(py.type_of {a})", "C"
            if f.id == "cast" and len(e.args) == 2 and not e.keywords:
                return self.expr(e.args[1])
            if f.id in self.o.funs and self.o.funs[f.id].kind == "function" and f.id not in self.env:
                return self.apply(e, self.o.funs[f.id], None)
        if isinstance(f, ast.Attribute) and f.attr in self.o.funs and self.o.funs[f.attr].kind != "function":
            callee = self.o.funs[f.attr]
            recv, rt = self.expr(f.value)
            if callee.kind == "method" and rt != "N" or callee.kind == "classmethod" and rt != "C":
                self.bad(e, f"receiver of .{f.attr}() of type {rt}")
            return self.apply(e, callee, recv)
        self.bad(e, "call")

    def apply(self, e: ast.Call, callee: Fun, recv):
        self.f.calls.add(callee.name)
        if callee is self.f:
            self.bad(e, "recursion")
        pos = [p for p in callee.params if not p[3]]
        if len(e.args) > len(pos):
            self.bad(e, "too many positional arguments")
        given = {p[0]: a for p, a in zip(pos, e.args)}
        for k in e.keywords:
            if k.arg in given or k.arg not in [p[0] for p in callee.params]:
                self.bad(e, f"keyword argument {k.arg}")
            given[k.arg] = k.value
        args = [] if recv is None else [recv]
        for (pn, pt, default, _kw) in callee.params:
            if pn in given:
                args.append(self.expr(given[pn], pt)[0])
            elif default is not None:
                snap, self.env, self.lean = self.snapshot(), {}, {}
                try:
                    args.append(self.expr(default, pt)[0])
                finally:
                    self.restore(snap)
            else:
                self.bad(e, f"missing argument {pn}")
        for fl in ("writes", "raises", "fueled"):
            if getattr(callee, fl):
                self.flag(fl)
        fuel = f" {self.fuel_var}" if callee.fueled else ""
        term = f"({callee.name} py reg{fuel}{''.join(' ' + a for a in args)})"
        if not callee.writes and not callee.raises:
            return term, callee.ret
        r = self.new("r")
        self.pending.append(("bind" if callee.raises else "let", r, term))
        if callee.writes:
            self.pending.append(("let", "reg", f"{r}.1"))
            return f"{r}.2", callee.ret
        return r, callee.ret

    # ---------------------------------------------------------------- statements
    def exits(self, stmts) -> bool:
        if not stmts:
            return False
        s = stmts[-1]
        if isinstance(s, (ast.Return, ast.Raise, ast.Continue, ast.Break)):
            return True
        if isinstance(s, ast.If) and s.orelse:
            return self.exits(s.body) and self.exits(s.orelse)
        return False

    def none_test(self, e):
        if isinstance(e, ast.Compare) and len(e.ops) == 1 and isinstance(e.comparators[0], ast.Constant) \
                and e.comparators[0].value is None and isinstance(e.left, ast.Name) and isinstance(e.ops[0], (ast.Is, ast.IsNot)) \
                and is_opt(self.env.get(e.left.id)):
            return e.left.id, isinstance(e.ops[0], ast.Is)
        return None

    def block(self, stmts, k) -> str:
        if not stmts:
            if k is not None:
                return k()
            if self.f.ret == "Unit":
                return self.ret_term("()")
            raise Unsupported(self.where, "a path falls off the end of the function (implicit `return None`)")
        s, rest = stmts[0], stmts[1:]
        cont = lambda: self.block(rest, k)  # noqa: E731
        if isinstance(s, ast.Pass) or (isinstance(s, ast.Expr) and isinstance(s.value, ast.Constant) and isinstance(s.value.value, str)):
            return cont()
        if isinstance(s, ast.Return):
            if self.loop_k is not None and self.loop_k[2]:
                self.bad(s, "return inside a for loop")
            if s.value is None:
                if self.f.ret != "Unit":
                    self.bad(s, "bare return in a function that returns a value")
                return self.ret_term("()")
            if self.f.ret == "Unit":
                self.bad(s, "return of a value in a function annotated `-> None`")
            (t, eff) = self.collect(lambda: self.expr(s.value, self.f.ret)[0])
            return self.wrap(eff, self.ret_term(t))
        if isinstance(s, (ast.Continue, ast.Break)) and self.loop_k is not None and not self.loop_k[2]:
            return self.loop_k[0 if isinstance(s, ast.Continue) else 1]()
        if isinstance(s, ast.If):
            return self.if_stmt(s, rest, k)
        if isinstance(s, ast.While):
            return self.while_stmt(s, rest, k)
        if isinstance(s, ast.For):
            return self.for_stmt(s, rest, k)
        if isinstance(s, ast.Expr) and isinstance(s.value, ast.Call):
            (_t, eff) = self.collect(lambda: self.expr(s.value))
            return self.wrap(eff, cont())
        if isinstance(s, ast.Delete) and len(s.targets) == 1 and isinstance(s.targets[0], ast.Subscript) and self.is_reg(s.targets[0].value):
            (kk, eff) = self.collect(lambda: self.expr(s.targets[0].slice, "Str")[0])
            self.flag("writes")
            self.flag("raises")
            return self.wrap(eff + [("del", kk)], cont())
        if isinstance(s, ast.AnnAssign) and s.value is not None and s.simple and isinstance(s.target, ast.Name):
            return self.assign(s, s.target.id, s.value, self.ann(s.annotation, "variable"), cont)
        if isinstance(s, ast.AugAssign) and isinstance(s.op, ast.Add) and isinstance(s.target, ast.Name) and self.env.get(s.target.id) == "Int":
            v = ast.copy_location(ast.BinOp(left=ast.Name(id=s.target.id, ctx=ast.Load()), op=ast.Add(), right=s.value), s)
            return self.assign(s, s.target.id, ast.fix_missing_locations(v), "Int", cont)
        if isinstance(s, ast.Assign) and len(s.targets) == 1:
            tg = s.targets[0]
            if isinstance(tg, ast.Name):
                return self.assign(s, tg.id, s.value, None, cont)
            if isinstance(tg, ast.Subscript) and self.is_reg(tg.value):
                def both():
                    return self.expr(tg.slice, "Str")[0], self.expr(s.value, "N")[0]
                ((kk, vv), eff) = self.collect(both)
                self.flag("writes")
                return self.wrap(eff + [("let", "reg", f"Reg.setitem reg {kk} {vv}")], cont())
        self.bad(s, "statement")

    def assign(self, s, name, value, want, cont) -> str:
        if name in ("self", "cls", REG):
            self.bad(s, f"assignment to {name}")
        if self.loop_k is not None and self.loop_k[2]:
            self.bad(s, "assignment to a local inside a for loop")
        ((t, ty), eff) = self.collect(lambda: self.expr(value, want))
        if ty == ("opt", "?"):
            self.bad(s, "assignment of a bare None (no type)")
        if name in self.env and self.env[name] != ty:
            self.bad(s, f"{name} re-assigned with another type")
        lv = self.bind_var(name, ty)
        return self.wrap(eff + [("let", lv, t)], cont())

    def branch(self, body, rest, k, snap) -> str:
        self.restore(snap)
        return self.block(body, lambda: self.block(rest, k))

    def if_stmt(self, s: ast.If, rest, k) -> str:
        snap = self.snapshot()
        nm = self.none_test(s.test)
        if nm is not None:
            name, first = nm
            cur, ty, nv = self.lean[name], snap[0][name], self.new(self.lean[name])
            none_b = self.branch(s.body if first else s.orelse, rest, k, snap)
            self.restore(snap)
            self.env[name], self.lean[name] = ty[1], nv
            some_b = self.branch(s.orelse if first else s.body, rest, k, self.snapshot())
            self.restore(snap)
            return f"(match {cur} with\n    | none => {none_b}\n    | some {nv} => {some_b})"
        (c, eff) = self.collect(lambda: self.expr(s.test, "Bool")[0])
        snap = self.snapshot()
        a = self.branch(s.body, rest, k, snap)
        b = self.branch(s.orelse, rest, k, snap)
        self.restore(snap)
        return self.wrap(eff, f"(if {c} then {a}\n    else {b})")

    def assigned(self, stmts) -> list[str]:
        out = []
        for st in stmts:
            for n in ast.walk(st):
                if isinstance(n, (ast.Assign, ast.AugAssign, ast.AnnAssign)):
                    for t in (n.targets if isinstance(n, ast.Assign) else [n.target]):
                        if isinstance(t, ast.Name) and t.id not in out:
                            out.append(t.id)
                elif isinstance(n, (ast.For, ast.While, ast.With, ast.Try)):
                    self.bad(n, "statement inside a while loop")
        return out

    def while_stmt(self, s: ast.While, rest, k) -> str:
        if s.orelse:
            self.bad(s, "while .. else")
        if self.loop_k is not None or k is not None or self.aux:
            self.bad(s, "a while loop that is not the only one, at the top level of the function")
        self.flag("fueled")
        state = self.assigned(s.body)
        for v in state:
            if v not in self.env:
                self.bad(s, f"loop variable {v} is not assigned before the loop")
        used = lambda v: any(isinstance(n, ast.Name) and n.id == v for st in [s] + rest for n in ast.walk(st))  # noqa: E731
        fixed = [v for v in self.env if v not in state and used(v)]
        lname = f"{self.f.name}_loop"
        snap = self.snapshot()
        head = f"({lname} py reg" + "".join(f" {self.lean[p]}" for p in fixed)
        call_now = head + f" {self.fuel_var}" + "".join(f" {self.lean[v]}" for v in state) + ")"
        rec_call = lambda: head + " fuel_1" + "".join(f" {self.lean[v]}" for v in state) + ")"  # noqa: E731
        after = lambda: self.block(rest, None)  # noqa: E731
        self.loop_k = (rec_call, after, False)
        c = self.pure_only(lambda: self.expr(s.test, "Bool")[0], s.test, "a while condition that writes to the registry or can raise")
        a = self.block(s.body, rec_call)
        self.restore(snap)
        b = after()
        self.restore(snap)
        self.loop_k = None
        params = "".join(f" ({self.lean[p]} : {lean_ty(self.env[p])})" for p in fixed)
        sparams = "".join(f" ({self.lean[v]} : {lean_ty(self.env[v])})" for v in state)
        self.aux.append(
            f"/-- the `while` loop of `{self.f.qual}` (line {s.lineno}) and what follows it; one unit of fuel per test of the "
            f"loop condition -/\n"
            f"def {lname} {SIG} (reg : Reg N){params} (fuel : Nat){sparams} : {self.f.result_ty()} :=\n"
            f"  match fuel with\n  | 0 => .error .OutOfFuel\n  | fuel_1 + 1 =>\n    (if {c} then {a}\n    else {b})\n")
        return call_now

    def for_stmt(self, s: ast.For, rest, k) -> str:
        it = s.iter
        if s.orelse or not isinstance(s.target, ast.Name) or self.loop_k is not None:
            self.bad(s, "for loop with else / a structured target / nested in a loop")
        if not (isinstance(it, ast.Call) and isinstance(it.func, ast.Attribute) and it.func.attr == "dfs" and not it.args and not it.keywords):
            self.bad(it, "iteration over something other than `x.dfs()`")
        (x, xt) = self.pure_only(lambda: self.expr(it.func.value), it, "receiver of dfs()")
        if xt != "N":
            self.bad(it, "dfs() of a non-node")
        snap = self.snapshot()
        lv = self.bind_var(s.target.id, "Trav")
        save_w, save_r = self.f.writes, self.f.raises
        self.loop_k = (None, None, True)
        # the body is a function registry -> registry (or Except Err registry)
        body = self.block(s.body, lambda: (".ok reg" if self.f.raises else "reg"))
        self.loop_k = None
        self.restore(snap)
        assert (save_w, save_r) == (self.f.writes, self.f.raises)
        after = self.block(rest, k)
        if self.f.raises:
            return (f"(match (py.dfs_nodes {x}).foldlM (fun reg {lv} => ({body} : Except Err (Reg N))) reg with\n    | .error e => .error e\n"
                    f"    | .ok reg => {after})")
        return f"(let reg := (py.dfs_nodes {x}).foldl (fun reg {lv} => {body}) reg;\n    {after})"


class RegTr:
    def __init__(self, src: Path):
        self.k = K(Path(src) / "pyoak" / "node.py")
        self.tvars = set()
        for st in self.k.mod.body:
            if isinstance(st, ast.Assign) and isinstance(st.value, ast.Call) and isinstance(st.value.func, ast.Name) \
                    and st.value.func.id == "TypeVar" and len(st.targets) == 1 and isinstance(st.targets[0], ast.Name):
                b = next((kw.value for kw in st.value.keywords if kw.arg == "bound"), None)
                if isinstance(b, ast.Constant) and b.value == "ASTNode" or isinstance(b, ast.Name) and b.id == "ASTNode":
                    self.tvars.add(st.targets[0].id)
        reg = [st for st in self.k.mod.body if isinstance(st, (ast.Assign, ast.AnnAssign))
               and any(isinstance(t, ast.Name) and t.id == REG for t in (st.targets if isinstance(st, ast.Assign) else [st.target]))]
        if len(reg) != 1 or not (isinstance(reg[0].value, ast.Call) and ast.unparse(reg[0].value.func).endswith("WeakValueDictionary")
                                 and not reg[0].value.args and not reg[0].value.keywords):
            raise Unsupported(REG, "expected exactly one module-level `NODE_REGISTRY = weakref.WeakValueDictionary()`")
        self.funs: dict[str, Fun] = {}

    def ann(self, a: ast.expr, where: str):
        if isinstance(a, ast.Constant) and a.value is None:
            return "Unit"
        if isinstance(a, ast.Constant) and isinstance(a.value, str):
            return self.ann(ast.parse(a.value, mode="eval").body, where)
        if isinstance(a, ast.Name):
            m = {"ASTNode": "N", "int": "Int", "str": "Str", "bool": "Bool"}
            if a.id in m:
                return m[a.id]
            if a.id in self.tvars:
                return "N"
        if isinstance(a, ast.BinOp) and isinstance(a.op, ast.BitOr):
            l, r = self.ann(a.left, where), self.ann(a.right, where)
            if r == "Unit" and l != "Unit":
                return ("opt", l)
            if l == "Unit" and r != "Unit":
                return ("opt", r)
        if isinstance(a, ast.Subscript) and isinstance(a.value, ast.Name):
            if a.value.id in ("type", "Type") and self.ann(a.slice, where) == "N":
                return "C"
            if a.value.id == "Optional":
                return ("opt", self.ann(a.slice, where))
        raise Unsupported(where, f"annotation {ast.unparse(a)}")

    def signature(self, owner: str | None, fn: ast.FunctionDef) -> Fun:
        where = f"{owner}.{fn.name}" if owner else fn.name
        decos = [ast.unparse(d) for d in fn.decorator_list]
        a = fn.args
        if a.vararg or a.kwarg or a.posonlyargs:
            raise Unsupported(where, "*args / **kwargs / positional-only parameters")
        pos = list(a.args)
        if owner is None:
            kind = "function"
            if decos:
                raise Unsupported(where, f"decorator {decos[0]}")
        elif decos == ["classmethod"]:
            kind = "classmethod"
            if not pos or pos[0].arg != "cls":
                raise Unsupported(where, "first parameter of a classmethod is not cls")
            if pos[0].annotation is not None and self.ann(pos[0].annotation, where) != "C":
                raise Unsupported(where, "annotation of cls")
        elif not decos:
            kind = "method"
            if not pos or pos[0].arg != "self":
                raise Unsupported(where, "first parameter is not self")
        else:
            raise Unsupported(where, f"decorator {decos[0]}")
        recv = [] if kind == "function" else [pos[0].arg]
        pos = pos[len(recv):]
        defaults = [None] * (len(pos) - len(a.defaults)) + list(a.defaults)
        params = []
        for p, d in list(zip(pos, defaults)) + list(zip(a.kwonlyargs, a.kw_defaults)):
            if p.annotation is None:
                raise Unsupported(where, f"parameter {p.arg} without annotation")
            params.append((p.arg, self.ann(p.annotation, where), d, p in a.kwonlyargs))
        if fn.returns is None:
            raise Unsupported(where, "no return annotation")
        if any(isinstance(n, (ast.Yield, ast.YieldFrom, ast.Await, ast.Global, ast.Nonlocal, ast.Lambda)) for n in ast.walk(fn)):
            raise Unsupported(where, "yield / await / global / nonlocal / lambda")
        return Fun(owner, fn, kind, params, self.ann(fn.returns, where))

    def translate(self, f: Fun) -> str:
        tr = Tr(self, f)
        recv = ""
        if f.kind == "method":
            recv = f" ({tr.bind_var('self', 'N')} : N)"
        elif f.kind == "classmethod":
            recv = f" ({tr.bind_var('cls', 'C')} : C)"
        for (pn, pt, _d, _k) in f.params:
            tr.bind_var(pn, pt)
        params = "".join(f" ({tr.lean[pn]} : {lean_ty(pt)})" for (pn, pt, _d, _k) in f.params)
        body = tr.block(f.fn.body, None)
        fuel = " (fuel : Nat)" if f.fueled else ""
        doc = f"/-- `{f.qual}` (src/pyoak/node.py line {f.fn.lineno}) -/\n"
        return "".join(a + "\n" for a in tr.aux) + doc + \
            f"def {f.name} {SIG} (reg : Reg N){fuel}{recv}{params} : {f.result_ty()} :=\n  {body}\n"

    def generate(self) -> str:
        for owner, name in TARGETS:
            if owner is None:
                fn = self.k.funcs.get(name)
            else:
                c = self.k.classes.get(owner)
                cands = [s for s in (c.body if c is not None else []) if isinstance(s, ast.FunctionDef) and s.name == name]
                if len(cands) > 1:
                    raise Unsupported(f"{owner}.{name}", "defined more than once")
                fn = cands[0] if cands else None
            if fn is None:
                raise Unsupported(f"{owner + '.' if owner else ''}{name}", "not found")
            self.funs[name] = self.signature(owner, fn)
        texts: dict[str, str] = {}
        for _round in range(8 * len(self.funs) + 8):
            changed = False
            for f in self.funs.values():
                before = (f.writes, f.raises, f.fueled)
                try:
                    f.calls = set()
                    texts[f.name] = self.translate(f)
                except NeedFlags:
                    changed = True
                    continue
                if before != (f.writes, f.raises, f.fueled):
                    changed = True
            if not changed:
                break
        else:
            raise Unsupported("node.py", "the writes / raises / fuel flags of the functions do not stabilise")
        order, seen = [], set()

        def visit(name, stack):
            if name in seen:
                return
            if name in stack:
                raise Unsupported(name, "mutual recursion")
            for c in sorted(self.funs[name].calls):
                visit(c, stack + [name])
            seen.add(name)
            order.append(name)
        for name in self.funs:
            visit(name, [])
        out = [HEADER.replace("%PRIMS%", "\n".join(f"     {a:<62} ->  {b}" for a, b in PRIMITIVES))]
        out += [texts[n] for n in order]
        out.append("end PyOak.GenR\n")
        return "\n".join(out)


def generate_registry(src: Path) -> str:
    return RegTr(Path(src)).generate()


if __name__ == "__main__":
    import sys
    print(generate_registry(Path(sys.argv[1] if len(sys.argv) > 1 else "/repo/src")))
